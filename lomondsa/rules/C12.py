"""C12 - close() is atomic with respect to other threads' sends and closes (lock-region discipline)."""
import ast

from ..program import AnalysisError, U, own_nodes, walk_no_nested
from ..dataflow import ReachingDefs
from .common import (need, guards_of, calls_to, ext_calls, all_paths_pass, succs, normal_succs, path_conditions,
                     stores_in_package)
from .C11 import lock_frames
from . import C08

PROPERTY = 'C12'
LEVEL = 'other'
EXPLANATION = (
    'Lock-region analysis: in write() the closing/closed tests are inside the critical section that contains sendall '
    'and guard it on every path (no check-then-lock, no bypass); the store that makes is_closing true must lie in the '
    'same critical-section instance as the sendall of the Close frame, otherwise another thread can write after the '
    'Close or pass its own not-closing test; the decision to send a Close is re-validated inside the section; every '
    'close() path that attempts the send enters the closing state. Schedule independent; no interleaving enumerated.'
    ' Also decided: package-wide isolation (objects created once per class or per function definition - class-level attributes, parameter defaults - are only read), so that no buffer, validator, cache, lock or option table is shared between connections by accident.')
NOT_DECIDED = 'specific interleavings'
ASSUMPTIONS = ['`with lock:` releases on every exit']

S = 'session.WebsocketSession'
WS = 'websocket.WebSocket'
nx = lambda a, b, l: l.startswith('exc:')


def check(run):
    R = run
    R.rule('C12.shared', 'objects created once per class / per function definition (class-level attributes, parameter '
           'defaults) are only read (no frame/header cache or lock shared across instances by accident); a failed '
           'sendall() is never re-issued', 3)
    from .common import shared_state, no_send_retry
    shared_state(R, 'C12.shared')
    no_send_retry(R, 'C12.shared')
    R.rule('C12.tests', 'write(): the is_closed / is_closing tests are inside the critical section of sendall and guard '
                        'it on every path', 3)
    R.rule('C12.set', 'the store making is_closing true is in the same critical-section instance as the Close frame\'s '
                      'sendall', 1)
    R.rule('C12.guard', 'the not-closing decision is re-validated under the lock', 1)
    R.rule('C12.enter', 'every close() path that attempts the Close send enters the closing state; CLOSE has one producer', 4)
    from . import C11
    R.rule('C12.lock', 'the critical sections are real: one threading lock per session, created in __init__ for every kind '
                       'of connection, used only through `with`', 2)
    with R.as_rule('C12.lock'):
        C11.single(R)
    tests(R)
    set_(R)
    with R.as_rule('C12.enter'):
        C08.client(R)        # closed is set only after the socket is closed: no window with neither flag set
        C11.private(R)       # no per-session frame object is shared between a sender and a closer
    C08.onlyclose(R, RID='C12.enter')
    with R.as_rule('C12.enter'):
        C08.writers(R)       # the closing / closed flags change only at their tabled places: no window (say at the Closed
                             # event) in which neither is set while the socket is still open
    compression_writers(R, 'C12.enter')
    with R.as_rule('C12.tests'):
        C08.refuse(R)            # the refusing tests dominate the one sendall; a frame is written by the thread that sends it,
        C11.once(R)              # at once (no queue another thread flushes after its own Close)
    from . import C14 as _C14
    _C14.swallow(R, RID='C12.tests')        # only the library's own pong / ping swallow the refusal: an application send that
                                            # loses the race gets the WebSocketError (send() / send_compressed() catch nothing)
    from . import C17
    R.rule('C12.session', 'the state that refuses sends and the socket they go to belong to the same connection: every '
                          'connect() gets a newly built session (no socket of the previous connection behind fresh flags)', 5)
    with R.as_rule('C12.session'):
        C17.session(R)


def tests(R):
    from .common import effective_write_sites
    sites = effective_write_sites(R)
    need(sites, 'no write to the session socket found')
    secs = []
    for (g, n, c, via) in sites:
        rd = ReachingDefs(g)
        q = g.ctx.func.qual
        sec = set(w for (w, t) in lock_frames(R, g, n) if t == 'self._lock')
        secs.append(bool(sec))
        R.ob('C12.tests', 'socket write inside a section of the session lock (%s)' % q.rsplit('.', 1)[1], bool(sec),
             'the socket write `%s` (reached via %s) is outside `with self._lock`' % (U(c), ' <- '.join(via)), func=q, node=c)
        for prop in ('is_closed', 'is_closing'):
            # the fact must be established *inside* the critical section: on every path from the `with` to the write
            bad = []
            for w in sec or [g.entry]:
                for l in path_conditions(R, g, rd, w, n):
                    if not any((a, False) in l for a in ('self.websocket.state.%s' % prop[3:], 'self.websocket.' + prop)):
                        bad.append(sorted(x[0] for x in l if x[1])[:4])
            ok = bool(sec) and not bad
            R.ob('C12.tests', '%s tested under the lock on every path to the socket write (%s)' % (prop, q.rsplit('.', 1)[1]), ok,
                 '%s() can write to the socket without testing %s inside the critical section (check-then-lock, a bypass '
                 'parameter, or a send path that skips write()\'s checks): a send that loses the race against close() is '
                 'written after the Close frame' % (q.rsplit('.', 1)[1], prop), func=q, node=c,
                 construct='%s %s test placement' % (q, prop))
    # the lock excludes the thread that holds it too: with a re-entrant lock a close() that runs on the sending thread while it
    # is inside write() (a signal handler, a callback of the socket wrapper) walks through the section, writes the Close and
    # the interrupted data frame follows it.  (A re-entrant lock is only needed by a close() that itself holds the lock
    # around the Close send and the flag store - the C12.set repair.)
    gc = R.cfg(WS + '.close')
    sc = calls_to(R, gc, WS + '._send_close')
    close_holds = bool(sc) and all(lock_frames(R, gc, n_) for (n_, _) in sc)
    w = stores_in_package(R, '_lock')
    for (c_, s_, t_, v_) in w:
        re_ = isinstance(v_, ast.Call) and U(v_.func).rsplit('.', 1)[-1] in ('RLock', '_RLock', '_CRLock', '_PyRLock')
        R.ob('C12.tests', 'the write lock is not re-entrant', not re_ or close_holds,
             'the session lock is created as `%s`: a close() that runs on the thread that is inside write() (signal handler, '
             'wrapper callback) enters the critical section again, writes the Close frame and sets closing; the interrupted '
             'data frame is written after the Close' % U(v_), func=c_.func, node=s_, construct='re-entrant session lock')
    R.ob('C12.guard', 'closing re-validated under the lock by every socket write', all(secs), 'a socket write without a critical section',
         func=S + '.write', node=None, construct='revalidation')


def set_(R):
    q = WS + '.close'
    g = R.cfg(q)
    sc = calls_to(R, g, WS + '._send_close')
    need(len(sc) == 1, 'close(): _send_close call not found')
    n, c = sc[0]
    st = [m for m in g.live_nodes() if m.kind == 'stmt' and isinstance(m.ast, ast.Assign)
          and U(m.ast.targets[0]) == 'self.state.closing' and U(m.ast.value) == 'True']
    # the Close frame's sendall happens inside write()'s section; for the store to share that section *instance*, either
    # the store is inside write()'s with-block (it is not: write() knows nothing about Close frames), or close() holds a
    # re-entrant session lock around both the send and the store.
    cl = set(w for (w, t) in lock_frames(R, g, n))
    ok = bool(st) and bool(cl) and all(cl & set(w for (w, t) in lock_frames(R, g, s)) for s in st)
    if ok:
        # the lock must be re-entrant, since write() takes it again
        w = stores_in_package(R, '_lock')
        ok = all(U(v) == 'threading.RLock()' for (_, _, _, v) in w)
    if not ok:
        # alternative: the flag is set inside write()'s own section (write() told that this is the Close frame)
        gw = R.cfg(S + '.write')
        sa = ext_calls(R, gw, {'socket.sendall'})
        inw = [m for m in gw.live_nodes() if m.kind == 'stmt' and isinstance(m.ast, ast.Assign) and 'closing' in U(m.ast.targets[0])]
        if sa and inw:
            sec = set(w_ for (w_, t) in lock_frames(R, gw, sa[0][0]))
            ok = all(sec & set(w_ for (w_, t) in lock_frames(R, gw, m)) for m in inw)
    R.ob('C12.set', 'closing flag set in the Close frame\'s critical section', ok,
         'WebSocket.close() writes the Close frame (inside write()\'s lock) and sets state.closing afterwards, outside any '
         'critical section: between the two another thread can write a data frame after the Close, or pass its own '
         '`not is_closing` test and write a second Close', func=q, node=(st[0].ast if st else c),
         construct='closing flag set outside the Close write\'s critical section')


def compression_writers(R, RID):
    """send_text / send_binary test state.compression and then use it, outside any lock: the field is set once per
    connection (State.__init__, process_extensions) and never cleared while another thread may be between the two."""
    from .common import stores_in_package
    w = [(c, s_, t, v) for (c, s_, t, v) in stores_in_package(R, 'compression')
         if any(isinstance(x, str) and x == 'inst:websocket.WebSocket.State' for x in R.types.expr(t.value, c))]
    quals = sorted(set(c.func.qual for (c, _, _, _) in w))
    allowed = {'websocket.WebSocket.State.__init__', 'websocket.WebSocket.process_extensions'}
    bad = [q_ for q_ in quals if q_ not in allowed]
    R.ob(RID, 'state.compression is written once per connection', not bad and bool(quals),
         'State.compression is also written in %s: a sender that has just tested it (send_text / send_binary read it twice, '
         'without a lock) then calls .compress on None - the losing send fails with AttributeError, not a WebSocketError'
         % bad, func=(bad[0] if bad else None), node=None, construct='State.compression writers %s' % quals)
