"""Helpers shared by the rule modules."""
import ast

from ..program import AnalysisError, U, walk_no_nested, own_nodes
from ..dataflow import ReachingDefs, attr_chain, names_in


def need(cond, msg):
    if not cond:
        raise AnalysisError(msg)


def guards_of(g, n):
    """[(atom text, polarity, test node)] for every branch edge that dominates node n."""
    out = []
    for (t, lab) in g.edge_guards(n):
        if t.kind == 'test':
            out.append((U(t.ast), lab == 'true', t))
        elif t.kind == 'for':
            out.append(('for ' + U(t.ast.target) + ' in ' + U(t.ast.iter), lab == 'body', t))
    return out


def calls_to(run, g, quals):
    """(node, call) pairs in CFG g whose call resolves to one of the function quals."""
    if isinstance(quals, str):
        quals = [quals]
    out = []
    for n in g.live_nodes():
        for c in n.calls:
            for t in run.types.call_targets(c, g.ctx):
                if t.kind in ('func', 'ctor') and t.qual in quals:
                    out.append((n, c))
                    break
    return out


def ext_calls(run, g, names):
    """(node, call) pairs whose call resolves to an external op in ``names``."""
    out = []
    for n in g.live_nodes():
        for c in n.calls:
            for t in run.types.call_targets(c, g.ctx):
                if t.kind == 'ext' and t.name in names:
                    out.append((n, c))
                    break
    return out


def all_paths_pass(g, srcs, through, dsts, skip_edge=None):
    """True iff every path from (after) srcs to any of dsts passes a node in ``through``."""
    starts = []
    for s in srcs:
        starts.append(s)
    r = g.reachable(starts, avoid=set(through), skip_edge=skip_edge)
    return not any(d in r for d in dsts)


def succs(n, label=None):
    return [m for (m, l) in n.succ if label is None or l == label]


def normal_succs(n):
    return [m for (m, l) in n.succ if not l.startswith('exc:')]


def no_exc(a, b, l):
    return l.startswith('exc:')


def arg_of(call, func, name, bound=True):
    """Expression passed for parameter ``name`` of FuncInfo ``func`` at ``call`` (None if absent)."""
    params = func.params
    if bound and params and params[0] in ('self', 'cls'):
        params = params[1:]
    for kw in call.keywords:
        if kw.arg == name:
            return kw.value
    if name in params:
        i = params.index(name)
        if i < len(call.args) and not any(isinstance(a, ast.Starred) for a in call.args[:i + 1]):
            return call.args[i]
    return None


def default_of(func, name):
    a = func.node.args
    pos = a.posonlyargs + a.args
    defaults = [None] * (len(pos) - len(a.defaults)) + list(a.defaults)
    for p, d in zip(pos, defaults):
        if p.arg == name:
            return d
    return None


def is_param(rd, n, e, name=None):
    """Does expression e (at node n) denote an unmodified parameter (optionally a specific one)?"""
    if not isinstance(e, ast.Name):
        return False
    ds = rd.defs_at(n, e.id)
    if ds != {rd.g.entry}:
        return False
    return name is None or e.id == name


def stores_in_package(run, attr):
    """All (ctx, stmt, target expr, value expr) storing to an attribute named ``attr``."""
    out = []
    seen = set()
    for c in run.types.ctxs.values():
        f = c.func
        if f.qual in seen:
            continue
        for n in own_nodes(f.node):
            tgts = []
            val = None
            if isinstance(n, ast.Assign):
                tgts = n.targets
                val = n.value
            elif isinstance(n, (ast.AugAssign, ast.AnnAssign)):
                tgts = [n.target]
                val = n.value
            elif isinstance(n, ast.Delete):
                tgts = n.targets
            flat = []
            for t in tgts:
                if isinstance(t, (ast.Tuple, ast.List)):
                    flat.extend(t.elts)
                else:
                    flat.append(t)
            for t in flat:
                if isinstance(t, ast.Attribute) and t.attr == attr:
                    out.append((c, n, t, val))
        seen.add(f.qual)
    return out


def const_int(run, e, ctx):
    """Fold an expression to a Python constant using class/module constants; None if not constant."""
    from ..consteval import fold
    return fold(run, e, ctx)


# --------------------------------------------------------------------------- atoms / path conditions
import copy


class _SubstSelf(ast.NodeTransformer):
    def __init__(self, repl):
        self.repl = repl

    def visit_Name(self, node):
        if node.id == 'self':
            return copy.deepcopy(self.repl)
        return node


def inline_property(run, ctx, e):
    """``frame.is_text`` -> ``frame.opcode == Opcode.TEXT`` when is_text is a one-line property."""
    if not isinstance(e, ast.Attribute):
        return None
    getters = set()
    for t in run.types.expr(e.value, ctx):
        if isinstance(t, str) and t.startswith('inst:'):
            fi = run.prog.find_method(t[5:], e.attr)
            if fi is None:
                if t[5:] in run.prog.classes and (run.types.field_types(t[5:], e.attr)
                                                  or run.prog.class_attr(t[5:], e.attr) is not None):
                    return None          # a plain field on some receiver: not a property access
                continue                 # receiver type without the attribute: cannot be the runtime type here
            if not fi.is_property:
                return None
            getters.add(fi)
    if len(getters) != 1:
        # all receivers must agree on one getter body text
        bodies = set()
        for fi in getters:
            body = [s for s in fi.node.body if not (isinstance(s, ast.Expr) and isinstance(s.value, ast.Constant))]
            if len(body) != 1 or not isinstance(body[0], ast.Return):
                return None
            bodies.add(U(body[0].value))
        if len(bodies) != 1:
            return None
    if not getters:
        return None
    fi = sorted(getters, key=lambda f: f.qual)[0]
    body = [s for s in fi.node.body if not (isinstance(s, ast.Expr) and isinstance(s.value, ast.Constant))]
    if len(body) != 1 or not isinstance(body[0], ast.Return) or body[0].value is None:
        return None
    return _SubstSelf(e.value).visit(copy.deepcopy(body[0].value))


def atom_text(run, ctx, e):
    """Canonical text of an atomic condition, one-line properties inlined."""
    r = inline_property(run, ctx, e)
    if r is not None:
        return U(r)
    return U(e)


def literals_of(run, g, rd, tnode, polarity):
    """Literals implied by test node ``tnode`` evaluating to ``polarity``.

    A Name whose single definition is an and/or of atoms is expanded when the polarity allows;
    otherwise a composite literal ('and(a,b)', False) / ('or(a,b)', True) is produced."""
    ctx = g.ctx
    e = tnode.ast
    out = set()
    out.add((atom_text(run, ctx, e), polarity))
    o, on = rd.origin(tnode, e) if isinstance(e, ast.Name) else (e, tnode)
    inl = inline_property(run, ctx, o) if isinstance(o, ast.Attribute) else None
    if inl is not None:
        o = inl
    if isinstance(o, ast.UnaryOp) and isinstance(o.op, ast.Not):
        out.add((atom_text(run, ctx, o.operand), not polarity))
        o2 = o.operand
        if isinstance(o2, ast.BoolOp):
            parts = sorted(atom_text(run, ctx, v) for v in o2.values)
            if isinstance(o2.op, ast.And) and not polarity:
                for p in parts:
                    out.add((p, True))
            if isinstance(o2.op, ast.Or) and polarity:
                for p in parts:
                    out.add((p, False))
    if isinstance(o, ast.BoolOp):
        parts = sorted(atom_text(run, ctx, v) for v in o.values)
        if isinstance(o.op, ast.And):
            if polarity:
                for p in parts:
                    out.add((p, True))
            else:
                out.add(('and(%s)' % ','.join(parts), False))
        else:
            if not polarity:
                for p in parts:
                    out.add((p, False))
            else:
                out.add(('or(%s)' % ','.join(parts), True))
    elif o is not e:
        out.add((atom_text(run, ctx, o), polarity))
    return out


def path_conditions(run, g, rd, start, target, limit=5000, through_exc=False, prune=True):
    """Literal sets of every simple path start -> target (non-exception edges)."""
    out = []
    count = [0]

    def rec(n, seen, lits):
        if count[0] > limit:
            raise AnalysisError('path enumeration limit exceeded in %s' % g.ctx.func.qual)
        if n is target:
            count[0] += 1
            out.append(frozenset(lits))
            return
        for (m, l) in n.succ:
            if l.startswith('exc:') and not through_exc:
                continue
            if m in seen:
                continue
            add = set()
            if n.kind == 'test' and l in ('true', 'false'):
                add = literals_of(run, g, rd, n, l == 'true')
                # a path asserting an atom both ways is infeasible (atoms are pure reads of unchanged operands)
                if prune and any((t, not p) in lits for (t, p) in add):
                    continue
            rec(m, seen | {m}, lits | add)
    rec(start, {start}, set())
    return out


def has(lits, text, pol):
    return (text, pol) in lits


# ------------------------------------------------------------------------------ integer intervals
ATOM_AST = {}
INF = float('inf')


def _register_atoms(e):
    for x in walk_no_nested(e):
        if isinstance(x, (ast.Compare, ast.Call, ast.Attribute, ast.Name)):
            ATOM_AST.setdefault(U(x), x)


def interval_of(run, ctx, lits, var_text, integer=True):
    """Tightest [lo, hi] for the integer quantity ``var_text`` implied by comparison literals."""
    lo, hi = -INF, INF
    for (txt, pol) in lits:
        try:
            e = ast.parse(txt, mode='eval').body
        except SyntaxError:
            continue
        if not (isinstance(e, ast.Compare) and len(e.ops) == 1):
            continue
        l, r, op = e.left, e.comparators[0], e.ops[0]
        if U(r) == var_text and U(l) != var_text:
            l, r = r, l
            op = {ast.Lt: ast.Gt, ast.LtE: ast.GtE, ast.Gt: ast.Lt, ast.GtE: ast.LtE}.get(type(op), type(op))()
        if U(l) != var_text:
            continue
        from ..consteval import fold
        k = fold(run, r, ctx)
        if not isinstance(k, int) or isinstance(k, bool):
            continue
        t = type(op)
        if not pol:
            t = {ast.Lt: ast.GtE, ast.LtE: ast.Gt, ast.Gt: ast.LtE, ast.GtE: ast.Lt, ast.Eq: ast.NotEq,
                 ast.NotEq: ast.Eq}.get(t)
        if t is ast.Lt:
            hi = min(hi, k - 1)
        elif t is ast.LtE:
            hi = min(hi, k)
        elif t is ast.Gt:
            lo = max(lo, k + 1)
        elif t is ast.GtE:
            lo = max(lo, k)
        elif t is ast.Eq:
            lo = max(lo, k)
            hi = min(hi, k)
    return lo, hi


def struct_format(run, ctx, call):
    """Format string of a call to a bound struct pack/unpack kept in a class attribute; None if not one."""
    fn = call.func
    if not isinstance(fn, ast.Attribute):
        return None
    for t in run.types.expr(fn.value, ctx):
        if isinstance(t, str) and (t.startswith('cls:') or t.startswith('inst:')):
            q = t.split(':', 1)[1]
            ca = run.prog.class_attr(q, fn.attr)
            if ca is None:
                continue
            for v in ca[1]:
                if isinstance(v, ast.Attribute) and v.attr in ('pack', 'unpack') and isinstance(v.value, ast.Call) \
                        and v.value.args and isinstance(v.value.args[0], ast.Constant):
                    fmt = v.value.args[0].value
                    if isinstance(fmt, bytes):
                        fmt = fmt.decode('ascii')
                    return (v.attr, fmt)
    return None


# ----------------------------------------------------------------------------- linear comparisons
def _lin(e, sign, out, alias):
    if isinstance(e, ast.BinOp) and isinstance(e.op, ast.Add):
        _lin(e.left, sign, out, alias)
        _lin(e.right, sign, out, alias)
    elif isinstance(e, ast.BinOp) and isinstance(e.op, ast.Sub):
        _lin(e.left, sign, out, alias)
        _lin(e.right, -sign, out, alias)
    elif isinstance(e, ast.UnaryOp) and isinstance(e.op, ast.USub):
        _lin(e.operand, -sign, out, alias)
    elif isinstance(e, ast.Constant) and isinstance(e.value, (int, float)) and not isinstance(e.value, bool):
        out['1'] = out.get('1', 0) + sign * e.value
    else:
        t = alias.get(U(e), U(e))
        if isinstance(t, ast.AST):
            _lin(t, sign, out, alias)
        else:
            out[t] = out.get(t, 0) + sign
    return out


def lin_cmp(text_or_expr, polarity=True, alias=None):
    """Normalise ``L op R`` to ({term: coef}, '>=' | '>' | '==' | '!=') meaning  sum(coef*term) op 0."""
    e = text_or_expr
    if isinstance(e, str):
        try:
            e = ast.parse(e, mode='eval').body
        except SyntaxError:
            return None
    if not (isinstance(e, ast.Compare) and len(e.ops) == 1):
        return None
    op = type(e.ops[0])
    if not polarity:
        op = {ast.Lt: ast.GtE, ast.LtE: ast.Gt, ast.Gt: ast.LtE, ast.GtE: ast.Lt, ast.Eq: ast.NotEq,
              ast.NotEq: ast.Eq}.get(op)
        if op is None:
            return None
    l, r = e.left, e.comparators[0]
    if op in (ast.Lt, ast.LtE):
        l, r = r, l
        op = {ast.Lt: ast.Gt, ast.LtE: ast.GtE}[op]
    out = {}
    _lin(l, 1, out, alias or {})
    _lin(r, -1, out, alias or {})
    out = {k: v for k, v in out.items() if v != 0}
    sym = {ast.GtE: '>=', ast.Gt: '>', ast.Eq: '==', ast.NotEq: '!='}.get(op)
    if sym is None:
        return None
    return out, sym
