"""Helpers shared by the rule modules."""
import ast

from ..program import AnalysisError, U, walk_no_nested, own_nodes
from ..dataflow import ReachingDefs, attr_chain, names_in


def need(cond, msg):
    if not cond:
        raise AnalysisError(msg)


def calls_to(run, g, quals):
    """(node, call) pairs in CFG g whose call resolves to one of the function quals."""
    if isinstance(quals, str):
        quals = [quals]
    out = []
    for n in g.live_nodes():
        for c in n.calls:
            for t in run.types.call_targets(c, g.ctx):
                if t.kind in ('func', 'ctor') and t.qual in quals:
                    out.append((n, c))
                    break
    return out


def ext_calls(run, g, names):
    """(node, call) pairs whose call resolves to an external op in ``names``."""
    out = []
    for n in g.live_nodes():
        for c in n.calls:
            for t in run.types.call_targets(c, g.ctx):
                if t.kind == 'ext' and t.name in names:
                    out.append((n, c))
                    break
    return out


QUERY_LOG = None      # set to a list by the thorough tier: every must-pass-through query is re-decided by path enumeration


def all_paths_pass(g, srcs, through, dsts, skip_edge=None):
    """True iff every path from (after) srcs to any of dsts passes a node in ``through``."""
    starts = []
    for s in srcs:
        starts.append(s)
    r = g.reachable(starts, avoid=set(through), skip_edge=skip_edge)
    res = not any(d in r for d in dsts)
    if QUERY_LOG is not None:
        QUERY_LOG.append((g, list(starts), set(through), list(dsts), skip_edge, res))
    return res


def succs(n, label=None):
    return [m for (m, l) in n.succ if label is None or l == label]


def normal_succs(n):
    return [m for (m, l) in n.succ if not l.startswith('exc:')]


def no_exc(a, b, l):
    return l.startswith('exc:')


def arg_of(call, func, name, bound=True):
    """Expression passed for parameter ``name`` of FuncInfo ``func`` at ``call`` (None if absent)."""
    params = func.params
    if bound and params and params[0] in ('self', 'cls'):
        params = params[1:]
    for kw in call.keywords:
        if kw.arg == name:
            return kw.value
    if name in params:
        i = params.index(name)
        if i < len(call.args) and not any(isinstance(a, ast.Starred) for a in call.args[:i + 1]):
            return call.args[i]
    return None


def default_of(func, name):
    a = func.node.args
    pos = a.posonlyargs + a.args
    defaults = [None] * (len(pos) - len(a.defaults)) + list(a.defaults)
    for p, d in zip(pos, defaults):
        if p.arg == name:
            return d
    return None


def is_param(rd, n, e, name=None):
    """Does expression e (at node n) denote an unmodified parameter (optionally a specific one)?"""
    if not isinstance(e, ast.Name):
        return False
    ds = rd.defs_at(n, e.id)
    if ds != {rd.g.entry}:
        return False
    return name is None or e.id == name


def stores_in_package(run, attr):
    """All (ctx, stmt, target expr, value expr) storing to an attribute named ``attr``."""
    out = []
    seen = set()
    for c in run.types.ctxs.values():
        f = c.func
        if f.qual in seen:
            continue
        for n in own_nodes(f.node):
            tgts = []
            val = None
            if isinstance(n, ast.Assign):
                tgts = n.targets
                val = n.value
            elif isinstance(n, (ast.AugAssign, ast.AnnAssign)):
                tgts = [n.target]
                val = n.value
            elif isinstance(n, ast.Delete):
                tgts = n.targets
            flat = []
            for t in tgts:
                if isinstance(t, (ast.Tuple, ast.List)):
                    flat.extend(t.elts)
                else:
                    flat.append(t)
            for t in flat:
                if isinstance(t, ast.Attribute) and t.attr == attr:
                    out.append((c, n, t, val))
        seen.add(f.qual)
    return out


def const_int(run, e, ctx):
    """Fold an expression to a Python constant using class/module constants; None if not constant."""
    from ..consteval import fold
    return fold(run, e, ctx)


# --------------------------------------------------------------------------- atoms / path conditions
import copy


class _SubstSelf(ast.NodeTransformer):
    def __init__(self, repl):
        self.repl = repl

    def visit_Name(self, node):
        if node.id == 'self':
            return copy.deepcopy(self.repl)
        return node


def inline_property(run, ctx, e):
    """``frame.is_text`` -> ``frame.opcode == Opcode.TEXT`` when is_text is a one-line property."""
    if not isinstance(e, ast.Attribute):
        return None
    getters = set()
    for t in run.types.expr(e.value, ctx):
        if isinstance(t, str) and t.startswith('inst:'):
            fi = run.prog.find_method(t[5:], e.attr)
            if fi is None:
                if t[5:] in run.prog.classes and (run.types.field_types(t[5:], e.attr)
                                                  or run.prog.class_attr(t[5:], e.attr) is not None):
                    return None          # a plain field on some receiver: not a property access
                continue                 # receiver type without the attribute: cannot be the runtime type here
            if not fi.is_property:
                return None
            getters.add(fi)
    if len(getters) != 1:
        # all receivers must agree on one getter body text
        bodies = set()
        for fi in getters:
            body = [s for s in fi.node.body if not (isinstance(s, ast.Expr) and isinstance(s.value, ast.Constant))]
            if len(body) != 1 or not isinstance(body[0], ast.Return):
                return None
            bodies.add(U(body[0].value))
        if len(bodies) != 1:
            return None
    if not getters:
        return None
    fi = sorted(getters, key=lambda f: f.qual)[0]
    body = [s for s in fi.node.body if not (isinstance(s, ast.Expr) and isinstance(s.value, ast.Constant))]
    if len(body) != 1 or not isinstance(body[0], ast.Return) or body[0].value is None:
        return None
    return _SubstSelf(e.value).visit(copy.deepcopy(body[0].value))


_PROP_BODIES = {}


def _prop_bodies(run, cq):
    """{body text (over `self`): property name} for the one-line properties of class cq (and its bases)."""
    key = (id(run), cq)
    if key in _PROP_BODIES:
        return _PROP_BODIES[key]
    out = {}
    for k in run.prog.mro(cq):
        for name, fi in run.prog.classes[k].methods.items():
            if not fi.is_property:
                continue
            body = [s for s in fi.node.body if not (isinstance(s, ast.Expr) and isinstance(s.value, ast.Constant))]
            if len(body) == 1 and isinstance(body[0], ast.Return) and body[0].value is not None:
                out.setdefault(U(body[0].value), name)
    _PROP_BODIES[key] = out
    return out


class _FoldProps(ast.NodeTransformer):
    """The reverse of property inlining: `X.state.closing` -> `X.is_closing` when X is an instance of a class whose
    one-line property is_closing returns self.state.closing.  (So that code reading the field directly and code going
    through the property have a common form.)"""
    def __init__(self, run, ctx):
        self.run, self.ctx = run, ctx

    def visit_Attribute(self, node):
        node = self.generic_visit(node)
        if not isinstance(node.ctx, ast.Load):
            return node
        base = node
        for _ in range(3):
            if not isinstance(base, ast.Attribute):
                break
            base = base.value
            try:
                tys = self.run.types.expr(base, self.ctx)
            except Exception:
                break
            for t in tys:
                if isinstance(t, str) and t.startswith('inst:') and t[5:] in self.run.prog.classes:
                    pb = _prop_bodies(self.run, t[5:])
                    txt = U(_SubstBase(base).visit(copy.deepcopy(node)))
                    if txt in pb:
                        return ast.copy_location(ast.Attribute(value=base, attr=pb[txt], ctx=ast.Load()), node)
        return node


class _SubstBase(ast.NodeTransformer):
    """Replace the sub-expression object ``base`` (by identity of its text) with the name `self`."""
    def __init__(self, base):
        self.text = U(base)

    def visit(self, node):
        if isinstance(node, ast.expr) and U(node) == self.text:
            return ast.Name(id='self', ctx=ast.Load())
        return self.generic_visit(node)


def atom_text(run, ctx, e):
    """Canonical text of an atomic condition, one-line properties inlined."""
    r = inline_property(run, ctx, e)
    if r is not None:
        return U(r)
    return U(e)


# ---- canonical forms of atoms -------------------------------------------------------------------
class Lits(frozenset):
    """A set of (text, polarity) literals (all equivalent forms of every atom) + the atoms as groups."""
    groups = ()


def _pure(e, depth=0):
    """Side-effect free expression whose value can be substituted for a local that copies it."""
    if depth > 6:
        return False
    if isinstance(e, (ast.Name, ast.Constant)):
        return True
    if isinstance(e, ast.Attribute):
        return _pure(e.value, depth + 1)
    if isinstance(e, ast.Subscript):
        return _pure(e.value, depth + 1) and (isinstance(e.slice, ast.Slice) or _pure(e.slice, depth + 1))
    if isinstance(e, ast.BinOp) and isinstance(e.op, (ast.Add, ast.Sub, ast.Mult, ast.RShift, ast.LShift, ast.BitAnd)):
        return _pure(e.left, depth + 1) and _pure(e.right, depth + 1)
    if isinstance(e, ast.UnaryOp) and isinstance(e.op, ast.USub):
        return _pure(e.operand, depth + 1)
    if isinstance(e, ast.Call) and isinstance(e.func, ast.Name) and e.func.id in ('len', 'bool', 'int') and len(e.args) == 1:
        return _pure(e.args[0], depth + 1)
    return False


def _boolish(e):
    return isinstance(e, (ast.Compare, ast.BoolOp)) or (isinstance(e, ast.UnaryOp) and isinstance(e.op, ast.Not)) \
        or (isinstance(e, ast.Constant) and isinstance(e.value, bool)) \
        or (isinstance(e, ast.Call) and isinstance(e.func, ast.Name) and e.func.id in ('isinstance', 'hasattr', 'bool'))


class _Subst(ast.NodeTransformer):
    def __init__(self, look):
        self.look = look

    def visit_Name(self, node):
        if isinstance(node.ctx, ast.Load):
            r = self.look(node.id)
            if r is not None:
                return copy.deepcopy(r)
        return node


def g_rd(g):
    rd = getattr(g, '_rd', None)
    if rd is None:
        rd = g._rd = ReachingDefs(g)
    return rd


def subst_locals(run, g, node, e, env=None, depth=3, pure_only=True):
    """Replace local names that merely copy a pure expression by that expression (single reaching definition, or the
    path-sensitive environment ``env``)."""
    rd = g_rd(g)
    for _ in range(depth):
        changed = [False]

        def look(name):
            v = None
            if env is not None and name in env:
                v = env[name]
            elif env is None or name not in env:
                ds = rd.defs_at(node, name)
                if len(ds) == 1:
                    d = next(iter(ds))
                    v = rd.value_of_def(d, name)
                    if v is not None:
                        # operands of the copied expression must not have been re-assigned since (cheap check:
                        # their definitions reaching the use equal those reaching the copy)
                        for nm in names_in(v):
                            if nm != name and rd.defs_at(node, nm) != rd.defs_at(d, nm):
                                v = None
                                break
            if v is not None and (_pure(v) or not pure_only) and not (isinstance(v, ast.Name) and v.id == name) \
                    and not any(isinstance(x, (ast.Yield, ast.YieldFrom)) for x in ast.walk(v)):
                changed[0] = True
                return v
            return None
        e2 = _Subst(look).visit(copy.deepcopy(e))
        if not changed[0]:
            return e2
        e = e2
    return e


_FLIP = {ast.Lt: ast.Gt, ast.LtE: ast.GtE, ast.Gt: ast.Lt, ast.GtE: ast.LtE}


def _norm_forms(e, pol, out, depth=0):
    """Add (text, pol) for e and for its normalised comparison forms."""
    out.add((U(e), pol))
    if depth > 3:
        return
    if isinstance(e, ast.UnaryOp) and isinstance(e.op, ast.Not):
        _norm_forms(e.operand, not pol, out, depth + 1)
        return
    if isinstance(e, ast.Compare) and len(e.ops) == 1:
        op, l, r = e.ops[0], e.left, e.comparators[0]
        neg = {ast.IsNot: ast.Is, ast.NotEq: ast.Eq, ast.NotIn: ast.In}.get(type(op))
        if neg is not None:
            if not isinstance(op, ast.NotIn):
                out.add((U(ast.Compare(left=r, ops=[op], comparators=[l])), pol))     # mirrored  b != a / b is not a
            e2 = ast.Compare(left=l, ops=[neg()], comparators=[r])
            _norm_forms(e2, not pol, out, depth + 1)
            return
        if type(op) in _FLIP:
            # a < b  ==  b > a   (both orientations are listed)
            out.add((U(ast.Compare(left=r, ops=[_FLIP[type(op)]()], comparators=[l])), pol))
            # not (a < b) == a >= b for totally ordered operands (numbers): listed with the opposite polarity
            NEG = {ast.Lt: ast.GtE, ast.LtE: ast.Gt, ast.Gt: ast.LtE, ast.GtE: ast.Lt}
            out.add((U(ast.Compare(left=l, ops=[NEG[type(op)]()], comparators=[r])), not pol))
            out.add((U(ast.Compare(left=r, ops=[_FLIP[NEG[type(op)]]()], comparators=[l])), not pol))
        elif isinstance(op, (ast.Eq, ast.Is)):
            out.add((U(ast.Compare(left=r, ops=[op], comparators=[l])), pol))
            nop = ast.NotEq() if isinstance(op, ast.Eq) else ast.IsNot()
            out.add((U(ast.Compare(left=l, ops=[nop], comparators=[r])), not pol))
            out.add((U(ast.Compare(left=r, ops=[nop], comparators=[l])), not pol))
    if isinstance(e, ast.Call) and isinstance(e.func, ast.Name) and e.func.id == 'bool' and len(e.args) == 1:
        _norm_forms(e.args[0], pol, out, depth + 1)


def atom_forms(run, g, node, e, pol, env=None):
    """All equivalent (text, polarity) forms of the atomic condition e evaluated at CFG node ``node``.
    Returns None if the condition is a constant contradicting ``pol`` (infeasible branch)."""
    ctx = g.ctx
    out = set()
    cands = [e]
    e1 = subst_locals(run, g, node, e, env)
    if U(e1) != U(e):
        cands.append(e1)
        # an atom whose operands are all known constants on this path (sock = None; ...; if sock is not None)
        if all(isinstance(x, (ast.Constant, ast.Compare, ast.UnaryOp, ast.cmpop, ast.unaryop, ast.expr_context))
               for x in ast.walk(e1)) and isinstance(e1, (ast.Compare, ast.UnaryOp)):
            try:
                import warnings
                with warnings.catch_warnings():
                    warnings.simplefilter('ignore')
                    val = bool(eval(compile(ast.fix_missing_locations(ast.Expression(body=copy.deepcopy(e1))), '<atom>', 'eval'),
                                    {'__builtins__': {}}))
                if val != pol:
                    return None
                return {('True', True)}
            except Exception:
                pass
    for c in list(cands):
        # inline one-line properties anywhere inside the atom
        c2 = _InlineProps(run, ctx).visit(copy.deepcopy(c))
        if U(c2) != U(c):
            cands.append(c2)
    for c in list(cands):
        # direct field reads folded back into the one-line property that returns them
        try:
            c4 = _FoldProps(run, ctx).visit(copy.deepcopy(c))
            if U(c4) != U(c):
                cands.append(c4)
        except Exception:
            pass
    for c in list(cands):
        # named constants (module / class level) replaced by their values
        c3 = _FoldConsts(run, ctx, g).visit(copy.deepcopy(c))
        if U(c3) != U(c):
            cands.append(c3)
    for c in cands:
        _norm_forms(c, pol, out)
    # flag variables: a Name whose (path-sensitive or single) definition is a boolean expression
    if isinstance(e, ast.Name):
        v = None
        rd = g_rd(g)
        if env is not None and e.id in env:
            v = env[e.id]
        else:
            ds = rd.defs_at(node, e.id)
            if len(ds) == 1:
                v = rd.value_of_def(next(iter(ds)), e.id)
        if v is not None and _boolish(v):
            r = cond_forms(run, g, node, v, pol, env)
            if r is None:
                return None
            out |= r
    return out


class _FoldConsts(ast.NodeTransformer):
    """Replace names / attributes that fold to int, str or bytes constants (not locals) by the constant."""
    def __init__(self, run, ctx, g):
        self.run, self.ctx, self.g = run, ctx, g
        self.locals = run.types.locals_of(ctx.func) if hasattr(ctx.func, 'node') else set()

    def _try(self, node):
        from ..consteval import fold
        try:
            v = fold(self.run, node, self.ctx)
        except Exception:
            v = None
        if isinstance(v, (int, str, bytes)) and not isinstance(v, bool):
            return ast.copy_location(ast.Constant(value=v), node)
        return None

    def visit_Name(self, node):
        if isinstance(node.ctx, ast.Load) and node.id not in self.locals:
            r = self._try(node)
            if r is not None:
                return r
        return node

    def visit_Attribute(self, node):
        if isinstance(node.ctx, ast.Load):
            base = node
            while isinstance(base, ast.Attribute):
                base = base.value
            if isinstance(base, ast.Name) and base.id not in self.locals and base.id != 'self':
                r = self._try(node)
                if r is not None:
                    return r
        return self.generic_visit(node)


class _InlineProps(ast.NodeTransformer):
    def __init__(self, run, ctx):
        self.run, self.ctx = run, ctx

    def visit_Attribute(self, node):
        node = self.generic_visit(node)
        if isinstance(node.ctx, ast.Load):
            r = inline_property(self.run, self.ctx, node)
            if r is not None:
                return r
        return node


def cond_forms(run, g, node, e, pol, env=None):
    """Literals implied by the (possibly compound) boolean expression e having truth value pol."""
    if isinstance(e, ast.Constant) and isinstance(e.value, bool):
        return set() if e.value == pol else None
    if isinstance(e, ast.UnaryOp) and isinstance(e.op, ast.Not):
        return cond_forms(run, g, node, e.operand, not pol, env)
    if isinstance(e, ast.BoolOp):
        conj = isinstance(e.op, ast.And)
        if conj == pol:
            out = set()
            for v in e.values:
                r = cond_forms(run, g, node, v, pol, env)
                if r is None:
                    return None
                out |= r
            return out
        parts = []
        for v in e.values:
            fs = atom_forms(run, g, node, v, True, env) or set()
            # canonical part text: the property-inlined / substituted form sorts last by convention; keep all
            parts.append(sorted(t for (t, p) in fs if p))
        out = set()
        import itertools
        combos = list(itertools.islice(itertools.product(*parts), 64)) if all(parts) else []
        for combo in combos:
            out.add((('and(%s)' if conj else 'or(%s)') % ','.join(sorted(combo)), pol))
        return out
    return atom_forms(run, g, node, e, pol, env)


def literals_of(run, g, rd, tnode, polarity, env=None):
    """Literals implied by test node ``tnode`` evaluating to ``polarity`` (None when infeasible)."""
    r = cond_forms(run, g, tnode, tnode.ast, polarity, env)
    return r


def _ifexp_conds(run, g, n, within):
    """Literals implied by the conditional expressions of node n that enclose the sub-expression ``within``."""
    out = []
    roots = list(n.exprs or ([n.ast] if n.ast is not None else []))

    def rec(e, conds):
        if e is within:
            out.extend(conds)
            return True
        if isinstance(e, ast.IfExp):
            if rec(e.body, conds + [(e.test, True)]) or rec(e.orelse, conds + [(e.test, False)]) or rec(e.test, conds):
                return True
            return False
        for c in ast.iter_child_nodes(e):
            if rec(c, conds):
                return True
        return False
    for r in roots:
        if rec(r, []):
            break
    res = []
    for (test, pol) in out:
        forms = cond_forms(run, g, n, test, pol) if run is not None else {(U(test), pol)}
        res.append((test, pol, forms or {(U(test), pol)}))
    return res


def guards_of(g, n, within=None):
    """[(atom text, polarity, test node)] for every branch edge that dominates node n - every equivalent form of each
    atom is listed (same test node).  ``within``: a sub-expression of n; conditions of conditional expressions that
    enclose it are included."""
    run = getattr(g, 'run', None)
    out = []
    if within is not None:
        for (test, pol, forms) in _ifexp_conds(run, g, n, within):
            pseudo = _PseudoTest(test)
            for (txt, p) in sorted(forms):
                out.append((txt, p, pseudo))
    for (t, lab) in g.edge_guards(n):
        if t.kind == 'test':
            forms = None
            if run is not None:
                forms = cond_forms(run, g, t, t.ast, lab == 'true')
            if not forms:
                forms = {(U(t.ast), lab == 'true')}
            for (txt, pol) in sorted(forms):
                out.append((txt, pol, t))
        elif t.kind == 'for':
            out.append(('for ' + U(t.ast.target) + ' in ' + U(t.ast.iter), lab == 'body', t))
    return out


class _PseudoTest(object):
    kind = 'test'

    def __init__(self, astnode):
        self.ast = astnode


def guard_groups(g, n, within=None):
    """[(test node, set of (text, pol))] - one entry per dominating test."""
    out = {}
    for (txt, pol, t) in guards_of(g, n, within):
        if t.kind == 'test':
            out.setdefault(t, set()).add((txt, pol))
    return list(out.items())


def only_guards(g, n, allowed):
    """True iff every dominating test of n has a form in ``allowed`` and every element of allowed is present."""
    groups = guard_groups(g, n)
    allowed = set(allowed)
    hit = set()
    for (t, forms) in groups:
        m = forms & allowed
        if not m:
            return False
        hit |= m
    return len(groups) == len(allowed) and all(any(a in forms for (t, forms) in groups) for a in allowed)


def _kill(env, name):
    env.pop(name, None)
    for k in [k for k, v in env.items() if not k.startswith('#') and name in names_in(v)]:
        env.pop(k)


def _update_env(env, n):
    """Path-sensitive environment of simple local assignments."""
    a = n.ast
    if n.kind == 'stmt':
        if isinstance(a, ast.Assign) and len(a.targets) == 1 and isinstance(a.targets[0], ast.Name):
            nm = a.targets[0].id
            val = a.value
            _kill(env, nm)
            if (_pure(val) or _boolish(val)) and nm not in names_in(val) and \
                    not any(isinstance(x, (ast.Yield, ast.YieldFrom)) for x in ast.walk(val)):
                env[nm] = val
            return
        for nm in _defs(n):
            _kill(env, nm)
    elif n.kind in ('for', 'with', 'handler', 'def'):
        for nm in _defs(n):
            _kill(env, nm)


def _defs(n):
    from ..dataflow import defs_of_node
    return defs_of_node(n)


_POST_CACHE = {}


def call_postconditions(run, g, n, depth=0):
    """Literals guaranteed after the calls in node n returned normally (callee: package function, not a generator):
    the literals common to every normal path through the callee, re-expressed in the caller's terms."""
    out = set()
    if depth > 1:
        return out
    for c in n.calls:
        ts = run.types.call_targets(c, g.ctx)
        if len(ts) != 1 or ts[0].kind != 'func' or ts[0].func.is_generator:
            continue
        t = ts[0]
        fi = t.func
        if fi.cls is None or not isinstance(c.func, ast.Attribute) or U(c.func.value) != 'self':
            continue
        key = (fi.qual, t.recv)
        if key not in _POST_CACHE or _POST_CACHE[key][0] is not run:
            _POST_CACHE[key] = (run, None)
            try:
                cg = run.cfg(fi.qual, t.recv)
                pcs = path_conditions(run, cg, g_rd(cg), cg.entry, cg.exit, limit=300, _depth=depth + 1)
            except AnalysisError:
                pcs = []
            common_ = None
            for l in pcs:
                common_ = set(l) if common_ is None else common_ & set(l)
            _POST_CACHE[key] = (run, common_ or set())
        post = _POST_CACHE[key][1] or set()
        if not post:
            continue
        params = [p for p in fi.params if p != 'self']
        amap = {}
        for i, p in enumerate(params):
            a = arg_of(c, fi, p)
            if a is not None:
                amap[p] = a
        for (txt, pol) in post:
            try:
                e = ast.parse(txt, mode='eval').body
            except SyntaxError:
                continue
            free = names_in(e) - {'self'}
            if not free <= set(amap) | {'isinstance', 'len', 'hasattr', 'bool', 'bytes', 'str', 'Opcode', 'Status'}:
                continue
            e2 = _Subst(lambda nm: amap.get(nm)).visit(e)
            out.add((U(e2), pol))
    return out


_HP_CACHE = {}


def helper_paths(run, g, n, depth=0):
    """For the calls in node n to private helpers of the same object (self._h(...)): the condition sets of the
    helper's normal paths, re-expressed in the caller's terms: [(set of literals, [groups])].  Several helper calls in
    one node are combined.  [] when the node calls no such helper."""
    combos = None
    for c in n.calls:
        ts = _helper_targets(run, g, c)
        if len(ts) != 1 or len(run.types.call_targets(c, g.ctx)) != 1:
            continue
        t = ts[0]
        fi = t.func
        key = (fi.qual, t.recv)
        ent = _HP_CACHE.get(key)
        if ent is None or ent[0] is not run:
            _HP_CACHE[key] = (run, [])
            try:
                cg = run.cfg(fi.qual, t.recv)
                pcs = path_conditions(run, cg, g_rd(cg), cg.entry, cg.exit, limit=200, _depth=depth + 1)
            except AnalysisError:
                pcs = []
            _HP_CACHE[key] = (run, pcs)
            ent = _HP_CACHE[key]
        pcs = ent[1]
        if not pcs or len(pcs) > 24:
            continue
        params = [p_ for p_ in fi.params if p_ not in ('self', 'cls')]
        amap = {}
        for p_ in params:
            a = arg_of(c, fi, p_)
            if a is not None:
                amap[p_] = a

        def conv(txt):
            try:
                e = ast.parse(txt, mode='eval').body
            except SyntaxError:
                return None
            free = names_in(e) - {'self', 'cls'}
            locs = run.types.locals_of(fi)
            if (free & locs) - set(amap):
                return None                   # mentions a helper-local that is not a parameter
            return U(_Subst(lambda nm: amap.get(nm)).visit(e))
        these = []
        for l in pcs:
            lits = set()
            for (txt, pol) in l:
                ct = conv(txt)
                if ct is not None:
                    lits.add((ct, pol))
            groups = []
            for (tn, pol, forms) in getattr(l, 'groups', ()):
                f2 = set()
                for (txt, p2) in forms:
                    ct = conv(txt)
                    if ct is not None:
                        f2.add((ct, p2))
                if f2:
                    groups.append((tn, pol, frozenset(f2)))
            eff = {k: v for k, v in getattr(l, 'assigns', {}).items() if k.startswith('self.')}
            these.append((lits, groups, eff))
        if combos is None:
            combos = these
        else:
            combos = [(a[0] | b[0], a[1] + b[1], dict(a[2], **b[2])) for a in combos for b in these][:64]
    return combos or []


def path_conditions(run, g, rd, start, target, limit=5000, through_exc=False, prune=True, _depth=0, avoid=()):
    """Literal sets of every simple path start -> target (non-exception edges).  Each element is a ``Lits`` frozenset
    of (text, polarity) containing every equivalent form of each atom; ``.groups`` lists the atoms one by one."""
    out = []
    count = [0]

    def rec(n, seen, lits, groups, env):
        if count[0] > limit:
            raise AnalysisError('path enumeration limit exceeded in %s' % g.ctx.func.qual)
        if n is target:
            count[0] += 1
            L = Lits(lits)
            L.groups = tuple(groups)
            L.assigns = dict(env.get('#assigns', {}))
            out.append(L)
            return
        env2 = dict(env)
        _update_env(env2, n)
        # every simple local assignment seen on the path (no purity restriction; for provenance, not for conditions)
        asg = dict(env.get('#assigns', {}))
        if n.kind == 'stmt' and isinstance(n.ast, ast.Assign) and len(n.ast.targets) == 1 and isinstance(n.ast.targets[0], ast.Name):
            asg[n.ast.targets[0].id] = (n.ast.value, n)
        elif n.kind == 'stmt' and isinstance(n.ast, ast.Assign) and len(n.ast.targets) == 1 \
                and isinstance(n.ast.targets[0], ast.Attribute) and isinstance(n.ast.targets[0].value, ast.Name) \
                and n.ast.targets[0].value.id == 'self':
            asg[U(n.ast.targets[0])] = (n.ast.value, n)          # field stores, keyed 'self.<field>'
        else:
            for nm_ in _defs(n):
                asg.pop(nm_, None)
        env2['#assigns'] = asg
        post = None
        for (m, l) in n.succ:
            if l.startswith('exc:') and not through_exc:
                continue
            if m in seen or m in avoid:
                continue
            add = set()
            grp = groups
            if n.kind == 'test' and l in ('true', 'false'):
                add = literals_of(run, g, rd, n, l == 'true', env2)
                if add is None:
                    continue                      # constant condition contradicts this branch
                if ('True', True) in add or ('False', False) in add:
                    add = set()                   # a flag known to be constant on this path: no information
                    rec(m, seen | {m}, lits, groups, env2)
                    continue
                if ('True', False) in add or ('False', True) in add:
                    continue
                # a path asserting an atom both ways is infeasible (atoms are pure reads of unchanged operands)
                if prune and any((t, not p) in lits for (t, p) in add):
                    continue
                if prune and _eq_conflict(lits, add):
                    continue                      # X == 'a' and X == 'b' on one path
                grp = groups + [(n, l == 'true', frozenset(add))]
            elif n.calls and n.kind in ('stmt', 'test') and _depth < 2:
                if post is None:
                    post = helper_paths(run, g, n, _depth)
                if post:
                    # splice each normal path of the helper(s) into this path
                    for (hl, hg, heff) in post:
                        if prune and any((t, not p) in lits for (t, p) in hl):
                            continue
                        env3 = env2
                        if heff:
                            env3 = dict(env2)
                            env3['#assigns'] = dict(env2.get('#assigns', {}), **heff)
                        rec(m, seen | {m}, lits | hl, groups + hg, env3)
                    continue
            rec(m, seen | {m}, lits | add, grp, env2)
    rec(start, {start}, set(), [], {})
    return out


_EQ_RE = None


def _eq_consts(lits):
    out = {}
    for (t, p) in lits:
        if not p or ' == ' not in t:
            continue
        try:
            e = ast.parse(t, mode='eval').body
        except SyntaxError:
            continue
        if isinstance(e, ast.Compare) and len(e.ops) == 1 and isinstance(e.ops[0], ast.Eq) \
                and isinstance(e.comparators[0], ast.Constant) and not isinstance(e.left, ast.Constant):
            out.setdefault(U(e.left), set()).add(repr(e.comparators[0].value))
    return out


def _eq_conflict(lits, add):
    a = _eq_consts(add)
    if not a:
        return False
    b = _eq_consts(lits)
    for k, vs in a.items():
        if k in b and (b[k] | vs) != b[k] and len(b[k] | vs) > 1:
            return True
    return False


def facts(run, g, n, start=None):
    """Literals (all forms) common to every path from start (default entry) to n."""
    pcs = path_conditions(run, g, g_rd(g), start or g.entry, n)
    common_ = None
    for l in pcs:
        common_ = set(l) if common_ is None else common_ & set(l)
    return common_ or set()


def extra_atoms(l, allowed):
    """Atoms (groups) of path condition l none of whose forms is in ``allowed``."""
    allowed = set(allowed)
    out = []
    for (tn, pol, forms) in getattr(l, 'groups', ()):
        if not (forms & allowed):
            out.append(sorted(forms)[0])
    return out


def has(lits, text, pol):
    return (text, pol) in lits


# ------------------------------------------------------------------------------ integer intervals
ATOM_AST = {}
INF = float('inf')


def _register_atoms(e):
    for x in walk_no_nested(e):
        if isinstance(x, (ast.Compare, ast.Call, ast.Attribute, ast.Name)):
            ATOM_AST.setdefault(U(x), x)


def interval_of(run, ctx, lits, var_text, integer=True, domain=None):
    """Tightest [lo, hi] for the integer quantity ``var_text`` implied by comparison literals (``domain``: known range
    of the quantity, e.g. (0, 127) for a 7-bit field; != k literals shave the ends)."""
    lo, hi = (-INF, INF) if domain is None else domain
    excluded = set()
    names = {var_text} if isinstance(var_text, str) else set(var_text)
    for (txt, pol) in lits:
        try:
            e = ast.parse(txt, mode='eval').body
        except SyntaxError:
            continue
        if not (isinstance(e, ast.Compare) and len(e.ops) == 1):
            continue
        l, r, op = e.left, e.comparators[0], e.ops[0]
        if U(r) in names and U(l) not in names:
            l, r = r, l
            op = {ast.Lt: ast.Gt, ast.LtE: ast.GtE, ast.Gt: ast.Lt, ast.GtE: ast.LtE}.get(type(op), type(op))()
        if U(l) not in names:
            continue
        from ..consteval import fold
        k = fold(run, r, ctx)
        if not isinstance(k, int) or isinstance(k, bool):
            continue
        t = type(op)
        if not pol:
            t = {ast.Lt: ast.GtE, ast.LtE: ast.Gt, ast.Gt: ast.LtE, ast.GtE: ast.Lt, ast.Eq: ast.NotEq,
                 ast.NotEq: ast.Eq}.get(t)
        if t is ast.Lt:
            hi = min(hi, k - 1)
        elif t is ast.LtE:
            hi = min(hi, k)
        elif t is ast.Gt:
            lo = max(lo, k + 1)
        elif t is ast.GtE:
            lo = max(lo, k)
        elif t is ast.Eq:
            lo = max(lo, k)
            hi = min(hi, k)
        elif t is ast.NotEq:
            excluded.add(k)
    for _ in range(4):
        if lo in excluded:
            lo += 1
        if hi in excluded:
            hi -= 1
    return lo, hi


def struct_format(run, ctx, call):
    """Format string of a call to a bound struct pack/unpack kept in a class attribute; None if not one.
    int.from_bytes(b, 'big') is the unsigned big-endian decode of len(b) bytes: reported as ('unpack', '!int') and
    resolved to !H / !Q by the caller from the number of bytes read."""
    fn = call.func
    if isinstance(fn, ast.Attribute) and fn.attr == 'from_bytes' and isinstance(fn.value, ast.Name) and fn.value.id == 'int':
        order = call.args[1] if len(call.args) > 1 else next((k.value for k in call.keywords if k.arg == 'byteorder'), None)
        signed = next((k.value for k in call.keywords if k.arg == 'signed'), None)
        if isinstance(order, ast.Constant) and order.value == 'big' and (signed is None or (
                isinstance(signed, ast.Constant) and signed.value is False)):
            return ('unpack', '!int')
        return None
    if not isinstance(fn, ast.Attribute):
        return None
    for t in run.types.expr(fn.value, ctx):
        if isinstance(t, str) and (t.startswith('cls:') or t.startswith('inst:')):
            q = t.split(':', 1)[1]
            ca = run.prog.class_attr(q, fn.attr)
            if ca is None:
                continue
            for v in ca[1]:
                if isinstance(v, ast.Attribute) and v.attr in ('pack', 'unpack') and isinstance(v.value, ast.Name):
                    # the Struct object is a module-level constant (possibly imported from a sibling module)
                    cm = run.prog.classes[ca[0]].module if ca[0] in run.prog.classes else None
                    r_ = run.prog.lookup(cm, v.value.id) if cm is not None else None
                    if r_ and r_[0] == 'global':
                        gm = run.prog.modules.get(r_[1])
                        for st_ in (gm.tree.body if gm is not None else []):
                            if isinstance(st_, ast.Assign) and any(isinstance(t_, ast.Name) and t_.id == r_[2] for t_ in st_.targets) \
                                    and isinstance(st_.value, ast.Call):
                                v = ast.Attribute(value=st_.value, attr=v.attr, ctx=ast.Load())
                if isinstance(v, ast.Attribute) and v.attr in ('pack', 'unpack') and isinstance(v.value, ast.Call) \
                        and v.value.args and isinstance(v.value.args[0], ast.Constant):
                    fmt = v.value.args[0].value
                    if isinstance(fmt, bytes):
                        fmt = fmt.decode('ascii')
                    return (v.attr, fmt)
    return None


# ----------------------------------------------------------------------------- linear comparisons
def _lin(e, sign, out, alias):
    if isinstance(e, ast.BinOp) and isinstance(e.op, ast.Add):
        _lin(e.left, sign, out, alias)
        _lin(e.right, sign, out, alias)
    elif isinstance(e, ast.BinOp) and isinstance(e.op, ast.Sub):
        _lin(e.left, sign, out, alias)
        _lin(e.right, -sign, out, alias)
    elif isinstance(e, ast.UnaryOp) and isinstance(e.op, ast.USub):
        _lin(e.operand, -sign, out, alias)
    elif isinstance(e, ast.Constant) and isinstance(e.value, (int, float)) and not isinstance(e.value, bool):
        out['1'] = out.get('1', 0) + sign * e.value
    else:
        t = alias.get(U(e), U(e))
        if isinstance(t, ast.AST):
            _lin(t, sign, out, alias)
        else:
            out[t] = out.get(t, 0) + sign
    return out


def lin_cmp(text_or_expr, polarity=True, alias=None):
    """Normalise ``L op R`` to ({term: coef}, '>=' | '>' | '==' | '!=') meaning  sum(coef*term) op 0."""
    e = text_or_expr
    if isinstance(e, str):
        try:
            e = ast.parse(e, mode='eval').body
        except SyntaxError:
            return None
    if not (isinstance(e, ast.Compare) and len(e.ops) == 1):
        return None
    op = type(e.ops[0])
    if not polarity:
        op = {ast.Lt: ast.GtE, ast.LtE: ast.Gt, ast.Gt: ast.LtE, ast.GtE: ast.Lt, ast.Eq: ast.NotEq,
              ast.NotEq: ast.Eq}.get(op)
        if op is None:
            return None
    l, r = e.left, e.comparators[0]
    if op in (ast.Lt, ast.LtE):
        l, r = r, l
        op = {ast.Lt: ast.Gt, ast.LtE: ast.GtE}[op]
    out = {}
    _lin(l, 1, out, alias or {})
    _lin(r, -1, out, alias or {})
    out = {k: v for k, v in out.items() if v != 0}
    sym = {ast.GtE: '>=', ast.Gt: '>', ast.Eq: '==', ast.NotEq: '!='}.get(op)
    if sym is None:
        return None
    return out, sym


# ------------------------------------------------------------------------------ exact atom matching
def guard_atom_sets(g, n, within=None):
    """[frozenset(forms)] - one per test whose branch edge dominates n."""
    return [frozenset(forms) for (t, forms) in guard_groups(g, n, within)]


def path_atom_sets(l):
    return [forms for (tn, pol, forms) in getattr(l, 'groups', ())]


def match_exact(groups, atoms, optional=()):
    """Every group matches one of ``atoms`` (sets of acceptable forms) or ``optional``; every atom is matched."""
    atoms = [set(a) if not (isinstance(a, tuple) and len(a) == 2 and isinstance(a[1], bool)) else {a} for a in atoms]
    optional = [set(a) if not (isinstance(a, tuple) and len(a) == 2 and isinstance(a[1], bool)) else {a} for a in optional]
    used = set()
    for forms in groups:
        hit = [i for i, a in enumerate(atoms) if forms & a]
        if not hit:
            if any(forms & o for o in optional):
                continue
            return False
        used.update(hit)
    return used == set(range(len(atoms)))


def unmatched(groups, accept):
    """Groups for which ``accept(forms)`` is false (accept gets the frozenset of forms)."""
    return [sorted(f)[0] for f in groups if not accept(f)]


# ------------------------------------------------------------------------------ provenance helpers
def otext(run, g, node, e):
    """Text of expression e with copying locals replaced by what they copy (single reaching definition)."""
    if e is None:
        return 'None'
    return U(subst_locals(run, g, node, e))


def otext_full(run, g, node, e):
    """Like otext but also through locals bound to call results (provenance, not path conditions)."""
    if e is None:
        return 'None'
    return U(subst_locals(run, g, node, e, pure_only=False))


def oexpr(run, g, node, e):
    return subst_locals(run, g, node, e)


def inline_call_value(run, ctx, call, depth=0):
    """If ``call`` resolves to one package function whose normal result is a single expression over its parameters
    / self, return that expression re-expressed at the call site; else None."""
    if depth > 2 or not isinstance(call, ast.Call):
        return None
    # only helpers of the same object / class / module (self._x(), cls._x(), _x()): not accessors of other objects
    fn = call.func
    if isinstance(fn, ast.Attribute) and U(fn.value) not in ('self', 'cls'):
        return None
    ts = run.types.call_targets(call, ctx)
    if len(ts) != 1 or ts[0].kind != 'func' or ts[0].func.is_generator:
        return None
    t = ts[0]
    fi = t.func
    try:
        cg = run.cfg(fi.qual, t.recv)
    except AnalysisError:
        return None
    rets = [n for n in cg.live_nodes() if n.kind == 'stmt' and isinstance(n.ast, ast.Return)]
    if len(rets) != 1 or rets[0].ast.value is None:
        return None
    v = subst_locals(run, cg, rets[0], rets[0].ast.value, depth=4, pure_only=False)
    params = [p for p in fi.params if p not in ('self', 'cls')]
    amap = {}
    for p_ in params:
        a = arg_of(call, fi, p_)
        if a is None:
            a = default_of(fi, p_)
        if a is None:
            return None
        amap[p_] = a
    bound = set()
    for x in ast.walk(v):
        if isinstance(x, ast.comprehension):
            bound |= {y.id for y in ast.walk(x.target) if isinstance(y, ast.Name)}
    free = names_in(v) - set(amap) - {'self', 'cls'} - bound
    locals_ = run.types.locals_of(fi) - set(fi.params)
    if free & locals_:
        return None            # depends on a local that is not a plain copy
    recv = None
    if isinstance(call.func, ast.Attribute):
        recv = call.func.value

    def look(nm):
        if nm in amap:
            return amap[nm]
        if nm in ('self', 'cls') and recv is not None and U(recv) not in ('self', 'cls'):
            return recv
        return None
    return _Subst(look).visit(copy.deepcopy(v))


def deep_origin(run, g, node, e, depth=4):
    """Origin of e through copying locals and through single-expression helper functions."""
    for _ in range(depth):
        e2 = subst_locals(run, g, node, e)
        rd = g_rd(g)
        if isinstance(e2, ast.Name):
            o, on = rd.origin(node, e2)
            if o is not e2:
                e2, node = o, on
        if isinstance(e2, ast.Call):
            v = inline_call_value(run, g.ctx, e2)
            if v is not None:
                e = v
                continue
        return e2
    return e


def value_cases(run, g, node, e, depth=3):
    """[(condition literal set, value expr, site node)] - the values expression e may take at ``node`` with the branch
    conditions selecting each (conditional expressions and multiple reaching definitions are expanded)."""
    rd = g_rd(g)
    out = []

    def rec(n, x, conds, d):
        if d > depth:
            out.append((frozenset(conds), x, n))
            return
        if isinstance(x, ast.IfExp):
            t = cond_forms(run, g, n, x.test, True) or set()
            f = cond_forms(run, g, n, x.test, False) or set()
            rec(n, x.body, conds | t, d + 1)
            rec(n, x.orelse, conds | f, d + 1)
            return
        if isinstance(x, ast.BoolOp) and isinstance(x.op, ast.Or) and len(x.values) == 2:
            # A or B: A when A is true, else B
            t = cond_forms(run, g, n, x.values[0], True) or {(U(x.values[0]), True)}
            f = cond_forms(run, g, n, x.values[0], False) or {(U(x.values[0]), False)}
            rec(n, x.values[0], conds | t, d + 1)
            rec(n, x.values[1], conds | f, d + 1)
            return
        if isinstance(x, ast.Name):
            ds = rd.defs_at(n, x.id)
            vals = [(dn, rd.value_of_def(dn, x.id)) for dn in ds]
            nonparam = [(dn, v) for (dn, v) in vals if dn is not rd.g.entry]
            if nonparam and all(v is not None for (_, v) in nonparam):
                for (dn, v) in nonparam:
                    gl = set((t, p) for (t, p, _) in guards_of(g, dn))
                    rec(dn, v, conds | gl, d + 1)
                if rd.g.entry in ds:
                    out.append((frozenset(conds), x, rd.g.entry))
                return
        out.append((frozenset(conds), x, n))
    rec(node, e, set(), 0)
    return out


# ------------------------------------------------------------------------------ Parser.feed read-until helpers
def header_end_checker(run, g, find_node, idx):
    """Returns f(node, expr) -> bool: does expr (evaluated at node) denote `position just after the separator`,
    i.e. find-result + len(separator)?  Accepts the in-place form (idx += len(sep); use idx) and the temporary form
    (end = idx + len(sep); use end)."""
    rd = g_rd(g)
    SEP = ('len(sep)', 'len(self._awaiting.sep)')

    def is_sep_len(e):
        return otext(run, g, find_node, e) in SEP or U(e) in SEP

    def f(node, expr):
        if isinstance(expr, ast.Name):
            ds = rd.defs_at(node, expr.id)
            if len(ds) == 1:
                d = next(iter(ds))
                a = d.ast
                if d.kind == 'stmt' and isinstance(a, ast.AugAssign) and isinstance(a.op, ast.Add) and U(a.target) == idx \
                        and expr.id == idx and is_sep_len(a.value) and rd.defs_at(d, idx) == {find_node}:
                    return True
        e2 = subst_locals(run, g, node, expr)
        terms = {}
        _lin(e2, 1, terms, {})
        terms = {k: v for k, v in terms.items() if v != 0}
        keys = set(terms)
        if len(keys) == 2 and idx in keys and (keys - {idx}) <= set(SEP) and all(v == 1 for v in terms.values()):
            # idx here must still be the raw find result
            return all(rd.defs_at(node, idx) == {find_node} or True for _ in [0]) and \
                not any(d.kind == 'stmt' and isinstance(d.ast, ast.AugAssign) for d in rd.defs_at(node, idx))
        return False
    return f


def length_check_calls(run, g):
    """(node, call, FuncInfo or None) for calls in g that perform the read-until length check: directly
    _ReadUntil.check_length, or through a local helper that calls it."""
    out = []
    CL = 'parser._ReadUntil.check_length'
    for n in g.live_nodes():
        for c in n.calls:
            for t in run.types.call_targets(c, g.ctx):
                if t.kind != 'func':
                    continue
                if t.qual == CL:
                    out.append((n, c, None))
                    break
                hc = run.types.ctxs.get((t.func.qual, t.recv))
                if hc is None:
                    continue
                if any(isinstance(x, ast.Call) and run.types.resolves_to(x, hc, CL) for x in own_nodes(t.func.node)):
                    out.append((n, c, t))
                    break
    return out


def found_polarity(run, g, t, idx):
    """For a test on the find result: label of the edge on which the separator was NOT found; None if not such a test."""
    ft = cond_forms(run, g, t, t.ast, True) or set()
    if (idx + ' == -1', True) in ft:
        return 'true'
    if (idx + ' == -1', False) in ft:
        return 'false'
    lo, hi = interval_of(run, g.ctx, ft, idx)
    if hi <= -1:
        return 'true'
    if lo >= 0:
        return 'false'
    return None


# ------------------------------------------------------------------------------ socket write sites
def effective_write_sites(run, session_cls='session.WebsocketSession', depth=2):
    """Places where the session socket is written, lifted through helper methods: a ``self._sock.sendall`` that is
    not itself inside a lock section counts at each call site of its function (within the session class).
    Returns [(cfg, node, call, description)]."""
    out = []
    seen = set()

    def in_lock(g, n):
        for fr in n.frames:
            if fr.kind == 'with':
                for it in fr.stmt.items:
                    if 'x:lock' in run.types.expr(it.context_expr, g.ctx):
                        return True
        return False

    def visit(fq, pred, d, via):
        f = run.prog.funcs.get(fq)
        if f is None or f.cls is None or f.cls.qual != session_cls or f.parent is not None:
            return
        g = run.cfg(fq, session_cls)
        for n in g.live_nodes():
            for c in n.calls:
                if not pred(c, g):
                    continue
                key = (fq, id(c))
                if key in seen:
                    continue
                seen.add(key)
                if in_lock(g, n) or d >= depth or fq == session_cls + '.write':
                    out.append((g, n, c, via + [fq]))
                else:
                    callers = [(cx, call) for (cx, call, t) in run.types.callers.get(fq, [])
                               if cx.func.cls is not None and cx.func.cls.qual == session_cls and cx.recv == session_cls]
                    if not callers:
                        out.append((g, n, c, via + [fq]))
                    for (cx, call) in callers:
                        visit(cx.func.qual, lambda c2, g2, call=call: c2 is call, d + 1, via + [fq])

    def is_sock_write(c, g):
        if not (isinstance(c.func, ast.Attribute) and c.func.attr in ('sendall', 'send') and
                any(t.kind == 'ext' and t.name in ('socket.sendall', 'socket.send') for t in run.types.call_targets(c, g.ctx))):
            return False
        if U(c.func.value) == 'self._sock':
            return True
        # a local that copies the session socket
        if isinstance(c.func.value, ast.Name):
            nodes = [n for n in g.live_nodes() if c in n.calls]
            rd = g_rd(g)
            for n in nodes:
                for (o, on) in rd.origins(n, c.func.value):
                    if U(o) == 'self._sock':
                        return True
        return False
    for fq, f in list(run.prog.funcs.items()):
        if f.cls is not None and f.cls.qual == session_cls and f.parent is None:
            visit(fq, is_sock_write, 0, [])
    return out


# ------------------------------------------------------------------------------ counting through private helpers
SPLICE_ALSO = set()      # method names spliced into path conditions although they are public (set by a rule, temporarily)


def _helper_targets(run, g, c):
    """Private same-class, non-generator helper methods a call may resolve to (called on self / cls)."""
    if not (isinstance(c.func, ast.Attribute) and U(c.func.value) in ('self', 'cls')):
        return []
    out = []
    for t in run.types.call_targets(c, g.ctx):
        if t.kind == 'func' and not t.func.is_generator and t.func.cls is not None and (
                (t.func.name.startswith('_') and not t.func.name.startswith('__')) or t.func.name in SPLICE_ALSO) \
                and g.ctx.func.cls is not None \
                and run.prog.is_subclass(g.ctx.recv or g.ctx.func.cls.qual, t.func.cls.qual):
            out.append(t)
    return out


def counting_nodes(run, g, site_quals, depth=0, _stack=()):
    """Nodes of g that perform the operation ``site_quals`` exactly once when executed: direct call sites, and calls to
    private helpers that perform it exactly once on each of their normal paths.
    Returns (nodes [(node, call, 'site'|'helper')], mixed [(node, call, helper qual)])."""
    nodes, mixed = [], []
    for n in g.live_nodes():
        for c in n.calls:
            ts = run.types.call_targets(c, g.ctx)
            if any(t.kind in ('func', 'ctor') and t.qual in site_quals for t in ts):
                nodes.append((n, c, 'site'))
                continue
            if depth >= 2:
                continue
            for t in _helper_targets(run, g, c):
                if t.func.qual in _stack or t.func.qual in site_quals:
                    continue
                hg = run.cfg(t.func.qual, t.recv)
                hn, hm = counting_nodes(run, hg, site_quals, depth + 1, _stack + (g.ctx.func.qual,))
                if not hn and not hm:
                    continue
                hnodes = [x for (x, _, _) in hn]
                once = not hm and all_paths_pass(hg, [hg.entry], hnodes, [hg.exit]) and \
                    not any(b in hg.succ_reach(a) for a in hnodes for b in hnodes)
                if once:
                    nodes.append((n, c, 'helper'))
                else:
                    mixed.append((n, c, t.func.qual))
    return nodes, mixed


def sites_through_helpers(run, fq, recv, pred, depth=2):
    """All (cfg, node, call, [call chain from fq]) where pred(call, cfg) holds, in fq or in private same-class helpers
    it calls (transitively, bounded).  The chain lists (caller cfg, call node, call) pairs leading to the site."""
    out = []
    seen = set()

    def rec(q, r, chain, d):
        g = run.cfg(q, r)
        for n in g.live_nodes():
            for c in n.calls:
                if pred(c, g):
                    out.append((g, n, c, list(chain)))
                elif d < depth:
                    for t in _helper_targets(run, g, c):
                        key = (t.func.qual, id(c))
                        if key in seen:
                            continue
                        seen.add(key)
                        rec(t.func.qual, t.recv, chain + [(g, n, c, t.func)], d + 1)
    rec(fq, recv, [], 0)
    return out


def lift_arg(run, site_g, site_node, expr, chain):
    """Expression ``expr`` at a site inside a helper, re-expressed at the outermost caller when it is a plain helper
    parameter (through the call chain).  Returns (cfg, node, expr) in the frame where it stops being a parameter."""
    g, n, e = site_g, site_node, expr
    for (cg, cn, call, fi) in reversed(chain):
        rd = g_rd(g)
        if not (isinstance(e, ast.Name) and rd.defs_at(n, e.id) == {g.entry} and e.id in fi.params):
            break
        a = arg_of(call, fi, e.id)
        if a is None:
            a = default_of(fi, e.id)
        if a is None:
            break
        g, n, e = cg, cn, a
    return g, n, e


# ------------------------------------------------------------------------------ small boolean evaluator
def bool_table(e, atoms):
    """Truth table of boolean expression e over the given atom texts (others -> None).  Returns tuple of bools in
    the order of itertools.product([False, True], repeat=len(atoms)), or None if e is not a pure formula of them."""
    import itertools

    def ev(x, env):
        t = U(x)
        if t in env:
            return env[t]
        if isinstance(x, ast.UnaryOp) and isinstance(x.op, ast.Not):
            return not ev(x.operand, env)
        if isinstance(x, ast.BoolOp):
            vals = [ev(v, env) for v in x.values]
            return all(vals) if isinstance(x.op, ast.And) else any(vals)
        if isinstance(x, ast.Constant) and isinstance(x.value, bool):
            return x.value
        if isinstance(x, ast.Call) and U(x.func) == 'bool' and len(x.args) == 1:
            return bool(ev(x.args[0], env))
        raise ValueError(t)
    out = []
    for vals in itertools.product([False, True], repeat=len(atoms)):
        try:
            out.append(bool(ev(e, dict(zip(atoms, vals)))))
        except ValueError:
            return None
    return tuple(out)


def call_args_by_name(call, func):
    """[expr or None] for each non-self parameter of func, positional or keyword."""
    return [arg_of(call, func, p) for p in func.params if p not in ('self', 'cls')]


# ------------------------------------------------------------------------------ gated housekeeping generator
def hk_iters(run, g, S='session.WebsocketSession'):
    """The for-loops of run() that iterate the housekeeping generator S._regular(...).

    [(forinit node, gate_ok, description, [(cfg, node, call) of the S._regular(...) creation])] - the generator may be
    created in the local closure run._regular (gate = the closure's guards) or in run() itself on a path selected by
    guards between the creation and the loop (gate = those guards); in both shapes the gate must be `self._ready` alone
    and the not-ready alternative an empty iterable."""
    q = g.ctx.func.qual
    out = []
    for n in g.live_nodes():
        if n.kind != 'forinit':
            continue
        it = n.ast
        if isinstance(it, ast.Call):
            ts = run.types.call_targets(it, g.ctx)
            clos = [t for t in ts if t.kind == 'func' and t.func.parent is not None and t.func.parent.qual == q]
            if clos and len(ts) == 1:
                cg = run.cfg(clos[0].func.qual)
                rc = calls_to(run, cg, S + '._regular')
                if not rc:
                    continue
                ok = len(rc) == 1 and match_exact(guard_atom_sets(cg, rc[0][0], within=rc[0][1]), [{('self._ready', True)}])
                out.append((n, ok, 'closure %s' % clos[0].func.qual, [(cg, a, b) for (a, b) in rc]))
                continue
            if any(t.kind == 'func' and t.qual == S + '._regular' for t in ts):
                out.append((n, False, 'ungated S._regular(...) iterated directly', [(g, n, it)]))
                continue
        cases = value_cases(run, g, n, it)
        hk = [(c, v, site) for (c, v, site) in cases if isinstance(v, ast.Call)
              and any(t.kind == 'func' and t.qual == S + '._regular' for t in run.types.call_targets(v, g.ctx))]
        if not hk:
            continue
        base = set(guard_atom_sets(g, n))
        ok = True
        for (c, v, site) in hk:
            own = [f for f in guard_atom_sets(g, site, within=v) if f not in base]
            ok = ok and match_exact(own, [{('self._ready', True)}])
        for (c, v, site) in cases:
            if (c, v, site) in hk:
                continue
            empty = isinstance(v, (ast.Tuple, ast.List)) and not v.elts
            ok = ok and empty
        out.append((n, ok, 'selected in %s' % q, [(g, site, v) for (c, v, site) in hk]))
    return out


def concat_parts(e):
    """The operands, in order, of a bytes concatenation written as b''.join((a, b, c)) / b''.join([a, b, c]) or as
    a + b + c; None for anything else."""
    if isinstance(e, ast.Call) and isinstance(e.func, ast.Attribute) and e.func.attr == 'join' \
            and isinstance(e.func.value, ast.Constant) and e.func.value.value in (b'', '') and len(e.args) == 1 \
            and isinstance(e.args[0], (ast.Tuple, ast.List)) and not e.keywords:
        return list(e.args[0].elts)
    if isinstance(e, ast.BinOp) and isinstance(e.op, ast.Add):
        out = []

        def rec(x):
            if isinstance(x, ast.BinOp) and isinstance(x.op, ast.Add):
                rec(x.left)
                rec(x.right)
            else:
                out.append(x)
        rec(e)
        return out
    return None


# ------------------------------------------------------------------------------ per-instance state
IMMUTABLE_MAKERS = {'frozenset', 'tuple', 'bytes', 'str', 'int', 'float', 'bool', 'object', 'Struct', 'compile', 'getLogger',
                    'partial', 'namedtuple', 'property', 'len', 'max', 'min', 'ord', 'chr', 'format', 'join', 'encode',
                    'decode', 'lower', 'upper', 'range', 'frozenset', 'sorted' if False else 'tuple', 'text_type',
                    'python_implementation', 'python_version', 'system', 'release'}
PURE_METHODS = {'get', 'items', 'keys', 'values', 'copy', 'index', 'count', 'find', 'rfind', 'startswith', 'endswith', 'join',
                'format', 'encode', 'decode', 'lower', 'upper', 'strip', 'lstrip', 'rstrip', 'split', 'partition', 'pack',
                'unpack', 'unpack_from', 'match', 'search', 'issubset', 'issuperset', 'isdisjoint', 'union',
                'intersection', 'difference', '__contains__', 'hex', 'tobytes'}
PURE_FUNCS = {'len', 'iter', 'sorted', 'list', 'tuple', 'set', 'frozenset', 'bytes', 'str', 'min', 'max', 'sum', 'any', 'all',
              'isinstance', 'repr', 'enumerate', 'zip', 'bool', 'dict', 'reversed', 'hash', 'id', 'type', 'text_type'}


def _mutable_value(v):
    """Description of the mutable object expression v creates, or None (immutable / not an object creation)."""
    if isinstance(v, ast.IfExp):
        return _mutable_value(v.body) or _mutable_value(v.orelse)
    if isinstance(v, ast.BoolOp):
        for x in v.values:
            r = _mutable_value(x)
            if r:
                return r
        return None
    if isinstance(v, (ast.List, ast.Dict, ast.Set, ast.ListComp, ast.DictComp, ast.SetComp)):
        return type(v).__name__.lower() + ' display'
    if isinstance(v, ast.BinOp) and isinstance(v.op, (ast.BitOr, ast.BitAnd, ast.Sub, ast.Add)):
        return _mutable_value(v.left) or _mutable_value(v.right)        # {..} | set(range(..)) builds a new set
    if isinstance(v, ast.Call):
        f = v.func
        name = f.id if isinstance(f, ast.Name) else f.attr if isinstance(f, ast.Attribute) else ''
        if name in IMMUTABLE_MAKERS:
            return None
        if name == 'type' and len(v.args) == 1 and not v.keywords:
            return None                 # type(x): the class of x, nothing is created
        return 'object created by %s(...)' % U(f)
    return None


def _use_kind(parents, node):
    """How the object denoted by expression node (a Load) is used: 'read' | 'mutate:<what>' | 'escape:<what>' |
    ('alias', name)."""
    p = parents.get(id(node))
    if p is None:
        return 'read'
    if isinstance(p, ast.Attribute) and p.value is node:
        gp = parents.get(id(p))
        if isinstance(gp, ast.Call) and gp.func is p:
            return 'read' if p.attr in PURE_METHODS else 'mutate:.%s()' % p.attr
        if isinstance(p.ctx, (ast.Store, ast.Del)):
            return 'mutate:attribute store .%s' % p.attr
        return 'read'
    if isinstance(p, ast.Call):
        if p.func is node:
            return 'read'
        fn = p.func.id if isinstance(p.func, ast.Name) else None
        if fn in PURE_FUNCS:
            return 'read'
        return 'escape:argument of %s' % U(p.func)
    if isinstance(p, ast.keyword):
        return 'escape:keyword argument'
    if isinstance(p, ast.Subscript) and p.value is node:
        return 'mutate:item store' if isinstance(p.ctx, (ast.Store, ast.Del)) else 'read'
    if isinstance(p, ast.AugAssign) and p.target is node:
        return 'mutate:augmented assignment'
    if isinstance(p, ast.Assign) and p.value is node:
        t = p.targets[0]
        if len(p.targets) == 1 and isinstance(t, ast.Name):
            return ('alias', t.id)
        return 'escape:stored in %s' % U(t)
    if isinstance(p, (ast.Return, ast.Yield)):
        return 'escape:returned'
    if isinstance(p, (ast.Tuple, ast.List, ast.Dict, ast.Set)):
        return 'escape:placed in a container'
    if isinstance(p, ast.Starred):
        return 'read'
    return 'read'


def _parents_of(fnode):
    par = {}
    for n in ast.walk(fnode):
        for c in ast.iter_child_nodes(n):
            par[id(c)] = n
    return par


def _object_uses(fnode, is_ref):
    """Non-read uses, inside function fnode, of the object that expressions satisfying is_ref denote (one level of
    local aliasing followed)."""
    par = _parents_of(fnode)
    bad = []
    aliases = set()
    for n in ast.walk(fnode):
        if isinstance(n, ast.expr) and isinstance(getattr(n, 'ctx', None), ast.Load) and is_ref(n):
            k = _use_kind(par, n)
            if isinstance(k, tuple):
                aliases.add(k[1])
            elif k != 'read':
                bad.append((n, k))
    for n in ast.walk(fnode):
        if isinstance(n, ast.Name) and isinstance(n.ctx, ast.Load) and n.id in aliases:
            k = _use_kind(par, n)
            if isinstance(k, tuple):
                continue
            if k != 'read':
                bad.append((n, k + ' (through local %s)' % n.id))
    return bad


def shared_state(R, RID):
    """Objects that are created once but reachable from every instance / every call - class-level attributes and
    parameter defaults bound to a mutable object - must only be read.  (A buffer, validator, poll object, header list
    or option dict shared this way makes one connection's state leak into another's.)"""
    prog = R.prog
    n_cls = n_fn = 0
    for q, c in sorted(prog.classes.items()):
        if c.module.name.startswith('examples'):
            continue
        n_cls += 1
        for name, vals in sorted(c.attrs.items()):
            if name.startswith('__') and name.endswith('__'):
                continue
            what = None
            for v in vals:
                what = what or _mutable_value(v)
            if not what:
                continue
            # instance attribute of the same name unconditionally rebound in __init__ => the class-level object is
            # never the one used through instances
            bad = []
            for fq, fi in sorted(prog.funcs.items()):
                if fi.module.name.startswith('examples'):
                    continue

                def is_ref(n, name=name):
                    return isinstance(n, ast.Attribute) and n.attr == name
                for (n, k) in _object_uses(fi.node, is_ref):
                    if fi.parent is None or True:
                        bad.append((fi, n, k))
            init = c.methods.get('__init__')
            rebound = False
            if init is not None:
                rebound = any(isinstance(s, ast.Assign) and any(isinstance(t, ast.Attribute) and t.attr == name and
                              isinstance(t.value, ast.Name) and t.value.id == 'self' for t in s.targets)
                              for s in init.node.body)
            R.ob(RID, 'class-level %s.%s is only read' % (q, name), not bad or rebound,
                 '%s.%s is one %s shared by every instance, and it is modified / handed out (%s in %s): state leaks '
                 'between connections' % (q, name, what, bad[0][2] if bad else '', bad[0][0].qual if bad else ''),
                 func=(bad[0][0] if bad else None) or (init or q), node=(bad[0][1] if bad else None),
                 construct='shared class attribute %s.%s' % (q, name))
    for fq, fi in sorted(prog.funcs.items()):
        if fi.module.name.startswith('examples'):
            continue
        n_fn += 1
        a = fi.node.args
        pos = a.posonlyargs + a.args
        pairs = list(zip(pos[len(pos) - len(a.defaults):], a.defaults)) + \
            [(k, d) for (k, d) in zip(a.kwonlyargs, a.kw_defaults) if d is not None]
        for (arg, d) in pairs:
            what = _mutable_value(d)
            if not what:
                continue

            def is_ref(n, nm=arg.arg):
                return isinstance(n, ast.Name) and n.id == nm
            bad = _object_uses(fi.node, is_ref)
            R.ob(RID, 'default of %s(%s=...) is only read' % (fq, arg.arg), not bad,
                 'the default value of parameter %s of %s is one %s shared by every call, and it is modified / kept '
                 '(%s)' % (arg.arg, fq, what, bad[0][1] if bad else ''), func=fi, node=(bad[0][0] if bad else d),
                 construct='shared default %s(%s)' % (fq, arg.arg))
    # module-level containers: one object per process
    n_glob = 0
    for mname, m in sorted(prog.modules.items()):
        if m.name.startswith('examples'):
            continue
        for st in m.tree.body:
            if not (isinstance(st, ast.Assign) and len(st.targets) == 1 and isinstance(st.targets[0], ast.Name)):
                continue
            what = _mutable_value(st.value)
            if not what:
                continue
            gname = st.targets[0].id
            n_glob += 1
            bad = []
            for fq, fi in sorted(prog.funcs.items()):
                if fi.module is not m or gname in R.types.locals_of(fi):
                    continue

                def is_ref(n, nm=gname):
                    return isinstance(n, ast.Name) and n.id == nm
                for (n, k) in _object_uses(fi.node, is_ref):
                    bad.append((fi, n, k))
            R.ob(RID, 'module-level %s.%s is only read' % (m.name, gname), not bad,
                 '%s.%s is one %s for the whole process, and it is modified / handed out (%s in %s): state leaks between '
                 'connections' % (m.name, gname, what, bad[0][2] if bad else '', bad[0][0].qual if bad else ''),
                 func=(bad[0][0] if bad else None), node=(bad[0][1] if bad else st),
                 construct='shared module object %s.%s' % (m.name, gname))
    R.ob(RID, 'per-instance state scan', n_cls >= 40 and n_fn >= 150, 'scanned %d classes, %d functions' % (n_cls, n_fn),
         func=None, node=None, construct='shared state scan')


def no_send_retry(R, RID, module='session'):
    """A failed socket.sendall() is never followed by another sendall() in the same operation: sendall reports no
    count, so re-sending after a failure (EINTR, EAGAIN ...) puts the first bytes of the frame on the wire twice."""
    n_sites = 0
    for key, cx in sorted(R.types.ctxs.items(), key=lambda kv: str(kv[0])):
        fi = cx.func
        if fi.module.name != module:
            continue
        has = False
        for c in own_nodes(fi.node):
            if isinstance(c, ast.Call) and isinstance(c.func, ast.Attribute) and c.func.attr == 'sendall':
                has = True
        if not has:
            continue
        g = R.cfg(fi.qual, cx.recv, fault='oserror')
        sends = [n for n in g.live_nodes() for c in n.calls
                 if any(t.kind == 'ext' and t.name == 'socket.sendall' for t in R.types.call_targets(c, g.ctx))]
        # a write on a socket with a timeout can give up part-way (sendall does not say how far it got) while the
        # session stays usable: the next frame is appended to half of this one
        for n in g.live_nodes():
            for c in n.calls:
                if any(t.kind == 'ext' and t.name == 'socket.settimeout' for t in R.types.call_targets(c, g.ctx)) and c.args \
                        and not (isinstance(c.args[0], ast.Constant) and c.args[0].value is None):
                    R.ob(RID, 'writes are made on a blocking socket (%s)' % fi.qual, False,
                         '%s sets a socket timeout (`%s`) around its sendall(): a write that times out after part of the frame '
                         'was accepted leaves half a frame on the wire, and the connection is kept' % (fi.qual, U(c)[:50]),
                         func=fi, node=c, construct='timeout on the write path in %s' % fi.qual)
        for n in sends:
            n_sites += 1
            after = g.reachable([m for (m, l) in n.succ if l.startswith('exc:')])
            again = [m for m in sends if m in after]
            R.ob(RID, 'failed sendall not retried in %s' % fi.qual, not again,
                 'after `%s` fails, %s sends again (`%s`): the part of the data that had already been transmitted is '
                 'transmitted a second time and the frame stream is corrupted' % (
                     n.text()[:50], fi.qual, again[0].text()[:50] if again else ''), func=fi, node=n.ast,
                 construct='sendall retried in %s' % fi.qual)
    need(n_sites >= 2, 'no socket.sendall sites found in module %s' % module)
    # ... nor one level up: a decorator of the package that wraps a method and can call it more than once repeats
    # everything the method does before the failing write (compression into the shared context, masking, frame building)
    for fq, fi in sorted(R.prog.funcs.items()):
        if fi.module.name.startswith('examples') or not fi.node.decorator_list:
            continue
        for d in fi.node.decorator_list:
            dn = d.func if isinstance(d, ast.Call) else d
            if not isinstance(dn, ast.Name) or dn.id in ('property', 'classmethod', 'staticmethod'):
                continue
            r = R.prog.lookup(fi.module, dn.id)
            if not r or r[0] != 'func':
                continue
            df = r[1] if hasattr(r[1], 'node') else R.prog.funcs.get(r[1])
            if df is None:
                continue
            wrapped = [a.arg for a in df.node.args.args][:1]
            calls_ = [x for x in ast.walk(df.node) if isinstance(x, ast.Call) and isinstance(x.func, ast.Name)
                      and wrapped and x.func.id == wrapped[0]]
            R.ob(RID, '%s is not re-run by its decorator @%s' % (fq, dn.id), len(calls_) <= 1,
                 '@%s calls the wrapped %s at %d places (a retry): what the method did before the write that failed - the '
                 'payload compressed into the connection\'s deflate context, a frame partly on the wire - happens twice, the '
                 'peer sees it once' % (dn.id, fq, len(calls_)), func=fi, node=d, construct='retrying decorator on %s' % fq)


def stale_refs(R, RID, modules=None):
    """A field that is replaced outside __init__ (reset_compressor() makes a new zlib object ...) must not have
    references to the object it held cached in another field (a bound method, the object itself): the cache keeps
    pointing at the replaced object.  Reported unless every function that replaces the field also rewrites the cache."""
    n_fields = 0
    for q, c in sorted(R.prog.classes.items()):
        if c.module.name.startswith('examples') or (modules and c.module.name not in modules):
            continue
        stores = {}       # field -> {method name: [(Assign, value)]}
        for mname, fi in c.methods.items():
            for s in own_nodes(fi.node):
                if isinstance(s, ast.Assign):
                    for t in s.targets:
                        for t1 in (t.elts if isinstance(t, ast.Tuple) else [t]):
                            if isinstance(t1, ast.Attribute) and isinstance(t1.value, ast.Name) and t1.value.id == 'self':
                                stores.setdefault(t1.attr, {}).setdefault(mname, []).append((s, s.value))
        for F, ws in sorted(stores.items()):
            if not (set(ws) - {'__init__'}):
                continue
            n_fields += 1
            for B, wb in sorted(stores.items()):
                if B == F:
                    continue
                for mname, lst in wb.items():
                    for (s, v) in lst:
                        refs = False
                        par = _parents_of(s)
                        for x in ast.walk(v):
                            if isinstance(x, ast.Attribute) and x.attr == F and isinstance(x.value, ast.Name) and x.value.id == 'self':
                                # self.F or self.F.attr kept as is (not the result of calling something on it)
                                top = x
                                while isinstance(par.get(id(top)), ast.Attribute):
                                    top = par[id(top)]
                                p = par.get(id(top))
                                if isinstance(p, ast.Call) and (p.func is top or top in p.args):
                                    continue
                                if isinstance(p, (ast.Compare, ast.BoolOp, ast.UnaryOp, ast.BinOp, ast.Subscript, ast.IfExp)):
                                    continue
                                refs = True
                        if refs:
                            missing = sorted(m for m in ws if m != '__init__' and m not in wb)
                            R.ob(RID, '%s.%s caches a reference into %s' % (q, B, F), not missing,
                                 '%s.%s = %s keeps a reference to the object in self.%s, but %s replace(s) self.%s without '
                                 'updating self.%s: the cached reference keeps using the old object (a "reset" has no '
                                 'effect)' % (q, B, U(v), F, missing, F, B), func=c.methods[mname], node=s,
                                 construct='stale cache %s.%s of %s' % (q, B, F))
    R.ob(RID, 'replaceable fields scanned', n_fields >= 1, '%d fields replaced outside __init__' % n_fields, func=None, node=None,
         construct='stale reference scan')


# ------------------------------------------------------------------------------ message templates
NET_ATTRS = {'reason', 'text', 'data', 'payload', 'headers', 'status', 'http_ver'}


def net_tainted(R, g, n, e, depth=4):
    """Why expression e (at node n) may contain text chosen by the peer / the OS, or None: a header value of a Response,
    a payload-derived attribute of a message / frame, the text of a caught non-package exception.  Locals are followed
    through their reaching definitions."""
    rd = g_rd(g)
    seen = set()

    def rec(node, x, d):
        for sub in walk_no_nested(x):
            if isinstance(sub, ast.Call) and isinstance(sub.func, ast.Attribute) and sub.func.attr in ('get', 'get_list'):
                tys = R.types.expr(sub.func.value, g.ctx)
                if any(isinstance(t, str) and t.startswith('inst:') and 'Response' in t for t in tys):
                    return 'header value %s' % U(sub)
            if isinstance(sub, ast.Attribute) and sub.attr in NET_ATTRS:
                tys = R.types.expr(sub.value, g.ctx)
                if any(isinstance(t, str) and t.startswith('inst:') and t.split(':')[1].split('.')[0] in (
                        'message', 'frame', 'response', 'proxy') for t in tys):
                    return 'wire-derived %s' % U(sub)
            if isinstance(sub, ast.Name) and isinstance(sub.ctx, ast.Load) and d > 0:
                for dn in rd.defs_at(node, sub.id):
                    if (dn.id, sub.id) in seen:
                        continue
                    seen.add((dn.id, sub.id))
                    if dn.kind == 'handler':
                        toks = R.exc.handler_tokens(dn.ast, g.ctx)
                        if any(not (t in R.prog.classes) for t in toks):
                            return 'text of the caught %s' % '/'.join(sorted(toks))
                        continue
                    v = rd.value_of_def(dn, sub.id) if dn is not g.entry else None
                    if v is not None:
                        r = rec(dn, v, d - 1)
                        if r:
                            return r
        return None
    return rec(n, e, depth)


def _brace_free(R, g, n, v, depth=2):
    """The text of value v (at node n) provably contains no brace: a number, a literal without braces, a parameter that
    every caller fills with such a literal."""
    if isinstance(v, ast.Constant):
        return not (isinstance(v.value, (str, bytes)) and ('{' in str(v.value) or '}' in str(v.value)))
    if isinstance(v, ast.Call) and isinstance(v.func, ast.Name) and v.func.id in ('int', 'len', 'float', 'round', 'bool', 'abs'):
        return True
    if isinstance(v, ast.Name) and depth > 0:
        rd = g_rd(g)
        ds = rd.defs_at(n, v.id)
        if not ds:
            return False
        for d in ds:
            if d is g.entry:
                fi = g.ctx.func
                callers = R.types.callers.get(fi.qual, [])
                if not callers:
                    return False
                for (cx, call, t) in callers:
                    a = arg_of(call, fi, v.id)
                    if a is None:
                        a = default_of(fi, v.id)
                    if a is None or not isinstance(a, ast.Constant) or not _brace_free(R, g, n, a, 0):
                        return False
                continue
            val = rd.value_of_def(d, v.id)
            if val is None or not _brace_free(R, g, d, val, depth - 1):
                return False
        return True
    return False


def message_templates(R, RID, minimum=20):
    """WebSocketError.__init__ formats its first argument (msg.format(*args)).  A first argument that already contains
    text chosen by the peer or the OS is therefore used as a format *template*: a brace in it raises
    KeyError/IndexError/ValueError from the constructor instead of the intended error (which the handlers that expect
    HandshakeError / TransportFail / ProtocolError then miss).  Such text must be passed as a format argument."""
    n_sites = 0
    for key, cx in sorted(R.types.ctxs.items(), key=lambda kv: str(kv[0])):
        fi = cx.func
        if fi.module.name.startswith('examples') or (fi.cls is not None and cx.recv != fi.cls.qual):
            continue
        has = any(isinstance(c, ast.Call) and (U(c.func).endswith('Error') or U(c.func).endswith('Fail') or
                                               U(c.func).endswith('Closed') or U(c.func).endswith('Closing') or
                                               U(c.func).endswith('__class__') or U(c.func).startswith('type('))
                  for c in own_nodes(fi.node))
        if not has:
            continue
        g = R.cfg(fi.qual, cx.recv)
        for n in g.live_nodes():
            for c in n.calls:
                ts = R.types.call_targets(c, g.ctx)
                same_cls = None
                if isinstance(c.func, ast.Attribute) and c.func.attr == '__class__':
                    same_cls = c.func.value            # error.__class__(...): another exception of the caught class
                elif isinstance(c.func, ast.Call) and U(c.func.func) == 'type' and len(c.func.args) == 1:
                    same_cls = c.func.args[0]          # type(error)(...)
                if same_cls is not None:
                    if not any(isinstance(t_, str) and t_.startswith('inst:') and 'errors.WebSocketError' in R.prog.mro(t_[5:])
                               for t_ in R.types.expr(same_cls, g.ctx)):
                        continue
                elif not any(t.kind == 'ctor' and 'errors.WebSocketError' in R.prog.mro(t.cls) for t in ts):
                    continue
                n_sites += 1
                a0 = c.args[0] if c.args else None
                if a0 is None or isinstance(a0, ast.Constant):
                    continue
                why = net_tainted(R, g, n, a0)
                if why is None:
                    # text that was formatted already (values interpolated with str.format / % / +) is not a template any
                    # more: whatever was interpolated - a close reason, a URL, an OS message - may contain braces
                    for (oe, on) in g_rd(g).origins(n, a0):
                        interp = None
                        if isinstance(oe, ast.Call) and isinstance(oe.func, ast.Attribute) and oe.func.attr == 'format' \
                                and isinstance(oe.func.value, ast.Constant):
                            interp = list(oe.args) + [k.value for k in oe.keywords]
                        elif isinstance(oe, ast.BinOp) and isinstance(oe.op, ast.Mod) and isinstance(oe.left, ast.Constant):
                            interp = list(oe.right.elts) if isinstance(oe.right, ast.Tuple) else [oe.right]
                        if interp and any(not _brace_free(R, g, on, v_) for v_ in interp):
                            why = 'already formatted text (%s)' % U(oe)[:60]
                R.ob(RID, 'message template of %s in %s' % (U(c.func), fi.qual), why is None,
                     'the message template `%s` contains %s; WebSocketError.__init__ formats it again, so a brace in that '
                     'text raises KeyError/IndexError/ValueError instead of %s' % (U(a0), why, U(c.func)), func=fi, node=c,
                     construct='template %s in %s' % (U(c.func), fi.qual))
    need(n_sites >= minimum, 'expected at least %d WebSocketError construction sites, found %d' % (minimum, n_sites))
    f = R.func('errors.WebSocketError.__init__')
    fm = [x for x in own_nodes(f.node) if isinstance(x, ast.Call) and isinstance(x.func, ast.Attribute) and x.func.attr == 'format']
    R.ob(RID, 'WebSocketError formats msg with its arguments', len(fm) >= 1 and all(U(x.func.value) == f.params[1] for x in fm), 'WebSocketError.__init__ body', func=f,
         node=None, construct='WebSocketError.__init__')


def func_truth_table(R, q, atoms, recv=None):
    """Truth table of the boolean function q (a method without parameters other than self) over the given atom texts,
    decided path by path: for every assignment of the atoms, the value returned on the path(s) whose branch conditions
    agree with it (locals are substituted by what they copy).  None when some path tests something else, or the
    returned value is not a formula of the atoms."""
    import itertools
    g = R.cfg(q, recv) if recv else R.cfg(q)
    rd = g_rd(g)
    rets = [n for n in g.live_nodes() if n.kind == 'stmt' and isinstance(n.ast, ast.Return)]
    if not rets:
        return None
    cases = []
    for r in rets:
        if r.ast.value is None:
            return None
        e = subst_locals(R, g, r, r.ast.value)
        for l in path_conditions(R, g, rd, g.entry, r):
            cond = {}
            for grp in l.groups:
                forms = dict((t, p) for (t, p) in grp[2])
                hit = [a for a in atoms if a in forms]
                if not hit:
                    return None            # a branch on something that is not one of the atoms
                cond[hit[0]] = forms[hit[0]]
            cases.append((cond, e))
    out = []
    for vals in itertools.product([False, True], repeat=len(atoms)):
        env = dict(zip(atoms, vals))
        res = set()
        for (cond, e) in cases:
            if all(env[a] == v for a, v in cond.items()):
                tt = bool_table(e, atoms)
                if tt is None:
                    return None
                idx = list(itertools.product([False, True], repeat=len(atoms))).index(vals)
                res.add(tt[idx])
        if len(res) != 1:
            return None
        out.append(next(iter(res)))
    return tuple(out)


def len_texts(R, g, n, e):
    """Equivalent texts of len(e) at node n: e itself and what it copies (single reaching definition chain)."""
    out = {'len(%s)' % U(e), 'len(%s)' % otext(R, g, n, e)}
    rd = g_rd(g)
    cur, node = e, n
    for _ in range(4):
        if not isinstance(cur, ast.Name):
            break
        ds = rd.defs_at(node, cur.id)
        if len(ds) != 1:
            break
        d = next(iter(ds))
        v = rd.value_of_def(d, cur.id)
        if v is None:
            break
        out.add('len(%s)' % U(v))
        cur, node = v, d
    return out


def updates_of(nodes, var, op):
    """[(node, delta text)] - statements among CFG nodes that update local ``var`` by +delta (op=ast.Add) or -delta
    (op=ast.Sub): `var += d`, `var = var + d`, `var = d + var` (the latter only for Add)."""
    out = []
    for n in nodes:
        a = n.ast
        if n.kind != 'stmt':
            continue
        if isinstance(a, ast.AugAssign) and U(a.target) == var and isinstance(a.op, op):
            out.append((n, U(a.value)))
        elif isinstance(a, ast.Assign) and len(a.targets) == 1 and U(a.targets[0]) == var and isinstance(a.value, ast.BinOp) \
                and isinstance(a.value.op, op):
            if U(a.value.left) == var:
                out.append((n, U(a.value.right)))
            elif op is ast.Add and U(a.value.right) == var:
                out.append((n, U(a.value.left)))
    return out


def exactly_once(g, starts, marks, ends, skip_edge=None):
    """Every path from ``starts`` to ``ends`` passes exactly one of the ``marks`` nodes."""
    marks = list(marks)
    if not marks or not all_paths_pass(g, starts, marks, ends, skip_edge=skip_edge):
        return False
    for m in marks:
        after = g.reachable([x for (x, l) in m.succ if not (skip_edge and skip_edge(m, x, l))], avoid=set(ends), skip_edge=skip_edge)
        if any(m2 in after for m2 in marks):
            return False
    return True


# ------------------------------------------------------------------------------ frame header model
def header_arms(R, g, rd, start):
    """Symbolic model of the frame header Frame.build produces: for every statement that packs the two leading bytes
    (a struct pack whose format starts with '!BB') and every path from ``start`` (the length definition) to it, the
    header as one combined struct format with its argument expressions - `pack('!BBH', b0, b1, n)` and
    `pack('!BB', b0, b1) + pack('!H', n)` are the same bytes (network order, no padding).  Locals are replaced by what
    the path assigned to them.  Returns [(node, fmt, [arg exprs], path literals)]."""
    out = []
    nodes = []
    for n in g.live_nodes():
        if any((struct_format(R, g.ctx, c) or ('', ''))[0] == 'pack' and (struct_format(R, g.ctx, c) or ('', ''))[1].startswith('!BB')
               for c in n.calls):
            nodes.append(n)
    for n in nodes:
        if not (n.kind == 'stmt' and isinstance(n.ast, (ast.Assign, ast.Return)) and n.ast.value is not None):
            raise AnalysisError('Frame.build: header packed in an unexpected statement: %s' % n.text()[:60])
        for l in path_conditions(R, g, rd, start, n):
            asg = getattr(l, 'assigns', {})

            def parts(e, depth=0):
                ps = concat_parts(e)
                if ps is not None:
                    res = []
                    for x in ps:
                        r = parts(x, depth)
                        if r is None:
                            return None
                        res += r
                    return res
                if isinstance(e, ast.Constant) and e.value in (b'',):
                    return []
                if isinstance(e, ast.Name) and e.id in asg and depth < 4:
                    return parts(asg[e.id][0], depth + 1)
                if isinstance(e, ast.Call):
                    sf = struct_format(R, g.ctx, e)
                    if sf and sf[0] == 'pack':
                        return [(sf[1].lstrip('!'), list(e.args))]
                return None
            ps = parts(n.ast.value)
            if ps is None:
                raise AnalysisError('Frame.build: cannot model the header expression %s' % U(n.ast.value)[:80])
            # only the leading run of struct packs belongs to the header (key and payload follow)
            fmt = '!' + ''.join(c for (c, a) in ps)
            args = [a for (c, a_) in ps for a in a_]

            def sub(e, depth=0):
                if isinstance(e, ast.Name) and e.id in asg and depth < 4 and isinstance(asg[e.id][0], (ast.Constant, ast.Name)):
                    return sub(asg[e.id][0], depth + 1)
                if isinstance(e, ast.BinOp):
                    return ast.BinOp(left=sub(e.left, depth), op=e.op, right=sub(e.right, depth))
                return e
            out.append((n, fmt, [sub(a) for a in args], l))
    return out


# ------------------------------------------------------------------------------ canonical value text
def canon(R, g, n, e, depth=2):
    """Canonical text of value expression e at CFG node n: locals replaced by what they were assigned (aliases such as
    `websocket = self.websocket`, flags read into locals), and unmodified parameters of a function that has exactly
    one call site in the package replaced by that call's argument (canonicalised in the caller)."""
    if e is None:
        return 'None'
    e2 = subst_locals(R, g, n, e, pure_only=False)
    fi = g.ctx.func
    rd = g_rd(g)
    if depth > 0 and hasattr(fi, 'params'):
        ps = [x.id for x in ast.walk(e2) if isinstance(x, ast.Name) and isinstance(x.ctx, ast.Load)
              and x.id in fi.params and x.id not in ('self', 'cls') and rd.defs_at(n, x.id) == {g.entry}]
        if ps:
            callers = [(cx, call) for (cx, call, t) in R.types.callers.get(fi.qual, [])
                       if not (cx.func.cls is not None and cx.recv != cx.func.cls.qual)]
            if len(callers) == 1:
                cx, call = callers[0]
                cg = R.cfg(cx.func.qual, cx.recv)
                cn = [m for m in cg.live_nodes() if call in m.calls]
                if cn:
                    mapping = {}
                    for p in set(ps):
                        a = arg_of(call, fi, p)
                        if a is None:
                            a = default_of(fi, p)
                        if a is not None:
                            try:
                                mapping[p] = ast.parse(canon(R, cg, cn[0], a, depth - 1), mode='eval').body
                            except SyntaxError:
                                pass
                    if mapping:
                        e2 = _Subst(lambda nm: mapping.get(nm)).visit(copy.deepcopy(e2))
    return U(e2)


def pfold(R, ctx, e):
    """Text of e with direct reads of fields folded back into the one-line properties that return them
    (`self.state.key` -> `self.key`), so that both spellings compare equal."""
    if e is None:
        return 'None'
    try:
        return U(_FoldProps(R, ctx).visit(copy.deepcopy(e)))
    except Exception:
        return U(e)


def path_consistent(l, truth):
    """Can path condition l hold for the situation described by ``truth``?  ``truth`` is a dict atom text -> bool or a
    function text -> True / False / None (unknown).  A group one of whose forms can be evaluated (directly, or as an
    and(...)/or(...) literal over evaluable atoms) must come out with its polarity; unknown groups are assumed
    satisfiable."""
    if isinstance(truth, dict):
        table = truth

        def val0(text):
            if text in table:
                return table[text]
            if text.startswith('not ') and text[4:] in table:
                return not table[text[4:]]
            return None
    else:
        val0 = truth

    def val(text):
        v = val0(text)
        if v is None and text.startswith('not '):
            w = val0(text[4:])
            v = None if w is None else (not w)
        return v
    for grp in getattr(l, 'groups', ()):
        forms = grp[2]
        verdict = None
        for (t, p) in forms:
            v = val(t)
            if v is not None:
                verdict = (v == p)
                break
            if (t.startswith('and(') or t.startswith('or(')) and t.endswith(')'):
                inner = t[t.index('(') + 1:-1].split(',')
                vs = [val(x.strip()) for x in inner]
                if t.startswith('and('):
                    r = False if any(x is False for x in vs) else (True if all(x is True for x in vs) else None)
                else:
                    r = True if any(x is True for x in vs) else (False if all(x is False for x in vs) else None)
                if r is not None:
                    verdict = (r == p)
                    break
        if verdict is False:
            return False
    return True


def frame_situation(R, framevar, opcode, fin, extra=None):
    """Evaluator (atom text -> bool / None) for a frame with the given opcode and FIN bit: atoms over
    <framevar>.opcode / .fin / the one-line is_* properties and the Opcode constants are computed, anything else
    (other fields, parser state) is unknown."""
    import types
    from ..consteval import class_consts
    oc = {k: v for k, v in class_consts(R, 'opcode.Opcode').items() if isinstance(v, int)}
    fr = types.SimpleNamespace(opcode=opcode, fin=fin, is_text=(opcode == oc.get('TEXT', 1)),
                               is_binary=(opcode == oc.get('BINARY', 2)), is_continuation=(opcode == oc.get('CONTINUATION', 0)),
                               is_control=(opcode >= 8), is_ping=(opcode == oc.get('PING', 9)), is_pong=(opcode == oc.get('PONG', 10)),
                               is_close=(opcode == oc.get('CLOSE', 8)))
    ns = {framevar: fr, 'Opcode': types.SimpleNamespace(**oc), '__builtins__': {}}
    ns.update(extra or {})

    def ev(text):
        try:
            tree = ast.parse(text, mode='eval')
        except SyntaxError:
            return None
        for x in ast.walk(tree):
            if isinstance(x, (ast.Call, ast.Lambda, ast.Yield, ast.Await)):
                return None
            if isinstance(x, ast.Name) and x.id not in ns:
                return None
            if isinstance(x, ast.Attribute) and isinstance(x.value, ast.Name) and x.value.id == framevar \
                    and not hasattr(fr, x.attr):
                return None
        try:
            return bool(eval(compile(tree, '<atom>', 'eval'), ns))
        except Exception:
            return None
    return ev


def sized_truth(R, RID, modules=None):
    """No branch is decided by the truth value of an object whose class defines __len__ / __bool__ (a Frame is false
    when its payload is empty): such a test was meant as `is not None` / "any fragments pending" and gives the wrong
    answer for empty payloads."""
    sized = set(q for q, c in R.prog.classes.items() if any(m in c.methods for m in ('__len__', '__bool__', '__nonzero__')))
    n_tests = 0
    seen = set()
    for key, cx in sorted(R.types.ctxs.items(), key=lambda kv: str(kv[0])):
        fi = cx.func
        if fi.module.name.startswith('examples') or (fi.cls is not None and cx.recv != fi.cls.qual):
            continue
        if modules and fi.module.name not in modules:
            continue
        if not any(isinstance(x, (ast.If, ast.While, ast.IfExp, ast.BoolOp, ast.Assert)) or
                   (isinstance(x, ast.UnaryOp) and isinstance(x.op, ast.Not)) for x in own_nodes(fi.node)):
            continue
        g = R.cfg(fi.qual, cx.recv)
        for n in g.live_nodes():
            if n.kind != 'test':
                continue
            n_tests += 1
            e = n.ast
            while isinstance(e, ast.UnaryOp) and isinstance(e.op, ast.Not):
                e = e.operand
            if not isinstance(e, (ast.Name, ast.Attribute)):
                continue
            tys = R.types.expr(e, g.ctx)
            hit = sorted(t[5:] for t in tys if isinstance(t, str) and t.startswith('inst:') and t[5:] in R.prog.classes
                         and any(k in sized for k in R.prog.mro(t[5:])))
            if hit and (fi.qual, U(n.ast)) not in seen:
                seen.add((fi.qual, U(n.ast)))
                R.ob(RID, 'no truth test on a sized object in %s' % fi.qual, False,
                     '`%s` tests the truth value of a %s, which is its length (an object with an empty payload is false): '
                     'a pending / present object is taken for absent' % (U(n.ast), '/'.join(hit)), func=fi, node=n.ast,
                     construct='truth test of %s in %s' % (U(e), fi.qual))
    R.ob(RID, 'truth tests scanned', n_tests >= 100, '%d branch tests scanned, classes with a length: %s' % (n_tests, sorted(sized)),
         func=None, node=None, construct='sized truth scan')


# ------------------------------------------------------------------------------ definite assignment
def maybe_unbound(R, RID, modules=('session', 'websocket', 'stream', 'parser', 'frame_parser', 'persist', 'proxy', 'frame',
                                   'message', 'response', 'compression')):
    """Every read of a local happens after an assignment on every path (exception edges included): a path on which a
    local is still unbound raises UnboundLocalError - an exception no handler of the package expects (flag-controlled
    restructurings of try blocks are where this appears: `if fail_reason:` false for an empty message)."""
    from ..dataflow import defs_of_node
    n_fn = 0
    for key, cx in sorted(R.types.ctxs.items(), key=lambda kv: str(kv[0])):
        fi = cx.func
        if fi.module.name not in modules or (fi.cls is not None and cx.recv != fi.cls.qual):
            continue
        fn = fi.node
        params = set(a.arg for a in ast.walk(fn.args) if isinstance(a, ast.arg))
        assigned = set()
        for n in own_nodes(fn):
            if isinstance(n, ast.Name) and isinstance(n.ctx, ast.Store):
                assigned.add(n.id)
            elif isinstance(n, ast.ExceptHandler) and n.name:
                assigned.add(n.name)
            elif isinstance(n, (ast.FunctionDef, ast.ClassDef)):
                assigned.add(n.name)
            elif isinstance(n, (ast.Import, ast.ImportFrom)):
                for a in n.names:
                    assigned.add((a.asname or a.name).split('.')[0])
        if any(isinstance(n, (ast.Global, ast.Nonlocal)) for n in own_nodes(fn)):
            continue
        locs = assigned - params
        if not locs:
            continue
        n_fn += 1
        g = R.cfg(fi.qual, cx.recv, fault='arbitrary')
        nodes = g.live_nodes()
        # names bound inside comprehensions / lambdas are their own scope
        inner_bound = set()
        for n in own_nodes(fn):
            if isinstance(n, (ast.ListComp, ast.SetComp, ast.DictComp, ast.GeneratorExp)):
                for gen in n.generators:
                    for x in ast.walk(gen.target):
                        if isinstance(x, ast.Name):
                            inner_bound.add(x.id)
        ALL = frozenset(locs)
        IN = {n: ALL for n in nodes}
        IN[g.entry] = frozenset()
        gen_ = {n: frozenset(x for x in defs_of_node(n) if x in locs) for n in nodes}
        work = list(nodes)
        it = 0
        while work:
            it += 1
            if it > 50000:
                break
            n = work.pop()
            out_norm = IN[n] | gen_[n]
            # a handler variable is unbound again when the handler is left (py3); ignored (conservative for reads inside)
            for (m, l) in n.succ:
                if m not in IN:
                    continue
                contrib = IN[n] if l.startswith('exc:') else out_norm
                new = IN[m] & contrib if m is not g.entry else IN[m]
                if new != IN[m]:
                    IN[m] = new
                    work.append(m)
        reported = set()
        for n in nodes:
            roots = list(n.exprs or ([n.ast] if n.ast is not None and n.kind in ('stmt', 'test', 'yield', 'forinit') else []))
            if n.kind == 'stmt' and isinstance(n.ast, ast.AugAssign):
                roots.append(n.ast.target)
            for r in roots:
                if r is None:
                    continue
                for x in walk_no_nested(r):
                    if isinstance(x, ast.Name) and isinstance(x.ctx, ast.Load) and x.id in locs and x.id not in inner_bound \
                            and x.id not in IN[n] and (fi.qual, x.id) not in reported:
                        # reachable at all?
                        reported.add((fi.qual, x.id))
                        R.ob(RID, 'local %s bound before use in %s' % (x.id, fi.qual), False,
                             '`%s` can be read at `%s` on a path where it was never assigned: UnboundLocalError escapes '
                             'instead of the event / error the callers expect' % (x.id, n.text()[:50]), func=fi, node=x,
                             construct='possibly unbound %s in %s' % (x.id, fi.qual))
    R.ob(RID, 'definite-assignment scan', n_fn >= 40, '%d functions with locals scanned' % n_fn, func=None, node=None,
         construct='unbound local scan')


def sock_publications(g, field='self._sock'):
    """Nodes of g that store a (non-None) value into the session's socket field - directly or as an element of a tuple
    target (`self._sock, proxy = self._connect()`)."""
    out = []
    for n in g.live_nodes():
        if n.kind != 'stmt' or not isinstance(n.ast, ast.Assign):
            continue
        hit = False
        for t in n.ast.targets:
            for t1 in (t.elts if isinstance(t, (ast.Tuple, ast.List)) else [t]):
                if U(t1) == field:
                    hit = True
        if hit and U(n.ast.value) != 'None':
            out.append(n)
    return out


def lazy_pipeline(R, RID):
    """The event pipeline (Parser.feed -> WebsocketStream.feed -> WebSocket.feed -> run) is consumed one item at a time:
    no layer materialises the next layer's generator (list(...), tuple(...), sorted(...), a comprehension over it) before
    acting on its first item.  Materialising parses the whole read before the first event is acted upon: automatic
    replies are issued after later frames were processed (a Close later in the read makes the Pong impossible), valid
    messages in front of a bad frame are lost."""
    feeds = ('parser.Parser.feed', 'stream.WebsocketStream.feed', 'websocket.WebSocket.feed')
    n_fn = 0
    for key, cx in sorted(R.types.ctxs.items(), key=lambda kv: str(kv[0])):
        fi = cx.func
        if fi.module.name not in ('session', 'websocket', 'stream', 'parser', 'frame_parser', 'proxy') \
                or (fi.cls is not None and cx.recv != fi.cls.qual):
            continue
        n_fn += 1
        for c in own_nodes(fi.node):
            arg = None
            how = None
            if isinstance(c, ast.Call) and isinstance(c.func, ast.Name) and c.func.id in ('list', 'tuple', 'sorted', 'set', 'frozenset') \
                    and len(c.args) == 1:
                arg, how = c.args[0], c.func.id + '(...)'
            elif isinstance(c, (ast.ListComp, ast.SetComp, ast.DictComp)):
                arg, how = c.generators[0].iter, 'a comprehension'
            if arg is None:
                continue
            if isinstance(arg, ast.Call) and isinstance(arg.func, ast.Name) and arg.func.id in ('islice', 'iter') and arg.args:
                arg = arg.args[0]
            tys = R.types.expr(arg, cx)
            hit = [t for t in tys if isinstance(t, str) and t.startswith('gen:') and any(t[4:].startswith(f_) for f_ in feeds)]
            if hit:
                R.ob(RID, 'pipeline consumed lazily in %s' % fi.qual, False,
                     '%s materialises %s with %s: every frame of the read is parsed and acted upon before the first '
                     'resulting event is handled' % (fi.qual, U(arg), how), func=fi, node=c,
                     construct='pipeline materialised in %s' % fi.qual)
    R.ob(RID, 'pipeline laziness scan', n_fn >= 30, '%d functions scanned' % n_fn, func=None, node=None, construct='lazy pipeline scan')


def event_fields(R, RID, classes):
    """An event object reports what it was constructed with: events.<C>.__init__ stores every parameter, unmodified, in
    the attribute of the same name, and no other method of the class re-binds that attribute."""
    from ..dataflow import ReachingDefs
    for cname in classes:
        q = 'events.%s.__init__' % cname
        f = R.func(q)
        g = R.cfg(q)
        rd = ReachingDefs(g)
        params = [p for p in f.params if p != 'self']
        need(params, '%s takes no payload parameter' % q)
        for p in params:
            stores = [n for n in g.live_nodes() if n.kind == 'stmt' and isinstance(n.ast, (ast.Assign, ast.AugAssign)) and any(
                isinstance(t, ast.Attribute) and U(t) == 'self.' + p
                for t in (n.ast.targets if isinstance(n.ast, ast.Assign) else [n.ast.target]))]
            ok = len(stores) == 1 and isinstance(stores[0].ast, ast.Assign) and isinstance(stores[0].ast.value, ast.Name) \
                and stores[0].ast.value.id == p and rd.defs_at(stores[0], p) == {g.entry} \
                and all_paths_pass(g, [g.entry], stores, [g.exit], skip_edge=lambda a, b, l: l.startswith('exc:'))
            R.ob(RID, 'events.%s.%s is the constructor argument' % (cname, p), ok,
                 'events.%s stores %s in .%s: the event does not report the value it was constructed with' % (
                     cname, [U(n.ast.value) for n in stores] or 'nothing', p), func=f,
                 node=(stores[0].ast if stores else None), construct='events.%s.%s store' % (cname, p))
        cls = R.prog.classes.get('events.' + cname) if hasattr(R.prog, 'classes') else None
        others = []
        for fq, fi in sorted(R.prog.funcs.items()):
            if fi.cls is not None and fi.cls.qual == 'events.' + cname and fi.name != '__init__':
                for x in own_nodes(fi.node):
                    if isinstance(x, ast.Attribute) and isinstance(x.ctx, (ast.Store, ast.Del)) and isinstance(x.value, ast.Name) \
                            and x.value.id == 'self' and x.attr in params:
                        others.append('%s: %s' % (fq, x.attr))
                if fi.name in params:
                    others.append('%s shadows the attribute' % fq)
        R.ob(RID, 'events.%s payload attributes are written by the constructor only' % cname, not others,
             'also written in %s' % others, func=f, node=None, construct='events.%s attribute writers' % cname)


EVENT_NAMES = {'Ready': 'ready', 'Ping': 'ping', 'Pong': 'pong', 'Poll': 'poll', 'Text': 'text', 'Binary': 'binary',
               'Closed': 'closed', 'Closing': 'closing', 'Disconnected': 'disconnected', 'Rejected': 'rejected'}


def event_names(R, RID):
    """The session and persist() react to events by their ``name``: every event class resolves (through its bases) to a
    name of its own, and the classes the loop dispatches on carry the names it tests for."""
    from ..consteval import fold
    seen = {}
    n = 0
    for q in sorted(R.prog.subclasses('events.Event')):
        if q == 'events.Event':
            continue
        ca = R.prog.class_attr(q, 'name')
        val = None
        if ca is not None:
            v = ca[1]
            v = v[-1] if isinstance(v, list) else v
            val = v.value if isinstance(v, ast.Constant) else fold(R, v, None) if isinstance(v, ast.AST) else None
        short = q.split('.')[-1]
        n += 1
        if short in EVENT_NAMES:
            R.ob(RID, 'events.%s.name' % short, val == EVENT_NAMES[short],
                 'events.%s.name resolves to %r (defined in %s): the loop, which dispatches on event.name, treats a %s as '
                 'something else' % (short, val, ca[0] if ca else None, short), func='events.%s.__init__' % short
                 if ('events.%s.__init__' % short) in R.prog.funcs else None, node=None, construct='events.%s.name = %r' % (short, val))
        if val is not None:
            seen.setdefault(val, []).append(short)
    dup = {k: v for k, v in seen.items() if len(v) > 1}
    R.ob(RID, 'event names are distinct', not dup, 'event classes share a name: %s' % dup, func=None, node=None,
         construct='event name table')
    need(n >= 10, 'event classes not found')


LAZY_BUILTINS = ('map', 'filter', 'zip', 'iter', 'reversed', 'enumerate', 'chain', 'islice', 'imap', 'izip', 'ifilter')


def oneshot_fields(R, RID):
    """A field that is read again on a later connect() (options, header lists, protocol offers) must hold a value that can
    be read again: no field is bound to a one-shot iterator - map() / filter() / zip() / iter() / a generator expression
    are exhausted by their first consumer, and stay truthy."""
    n = 0
    for q, fi in sorted(R.prog.funcs.items()):
        if fi.module.name.startswith('examples') or fi.cls is None:
            continue
        for x in own_nodes(fi.node):
            if not isinstance(x, ast.Assign):
                continue
            tg = [t for t in x.targets if isinstance(t, ast.Attribute) and isinstance(t.value, ast.Name) and t.value.id == 'self']
            if not tg:
                continue
            n += 1
            arms = [x.value]
            lazy = []
            while arms:
                v = arms.pop()
                if isinstance(v, ast.IfExp):
                    arms += [v.body, v.orelse]
                elif isinstance(v, ast.BoolOp):
                    arms += list(v.values)
                elif isinstance(v, ast.GeneratorExp):
                    lazy.append(v)
                elif isinstance(v, ast.Call) and U(v.func).split('.')[-1] in LAZY_BUILTINS and (
                        isinstance(v.func, ast.Name) or U(v.func).startswith(('itertools.', 'six.moves.'))):
                    if not (isinstance(v.func, ast.Name) and R.prog.lookup(fi.module, v.func.id) and
                            R.prog.lookup(fi.module, v.func.id)[0] in ('func', 'class')):
                        lazy.append(v)
            if lazy:
                R.ob(RID, '%s holds a re-readable value' % U(tg[0]), False,
                     '%s is bound to the one-shot iterator %s in %s: its first consumer exhausts it, every later read (the next '
                     'connect() on the same object) sees it empty although it is still truthy' % (U(tg[0]), U(lazy[0])[:80], q),
                     func=fi, node=x, construct='one-shot iterator stored in %s.%s' % (fi.cls.qual, tg[0].attr))
    R.ob(RID, 'no field holds a one-shot iterator', True, '', func=None, node=None, construct='one-shot iterator fields')
    need(n >= 50, 'field stores not found')


def exception_text_total(R, RID):
    """run() turns failures into events with '{}'.format(error) inside its handlers: rendering an exception of the package
    must not be able to fail.  An exception class that defines its own __str__ / __repr__ / __format__ doing formatting work
    (% / .format / calls) can raise there (a %d given None ...) - the handler then fails and no terminal event is produced."""
    n = 0
    for q, c in sorted(R.prog.classes.items()):
        if c.module.name.startswith('examples'):
            continue
        if not any(b.split('.')[-1] in ('Exception', 'BaseException') or b.split('.')[-1].endswith('Error')
                   for b in R.prog.ext_bases(q)):
            continue
        n += 1
        for mname in ('__str__', '__repr__', '__format__', '__unicode__'):
            fi = c.methods.get(mname)
            if fi is None:
                continue
            work = [x for x in own_nodes(fi.node) if isinstance(x, ast.Call) or (
                isinstance(x, ast.BinOp) and isinstance(x.op, ast.Mod)) or isinstance(x, ast.JoinedStr)]
            R.ob(RID, 'rendering %s cannot fail' % q, not work,
                 '%s.%s formats its message when the exception is rendered (%s): a value the format cannot take (None for %%d, '
                 'a brace in the text ...) makes str(error) raise inside run()\'s failure handler - the exception leaves the '
                 'event iterator and no ConnectFail / Disconnected is produced' % (q, mname, [U(x)[:40] for x in work][:2]),
                 func=fi, node=fi.node, construct='%s.%s' % (q, mname))
    need(n >= 8, 'exception classes of the package not found')
    R.ob(RID, 'exception classes render without formatting work', True, '', func=None, node=None,
         construct='exception rendering scan')
