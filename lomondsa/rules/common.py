"""Helpers shared by the rule modules."""
import ast

from ..program import AnalysisError, U, walk_no_nested, own_nodes
from ..dataflow import ReachingDefs, attr_chain, names_in


def need(cond, msg):
    if not cond:
        raise AnalysisError(msg)


def calls_to(run, g, quals):
    """(node, call) pairs in CFG g whose call resolves to one of the function quals."""
    if isinstance(quals, str):
        quals = [quals]
    out = []
    for n in g.live_nodes():
        for c in n.calls:
            for t in run.types.call_targets(c, g.ctx):
                if t.kind in ('func', 'ctor') and t.qual in quals:
                    out.append((n, c))
                    break
    return out


def ext_calls(run, g, names):
    """(node, call) pairs whose call resolves to an external op in ``names``."""
    out = []
    for n in g.live_nodes():
        for c in n.calls:
            for t in run.types.call_targets(c, g.ctx):
                if t.kind == 'ext' and t.name in names:
                    out.append((n, c))
                    break
    return out


QUERY_LOG = None      # set to a list by the thorough tier: every must-pass-through query is re-decided by path enumeration


def all_paths_pass(g, srcs, through, dsts, skip_edge=None):
    """True iff every path from (after) srcs to any of dsts passes a node in ``through``."""
    starts = []
    for s in srcs:
        starts.append(s)
    r = g.reachable(starts, avoid=set(through), skip_edge=skip_edge)
    res = not any(d in r for d in dsts)
    if QUERY_LOG is not None:
        QUERY_LOG.append((g, list(starts), set(through), list(dsts), skip_edge, res))
    return res


def succs(n, label=None):
    return [m for (m, l) in n.succ if label is None or l == label]


def normal_succs(n):
    return [m for (m, l) in n.succ if not l.startswith('exc:')]


def no_exc(a, b, l):
    return l.startswith('exc:')


def arg_of(call, func, name, bound=True):
    """Expression passed for parameter ``name`` of FuncInfo ``func`` at ``call`` (None if absent)."""
    params = func.params
    if bound and params and params[0] in ('self', 'cls'):
        params = params[1:]
    for kw in call.keywords:
        if kw.arg == name:
            return kw.value
    if name in params:
        i = params.index(name)
        if i < len(call.args) and not any(isinstance(a, ast.Starred) for a in call.args[:i + 1]):
            return call.args[i]
    return None


def default_of(func, name):
    a = func.node.args
    pos = a.posonlyargs + a.args
    defaults = [None] * (len(pos) - len(a.defaults)) + list(a.defaults)
    for p, d in zip(pos, defaults):
        if p.arg == name:
            return d
    return None


def is_param(rd, n, e, name=None):
    """Does expression e (at node n) denote an unmodified parameter (optionally a specific one)?"""
    if not isinstance(e, ast.Name):
        return False
    ds = rd.defs_at(n, e.id)
    if ds != {rd.g.entry}:
        return False
    return name is None or e.id == name


def stores_in_package(run, attr):
    """All (ctx, stmt, target expr, value expr) storing to an attribute named ``attr``."""
    out = []
    seen = set()
    for c in run.types.ctxs.values():
        f = c.func
        if f.qual in seen:
            continue
        for n in own_nodes(f.node):
            tgts = []
            val = None
            if isinstance(n, ast.Assign):
                tgts = n.targets
                val = n.value
            elif isinstance(n, (ast.AugAssign, ast.AnnAssign)):
                tgts = [n.target]
                val = n.value
            elif isinstance(n, ast.Delete):
                tgts = n.targets
            flat = []
            for t in tgts:
                if isinstance(t, (ast.Tuple, ast.List)):
                    flat.extend(t.elts)
                else:
                    flat.append(t)
            for t in flat:
                if isinstance(t, ast.Attribute) and t.attr == attr:
                    out.append((c, n, t, val))
        seen.add(f.qual)
    return out


def const_int(run, e, ctx):
    """Fold an expression to a Python constant using class/module constants; None if not constant."""
    from ..consteval import fold
    return fold(run, e, ctx)


# --------------------------------------------------------------------------- atoms / path conditions
import copy


class _SubstSelf(ast.NodeTransformer):
    def __init__(self, repl):
        self.repl = repl

    def visit_Name(self, node):
        if node.id == 'self':
            return copy.deepcopy(self.repl)
        return node


def inline_property(run, ctx, e):
    """``frame.is_text`` -> ``frame.opcode == Opcode.TEXT`` when is_text is a one-line property."""
    if not isinstance(e, ast.Attribute):
        return None
    getters = set()
    for t in run.types.expr(e.value, ctx):
        if isinstance(t, str) and t.startswith('inst:'):
            fi = run.prog.find_method(t[5:], e.attr)
            if fi is None:
                if t[5:] in run.prog.classes and (run.types.field_types(t[5:], e.attr)
                                                  or run.prog.class_attr(t[5:], e.attr) is not None):
                    return None          # a plain field on some receiver: not a property access
                continue                 # receiver type without the attribute: cannot be the runtime type here
            if not fi.is_property:
                return None
            getters.add(fi)
    if len(getters) != 1:
        # all receivers must agree on one getter body text
        bodies = set()
        for fi in getters:
            body = [s for s in fi.node.body if not (isinstance(s, ast.Expr) and isinstance(s.value, ast.Constant))]
            if len(body) != 1 or not isinstance(body[0], ast.Return):
                return None
            bodies.add(U(body[0].value))
        if len(bodies) != 1:
            return None
    if not getters:
        return None
    fi = sorted(getters, key=lambda f: f.qual)[0]
    body = [s for s in fi.node.body if not (isinstance(s, ast.Expr) and isinstance(s.value, ast.Constant))]
    if len(body) != 1 or not isinstance(body[0], ast.Return) or body[0].value is None:
        return None
    return _SubstSelf(e.value).visit(copy.deepcopy(body[0].value))


def atom_text(run, ctx, e):
    """Canonical text of an atomic condition, one-line properties inlined."""
    r = inline_property(run, ctx, e)
    if r is not None:
        return U(r)
    return U(e)


# ---- canonical forms of atoms -------------------------------------------------------------------
class Lits(frozenset):
    """A set of (text, polarity) literals (all equivalent forms of every atom) + the atoms as groups."""
    groups = ()


def _pure(e, depth=0):
    """Side-effect free expression whose value can be substituted for a local that copies it."""
    if depth > 6:
        return False
    if isinstance(e, (ast.Name, ast.Constant)):
        return True
    if isinstance(e, ast.Attribute):
        return _pure(e.value, depth + 1)
    if isinstance(e, ast.Subscript):
        return _pure(e.value, depth + 1) and (isinstance(e.slice, ast.Slice) or _pure(e.slice, depth + 1))
    if isinstance(e, ast.BinOp) and isinstance(e.op, (ast.Add, ast.Sub, ast.Mult, ast.RShift, ast.LShift, ast.BitAnd)):
        return _pure(e.left, depth + 1) and _pure(e.right, depth + 1)
    if isinstance(e, ast.UnaryOp) and isinstance(e.op, ast.USub):
        return _pure(e.operand, depth + 1)
    if isinstance(e, ast.Call) and isinstance(e.func, ast.Name) and e.func.id in ('len', 'bool', 'int') and len(e.args) == 1:
        return _pure(e.args[0], depth + 1)
    return False


def _boolish(e):
    return isinstance(e, (ast.Compare, ast.BoolOp)) or (isinstance(e, ast.UnaryOp) and isinstance(e.op, ast.Not)) \
        or (isinstance(e, ast.Constant) and isinstance(e.value, bool)) \
        or (isinstance(e, ast.Call) and isinstance(e.func, ast.Name) and e.func.id in ('isinstance', 'hasattr', 'bool'))


class _Subst(ast.NodeTransformer):
    def __init__(self, look):
        self.look = look

    def visit_Name(self, node):
        if isinstance(node.ctx, ast.Load):
            r = self.look(node.id)
            if r is not None:
                return copy.deepcopy(r)
        return node


def g_rd(g):
    rd = getattr(g, '_rd', None)
    if rd is None:
        rd = g._rd = ReachingDefs(g)
    return rd


def subst_locals(run, g, node, e, env=None, depth=3):
    """Replace local names that merely copy a pure expression by that expression (single reaching definition, or the
    path-sensitive environment ``env``)."""
    rd = g_rd(g)
    for _ in range(depth):
        changed = [False]

        def look(name):
            v = None
            if env is not None and name in env:
                v = env[name]
            elif env is None or name not in env:
                ds = rd.defs_at(node, name)
                if len(ds) == 1:
                    d = next(iter(ds))
                    v = rd.value_of_def(d, name)
                    if v is not None:
                        # operands of the copied expression must not have been re-assigned since (cheap check:
                        # their definitions reaching the use equal those reaching the copy)
                        for nm in names_in(v):
                            if nm != name and rd.defs_at(node, nm) != rd.defs_at(d, nm):
                                v = None
                                break
            if v is not None and _pure(v) and not (isinstance(v, ast.Name) and v.id == name):
                changed[0] = True
                return v
            return None
        e2 = _Subst(look).visit(copy.deepcopy(e))
        if not changed[0]:
            return e2
        e = e2
    return e


_FLIP = {ast.Lt: ast.Gt, ast.LtE: ast.GtE, ast.Gt: ast.Lt, ast.GtE: ast.LtE}


def _norm_forms(e, pol, out, depth=0):
    """Add (text, pol) for e and for its normalised comparison forms."""
    out.add((U(e), pol))
    if depth > 3:
        return
    if isinstance(e, ast.UnaryOp) and isinstance(e.op, ast.Not):
        _norm_forms(e.operand, not pol, out, depth + 1)
        return
    if isinstance(e, ast.Compare) and len(e.ops) == 1:
        op, l, r = e.ops[0], e.left, e.comparators[0]
        neg = {ast.IsNot: ast.Is, ast.NotEq: ast.Eq, ast.NotIn: ast.In}.get(type(op))
        if neg is not None:
            e2 = ast.Compare(left=l, ops=[neg()], comparators=[r])
            _norm_forms(e2, not pol, out, depth + 1)
            return
        if isinstance(l, ast.Constant) and not isinstance(r, ast.Constant):
            if type(op) in _FLIP:
                e2 = ast.Compare(left=r, ops=[_FLIP[type(op)]()], comparators=[l])
                out.add((U(e2), pol))
            elif isinstance(op, (ast.Eq, ast.Is)):
                e2 = ast.Compare(left=r, ops=[op], comparators=[l])
                out.add((U(e2), pol))
        elif isinstance(op, (ast.Eq,)) and not isinstance(r, ast.Constant) and U(l) > U(r):
            out.add((U(ast.Compare(left=r, ops=[op], comparators=[l])), pol))
    if isinstance(e, ast.Call) and isinstance(e.func, ast.Name) and e.func.id == 'bool' and len(e.args) == 1:
        _norm_forms(e.args[0], pol, out, depth + 1)


def atom_forms(run, g, node, e, pol, env=None):
    """All equivalent (text, polarity) forms of the atomic condition e evaluated at CFG node ``node``.
    Returns None if the condition is a constant contradicting ``pol`` (infeasible branch)."""
    ctx = g.ctx
    out = set()
    cands = [e]
    e1 = subst_locals(run, g, node, e, env)
    if U(e1) != U(e):
        cands.append(e1)
    for c in list(cands):
        # inline one-line properties anywhere inside the atom
        c2 = _InlineProps(run, ctx).visit(copy.deepcopy(c))
        if U(c2) != U(c):
            cands.append(c2)
    for c in cands:
        _norm_forms(c, pol, out)
    # flag variables: a Name whose (path-sensitive or single) definition is a boolean expression
    if isinstance(e, ast.Name):
        v = None
        rd = g_rd(g)
        if env is not None and e.id in env:
            v = env[e.id]
        else:
            ds = rd.defs_at(node, e.id)
            if len(ds) == 1:
                v = rd.value_of_def(next(iter(ds)), e.id)
        if v is not None and _boolish(v):
            r = cond_forms(run, g, node, v, pol, env)
            if r is None:
                return None
            out |= r
    return out


class _InlineProps(ast.NodeTransformer):
    def __init__(self, run, ctx):
        self.run, self.ctx = run, ctx

    def visit_Attribute(self, node):
        node = self.generic_visit(node)
        if isinstance(node.ctx, ast.Load):
            r = inline_property(self.run, self.ctx, node)
            if r is not None:
                return r
        return node


def cond_forms(run, g, node, e, pol, env=None):
    """Literals implied by the (possibly compound) boolean expression e having truth value pol."""
    if isinstance(e, ast.Constant) and isinstance(e.value, bool):
        return set() if e.value == pol else None
    if isinstance(e, ast.UnaryOp) and isinstance(e.op, ast.Not):
        return cond_forms(run, g, node, e.operand, not pol, env)
    if isinstance(e, ast.BoolOp):
        conj = isinstance(e.op, ast.And)
        if conj == pol:
            out = set()
            for v in e.values:
                r = cond_forms(run, g, node, v, pol, env)
                if r is None:
                    return None
                out |= r
            return out
        parts = []
        for v in e.values:
            fs = atom_forms(run, g, node, v, True, env) or set()
            # canonical part text: the property-inlined / substituted form sorts last by convention; keep all
            parts.append(sorted(t for (t, p) in fs if p))
        out = set()
        import itertools
        combos = list(itertools.islice(itertools.product(*parts), 64)) if all(parts) else []
        for combo in combos:
            out.add((('and(%s)' if conj else 'or(%s)') % ','.join(sorted(combo)), pol))
        return out
    return atom_forms(run, g, node, e, pol, env)


def literals_of(run, g, rd, tnode, polarity, env=None):
    """Literals implied by test node ``tnode`` evaluating to ``polarity`` (None when infeasible)."""
    r = cond_forms(run, g, tnode, tnode.ast, polarity, env)
    return r


def guards_of(g, n):
    """[(atom text, polarity, test node)] for every branch edge that dominates node n - every equivalent form of each
    atom is listed (same test node)."""
    run = getattr(g, 'run', None)
    out = []
    for (t, lab) in g.edge_guards(n):
        if t.kind == 'test':
            forms = None
            if run is not None:
                forms = cond_forms(run, g, t, t.ast, lab == 'true')
            if not forms:
                forms = {(U(t.ast), lab == 'true')}
            for (txt, pol) in sorted(forms):
                out.append((txt, pol, t))
        elif t.kind == 'for':
            out.append(('for ' + U(t.ast.target) + ' in ' + U(t.ast.iter), lab == 'body', t))
    return out


def guard_groups(g, n):
    """[(test node, set of (text, pol))] - one entry per dominating test."""
    out = {}
    for (txt, pol, t) in guards_of(g, n):
        if t.kind == 'test':
            out.setdefault(t, set()).add((txt, pol))
    return list(out.items())


def only_guards(g, n, allowed):
    """True iff every dominating test of n has a form in ``allowed`` and every element of allowed is present."""
    groups = guard_groups(g, n)
    allowed = set(allowed)
    hit = set()
    for (t, forms) in groups:
        m = forms & allowed
        if not m:
            return False
        hit |= m
    return len(groups) == len(allowed) and all(any(a in forms for (t, forms) in groups) for a in allowed)


def _kill(env, name):
    env.pop(name, None)
    for k in [k for k, v in env.items() if name in names_in(v)]:
        env.pop(k)


def _update_env(env, n):
    """Path-sensitive environment of simple local assignments."""
    a = n.ast
    if n.kind == 'stmt':
        if isinstance(a, ast.Assign) and len(a.targets) == 1 and isinstance(a.targets[0], ast.Name):
            nm = a.targets[0].id
            val = a.value
            _kill(env, nm)
            if (_pure(val) or _boolish(val)) and nm not in names_in(val) and \
                    not any(isinstance(x, (ast.Yield, ast.YieldFrom)) for x in ast.walk(val)):
                env[nm] = val
            return
        for nm in _defs(n):
            _kill(env, nm)
    elif n.kind in ('for', 'with', 'handler', 'def'):
        for nm in _defs(n):
            _kill(env, nm)


def _defs(n):
    from ..dataflow import defs_of_node
    return defs_of_node(n)


_POST_CACHE = {}


def call_postconditions(run, g, n, depth=0):
    """Literals guaranteed after the calls in node n returned normally (callee: package function, not a generator):
    the literals common to every normal path through the callee, re-expressed in the caller's terms."""
    out = set()
    if depth > 1:
        return out
    for c in n.calls:
        ts = run.types.call_targets(c, g.ctx)
        if len(ts) != 1 or ts[0].kind != 'func' or ts[0].func.is_generator:
            continue
        t = ts[0]
        fi = t.func
        if fi.cls is None or not isinstance(c.func, ast.Attribute) or U(c.func.value) != 'self':
            continue
        key = (fi.qual, t.recv)
        if key not in _POST_CACHE or _POST_CACHE[key][0] is not run:
            _POST_CACHE[key] = (run, None)
            try:
                cg = run.cfg(fi.qual, t.recv)
                pcs = path_conditions(run, cg, g_rd(cg), cg.entry, cg.exit, limit=300, _depth=depth + 1)
            except AnalysisError:
                pcs = []
            common_ = None
            for l in pcs:
                common_ = set(l) if common_ is None else common_ & set(l)
            _POST_CACHE[key] = (run, common_ or set())
        post = _POST_CACHE[key][1] or set()
        if not post:
            continue
        params = [p for p in fi.params if p != 'self']
        amap = {}
        for i, p in enumerate(params):
            a = arg_of(c, fi, p)
            if a is not None:
                amap[p] = a
        for (txt, pol) in post:
            try:
                e = ast.parse(txt, mode='eval').body
            except SyntaxError:
                continue
            free = names_in(e) - {'self'}
            if not free <= set(amap) | {'isinstance', 'len', 'hasattr', 'bool', 'bytes', 'str', 'Opcode', 'Status'}:
                continue
            e2 = _Subst(lambda nm: amap.get(nm)).visit(e)
            out.add((U(e2), pol))
    return out


def path_conditions(run, g, rd, start, target, limit=5000, through_exc=False, prune=True, _depth=0):
    """Literal sets of every simple path start -> target (non-exception edges).  Each element is a ``Lits`` frozenset
    of (text, polarity) containing every equivalent form of each atom; ``.groups`` lists the atoms one by one."""
    out = []
    count = [0]

    def rec(n, seen, lits, groups, env):
        if count[0] > limit:
            raise AnalysisError('path enumeration limit exceeded in %s' % g.ctx.func.qual)
        if n is target:
            count[0] += 1
            L = Lits(lits)
            L.groups = tuple(groups)
            out.append(L)
            return
        env2 = dict(env)
        _update_env(env2, n)
        post = None
        for (m, l) in n.succ:
            if l.startswith('exc:') and not through_exc:
                continue
            if m in seen:
                continue
            add = set()
            grp = groups
            if n.kind == 'test' and l in ('true', 'false'):
                add = literals_of(run, g, rd, n, l == 'true', env2)
                if add is None:
                    continue                      # constant condition contradicts this branch
                # a path asserting an atom both ways is infeasible (atoms are pure reads of unchanged operands)
                if prune and any((t, not p) in lits for (t, p) in add):
                    continue
                grp = groups + [(n, l == 'true', frozenset(add))]
            elif n.calls and n.kind in ('stmt', 'test') and _depth < 2:
                if post is None:
                    post = call_postconditions(run, g, n, _depth)
                add = post
            rec(m, seen | {m}, lits | add, grp, env2)
    rec(start, {start}, set(), [], {})
    return out


def facts(run, g, n, start=None):
    """Literals (all forms) common to every path from start (default entry) to n."""
    pcs = path_conditions(run, g, g_rd(g), start or g.entry, n)
    common_ = None
    for l in pcs:
        common_ = set(l) if common_ is None else common_ & set(l)
    return common_ or set()


def extra_atoms(l, allowed):
    """Atoms (groups) of path condition l none of whose forms is in ``allowed``."""
    allowed = set(allowed)
    out = []
    for (tn, pol, forms) in getattr(l, 'groups', ()):
        if not (forms & allowed):
            out.append(sorted(forms)[0])
    return out


def has(lits, text, pol):
    return (text, pol) in lits


# ------------------------------------------------------------------------------ integer intervals
ATOM_AST = {}
INF = float('inf')


def _register_atoms(e):
    for x in walk_no_nested(e):
        if isinstance(x, (ast.Compare, ast.Call, ast.Attribute, ast.Name)):
            ATOM_AST.setdefault(U(x), x)


def interval_of(run, ctx, lits, var_text, integer=True):
    """Tightest [lo, hi] for the integer quantity ``var_text`` implied by comparison literals."""
    lo, hi = -INF, INF
    for (txt, pol) in lits:
        try:
            e = ast.parse(txt, mode='eval').body
        except SyntaxError:
            continue
        if not (isinstance(e, ast.Compare) and len(e.ops) == 1):
            continue
        l, r, op = e.left, e.comparators[0], e.ops[0]
        if U(r) == var_text and U(l) != var_text:
            l, r = r, l
            op = {ast.Lt: ast.Gt, ast.LtE: ast.GtE, ast.Gt: ast.Lt, ast.GtE: ast.LtE}.get(type(op), type(op))()
        if U(l) != var_text:
            continue
        from ..consteval import fold
        k = fold(run, r, ctx)
        if not isinstance(k, int) or isinstance(k, bool):
            continue
        t = type(op)
        if not pol:
            t = {ast.Lt: ast.GtE, ast.LtE: ast.Gt, ast.Gt: ast.LtE, ast.GtE: ast.Lt, ast.Eq: ast.NotEq,
                 ast.NotEq: ast.Eq}.get(t)
        if t is ast.Lt:
            hi = min(hi, k - 1)
        elif t is ast.LtE:
            hi = min(hi, k)
        elif t is ast.Gt:
            lo = max(lo, k + 1)
        elif t is ast.GtE:
            lo = max(lo, k)
        elif t is ast.Eq:
            lo = max(lo, k)
            hi = min(hi, k)
    return lo, hi


def struct_format(run, ctx, call):
    """Format string of a call to a bound struct pack/unpack kept in a class attribute; None if not one."""
    fn = call.func
    if not isinstance(fn, ast.Attribute):
        return None
    for t in run.types.expr(fn.value, ctx):
        if isinstance(t, str) and (t.startswith('cls:') or t.startswith('inst:')):
            q = t.split(':', 1)[1]
            ca = run.prog.class_attr(q, fn.attr)
            if ca is None:
                continue
            for v in ca[1]:
                if isinstance(v, ast.Attribute) and v.attr in ('pack', 'unpack') and isinstance(v.value, ast.Call) \
                        and v.value.args and isinstance(v.value.args[0], ast.Constant):
                    fmt = v.value.args[0].value
                    if isinstance(fmt, bytes):
                        fmt = fmt.decode('ascii')
                    return (v.attr, fmt)
    return None


# ----------------------------------------------------------------------------- linear comparisons
def _lin(e, sign, out, alias):
    if isinstance(e, ast.BinOp) and isinstance(e.op, ast.Add):
        _lin(e.left, sign, out, alias)
        _lin(e.right, sign, out, alias)
    elif isinstance(e, ast.BinOp) and isinstance(e.op, ast.Sub):
        _lin(e.left, sign, out, alias)
        _lin(e.right, -sign, out, alias)
    elif isinstance(e, ast.UnaryOp) and isinstance(e.op, ast.USub):
        _lin(e.operand, -sign, out, alias)
    elif isinstance(e, ast.Constant) and isinstance(e.value, (int, float)) and not isinstance(e.value, bool):
        out['1'] = out.get('1', 0) + sign * e.value
    else:
        t = alias.get(U(e), U(e))
        if isinstance(t, ast.AST):
            _lin(t, sign, out, alias)
        else:
            out[t] = out.get(t, 0) + sign
    return out


def lin_cmp(text_or_expr, polarity=True, alias=None):
    """Normalise ``L op R`` to ({term: coef}, '>=' | '>' | '==' | '!=') meaning  sum(coef*term) op 0."""
    e = text_or_expr
    if isinstance(e, str):
        try:
            e = ast.parse(e, mode='eval').body
        except SyntaxError:
            return None
    if not (isinstance(e, ast.Compare) and len(e.ops) == 1):
        return None
    op = type(e.ops[0])
    if not polarity:
        op = {ast.Lt: ast.GtE, ast.LtE: ast.Gt, ast.Gt: ast.LtE, ast.GtE: ast.Lt, ast.Eq: ast.NotEq,
              ast.NotEq: ast.Eq}.get(op)
        if op is None:
            return None
    l, r = e.left, e.comparators[0]
    if op in (ast.Lt, ast.LtE):
        l, r = r, l
        op = {ast.Lt: ast.Gt, ast.LtE: ast.GtE}[op]
    out = {}
    _lin(l, 1, out, alias or {})
    _lin(r, -1, out, alias or {})
    out = {k: v for k, v in out.items() if v != 0}
    sym = {ast.GtE: '>=', ast.Gt: '>', ast.Eq: '==', ast.NotEq: '!='}.get(op)
    if sym is None:
        return None
    return out, sym


# ------------------------------------------------------------------------------ exact atom matching
def guard_atom_sets(g, n):
    """[frozenset(forms)] - one per test whose branch edge dominates n."""
    return [frozenset(forms) for (t, forms) in guard_groups(g, n)]


def path_atom_sets(l):
    return [forms for (tn, pol, forms) in getattr(l, 'groups', ())]


def match_exact(groups, atoms, optional=()):
    """Every group matches one of ``atoms`` (sets of acceptable forms) or ``optional``; every atom is matched."""
    atoms = [set(a) if not (isinstance(a, tuple) and len(a) == 2 and isinstance(a[1], bool)) else {a} for a in atoms]
    optional = [set(a) if not (isinstance(a, tuple) and len(a) == 2 and isinstance(a[1], bool)) else {a} for a in optional]
    used = set()
    for forms in groups:
        hit = [i for i, a in enumerate(atoms) if forms & a]
        if not hit:
            if any(forms & o for o in optional):
                continue
            return False
        used.update(hit)
    return used == set(range(len(atoms)))


def unmatched(groups, accept):
    """Groups for which ``accept(forms)`` is false (accept gets the frozenset of forms)."""
    return [sorted(f)[0] for f in groups if not accept(f)]
