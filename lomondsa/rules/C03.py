"""C03 - every frame the client writes is a valid client frame that round-trips."""
import ast
import struct as _struct

from ..program import AnalysisError, U, own_nodes, walk_no_nested
from ..dataflow import ReachingDefs, defs_of_node
from ..consteval import fold, module_consts
from .common import (need, guards_of, calls_to, all_paths_pass, succs, normal_succs, path_conditions,
                     atom_text, is_param, interval_of, struct_format, arg_of, default_of, INF, ext_calls)

PROPERTY = 'C03'
LEVEL = 'other'
EXPLANATION = (
    'Shape rules over the send path (websocket.send_* -> session.send/send_compressed -> Frame.to_bytes -> '
    'Frame.build -> mask_payload): exactly one session send per accepted call and none before a '
    'TypeError/ValueError, type test dominating every use, a <=125-byte bound dominating every control-opcode '
    'send, constant propagation of FIN/MASK/RSV through the Frame constructor sites, integer-interval analysis '
    'of the length-class arms against their struct formats (capacity and minimality), masking key/lanes/object '
    'identity, privacy of the masked buffer, RSV1 gating and the close payload layout. Decides these structural '
    'premises; byte-level round-trip equality rests on XOR being an involution and struct packing.'
    ' Also decided: package-wide isolation (objects created once per class or per function definition - class-level attributes, parameter defaults - are only read), so that no buffer, validator, cache, lock or option table is shared between connections by accident.')
NOT_DECIDED = 'byte-level round-trip equality (value premise: XOR involution, struct.pack); JSON encoding'
ASSUMPTIONS = ['struct.Struct(fmt).pack packs big-endian unsigned fields as documented',
               'bytes objects are immutable; bytearray(x) and bytes(x) copy']

WS = 'websocket.WebSocket'
SEND = 'session.WebsocketSession.send'
SENDC = 'session.WebsocketSession.send_compressed'
SENDERS = ['send_text', 'send_binary', 'send_ping', 'send_pong', '_send_close']
nx = lambda a, b, l: l.startswith('exc:')


def check(run):
    R = run
    R.rule('C03.shared', 'objects created once per class / per function definition (class-level attributes, parameter '
           'defaults) are only read (no frame/header cache or lock shared across instances by accident); a failed '
           'sendall() is never re-issued', 3)
    from .common import shared_state, no_send_retry
    shared_state(R, 'C03.shared')
    no_send_retry(R, 'C03.shared')
    R.rule('C03.once', 'exactly one session.send|send_compressed on every normal path of each public send method; '
                       'none before a TypeError/ValueError raise; send_json -> exactly one send_text', 6)
    R.rule('C03.argcheck', 'the isinstance test on the payload parameter dominates every other use of it', 4)
    R.rule('C03.ctrl125', 'every session.send with a control opcode is dominated by a guard bounding the payload '
                          'bytes to <= 125 with a raise on the exceeding side', 3)
    R.rule('C03.flags', 'FIN=1, MASK=True, RSV2=RSV3=0, RSV1=1 only in send_compressed, by constant propagation '
                        'through Frame(...), Frame.__init__, to_bytes and the header byte expression', 12)
    R.rule('C03.lenenc', 'length-class arms of Frame.build: interval of `length` fits the arm\'s struct field, '
                         'exceeds the previous form\'s capacity (shortest encoding), marker byte matches', 3)
    R.rule('C03.mask', 'the key given to mask_payload is the key packed after the header, fresh os.urandom(4) when '
                       'absent; the masked object is the serialised object; lane i uses table of key byte i', 8)
    R.rule('C03.private', 'the bytearray masked in place is private: copied in send(), or every payload handed to '
                          'the session is immutable bytes / freshly built', 2)
    R.rule('C03.rsv1gate', 'send_compressed is called only under `compress and self.state.compression`', 2)
    R.rule('C03.close', 'close payload = pack("!H", status) followed by the UTF-8 reason bytes', 3)
    once(R)
    maskonce(R)
    argcheck(R)
    ctrl125(R)
    flags(R)
    lenenc(R)
    mask(R)
    private(R)
    rsv1gate(R)
    from . import C06
    with R.as_rule('C03.rsv1gate'):
        C06.wiring(R)        # compressed frames round-trip only if the deflate contexts are configured as negotiated
    closep(R)
    from . import C08
    R.rule('C03.closeaccepted', 'every accepted close() writes its Close frame: a rejected close() (oversize reason) leaves the '
                                'state alone, so the next, valid, close() is not taken for a repeat; CLOSE has one producer', 4)
    C08.onlyclose(R, RID='C03.closeaccepted')
    from . import C11 as _C11
    with R.as_rule('C03.once'):
        _C11.locked(R)           # the one complete frame is not cut by a concurrent shutdown / write (lock sections)
        _C11.once(R)             # send() writes it at once (not queued for a later flush that may be refused)


def send_sites(R, g):
    return calls_to(R, g, [SEND, SENDC])


# ------------------------------------------------------------------------------------------------ once
def once(R):
    for name in SENDERS:
        q = WS + '.' + name
        f = R.func(q)
        g = R.cfg(q)
        from .common import counting_nodes
        cn, mixed = counting_nodes(R, g, [SEND, SENDC])
        sites = [(n, c) for (n, c, k) in cn]
        snodes = [n for (n, _) in sites]
        for (mn_, mc_, hq) in mixed:
            R.ob('C03.once', '%s: helper %s sends exactly once' % (name, hq.rsplit('.', 1)[1]), False,
                 'the helper %s, called from %s, does not send exactly one frame on each of its paths' % (hq, name),
                 func=f, node=mc_)
        need(snodes or mixed, '%s: no session.send call found' % q)
        if not snodes:
            continue
        ok1 = all_paths_pass(g, [g.entry], snodes, [g.exit])
        R.ob('C03.once', '%s: a send on every normal path' % name, ok1,
             'a path returns normally without sending a frame', func=f, node=f.node, construct=name + ': path without send')
        twice = any(any(s2 in g.succ_reach(s) for s2 in snodes) for s in snodes)
        R.ob('C03.once', '%s: at most one send' % name, not twice, 'two session sends can happen in one call',
             func=f, node=sites[0][1])
        for n in g.live_nodes():
            if n.kind == 'stmt' and isinstance(n.ast, ast.Raise) and n.ast.exc is not None:
                toks = R.exc.exc_tokens_of_value(n.ast.exc, g.ctx)
                if toks & {'TypeError', 'ValueError'}:
                    after = any(n in g.succ_reach(s) for s in snodes)
                    R.ob('C03.once', '%s: nothing sent before %s' % (name, '/'.join(sorted(toks))), not after,
                         'argument check raises after a frame may already have been written', func=f, node=n.ast)
    q = WS + '.send_json'
    g = R.cfg(q)
    sites = calls_to(R, g, WS + '.send_text')
    snodes = [n for (n, _) in sites]
    ok = bool(snodes) and all_paths_pass(g, [g.entry], snodes, [g.exit]) and \
        not any(any(s2 in g.succ_reach(s) for s2 in snodes) for s in snodes)
    R.ob('C03.once', 'send_json: exactly one send_text', ok, 'send_json does not call send_text exactly once',
         func=q, node=R.func(q).node, construct='send_json -> send_text')
    # what is encoded is the caller's object whenever one was given: the "no object given" default must be a value that
    # JSON cannot express (Ellipsis / a private sentinel) and must be recognised by identity, not by truthiness - with
    # `_obj or kwargs` (or a None default) the legal top-level values [], 0, "", false, null are sent as {}
    fj = R.func(q)
    rdj = ReachingDefs(g)
    dumps = ext_calls(R, g, {'json.dumps'})
    need(len(dumps) == 1, 'send_json: json.dumps call not found')
    dn, dc = dumps[0]
    objp = [p_ for p_ in fj.params if p_ != 'self'][0]
    dflt = default_of(fj, objp)
    sentinel_ok = dflt is not None and (U(dflt) == 'Ellipsis' or (isinstance(dflt, ast.Name) and dflt.id.startswith('_')))
    from .common import value_cases
    arg = dc.args[0] if dc.args else None
    good = arg is not None
    via_obj = False
    if good:
        for (conds, val, site) in value_cases(R, g, dn, arg):
            if isinstance(val, ast.Name) and val.id == objp:
                via_obj = True
                idt = {('%s is not %s' % (objp, U(dflt)), True), ('%s is %s' % (objp, U(dflt)), False)}
                if conds and not (idt & set(conds)):
                    good = False
            elif isinstance(val, (ast.BoolOp, ast.Compare)):
                good = False
    # every keyword argument is a key of the JSON object: the signature has no named parameter (besides the object) that
    # would take one of them away
    a_ = fj.node.args
    named = [x.arg for x in a_.posonlyargs + a_.args + a_.kwonlyargs if x.arg not in ('self', objp)]
    R.ob('C03.once', 'send_json passes every keyword into the JSON object', not named and a_.kwarg is not None,
         'send_json has the named parameter(s) %s next to **%s: send_json(%s=...) in the documented keyword form no longer '
         'sends that key - the frame does not carry the caller\'s payload' % (named, a_.kwarg.arg if a_.kwarg else 'kwargs',
                                                                              named[0] if named else ''),
         func=q, node=fj.node, construct='send_json signature')
    R.ob('C03.once', 'send_json encodes exactly the object it was given', sentinel_ok and good and via_obj,
         'send_json(%s=%s) encodes %s: a falsy but legal JSON value ([], 0, "", false, null) is replaced by the keyword '
         'arguments, i.e. {} is sent' % (objp, U(dflt), U(arg)), func=q, node=dc, construct='send_json object selection')


MASKING = ('frame.Frame.to_bytes', 'frame.Frame.build', 'mask.mask_payload')


def _masking_funcs(R):
    """Functions (and properties) that - directly or through callees / property reads - serialise a frame, i.e. mask
    its payload buffer in place."""
    cache = getattr(R, '_masking', None)
    if cache is not None:
        return cache
    mk = set(MASKING)
    changed = True
    while changed:
        changed = False
        for cx in R.types.ctxs.values():
            f = cx.func
            if f.qual in mk or (f.cls is not None and cx.recv != f.cls.qual):
                continue
            hit = False
            for n in own_nodes(f.node):
                if isinstance(n, ast.Call):
                    if any(t.kind == 'func' and t.qual in mk for t in R.types.call_targets(n, cx)):
                        hit = True
                elif isinstance(n, ast.Attribute) and isinstance(n.ctx, ast.Load):
                    for t in R.types.expr(n.value, cx):
                        if isinstance(t, str) and t.startswith('inst:'):
                            pf = R.prog.find_method(t[5:], n.attr)
                            if pf is not None and pf.is_property and pf.qual in mk:
                                hit = True
            if hit:
                mk.add(f.qual)
                changed = True
    R._masking = mk
    return mk


def maskonce(R):
    """In session.send / send_compressed the frame is serialised (hence masked in place) exactly once."""
    mk = _masking_funcs(R)
    for q in (SEND, SENDC):
        g = R.cfg(q)
        ops = []
        for n in g.live_nodes():
            for c in n.calls:
                if any(t.kind == 'func' and t.qual in mk for t in R.types.call_targets(c, g.ctx)):
                    ops.append((n, U(c)))
            for e in (n.exprs or []):
                for x in walk_no_nested(e):
                    if isinstance(x, ast.Attribute) and isinstance(x.ctx, ast.Load):
                        for t in R.types.expr(x.value, g.ctx):
                            if isinstance(t, str) and t.startswith('inst:'):
                                pf = R.prog.find_method(t[5:], x.attr)
                                if pf is not None and pf.is_property and pf.qual in mk:
                                    ops.append((n, U(x)))
        nodes = [n for (n, _) in ops]
        twice = any(n2 in g.succ_reach(n1) for n1 in nodes for n2 in nodes) or len(ops) != len(set(nodes))
        R.ob('C03.once', '%s: the frame is serialised exactly once' % q.rsplit('.', 1)[1], len(ops) >= 1 and not twice,
             'the frame is serialised %s: Frame.build masks the payload buffer in place, so a second serialisation '
             '(e.g. to log its size) masks it again with another key and the wire payload no longer unmasks to the '
             'caller\'s data' % [t for (_, t) in ops], func=q, node=None, construct='%s serialisations %s' % (q, sorted(t for (_, t) in ops)))


# -------------------------------------------------------------------------------------------- argcheck
def _isinstance_guard(R, g, n, param):
    """class-tuple texts of isinstance(param, T) literals (True polarity) guarding node n"""
    out = []
    for (txt, pol, t) in guards_of(g, n):
        e = t.ast
        if pol and isinstance(e, ast.Call) and isinstance(e.func, ast.Name) and e.func.id == 'isinstance' \
                and len(e.args) == 2 and U(e.args[0]) == param:
            out.append(e.args[1])
    return out


def _type_names(R, ctx, texpr):
    exprs = texpr.elts if isinstance(texpr, ast.Tuple) else [texpr]
    out = set()
    for e in exprs:
        t = U(e)
        if t in ('six.text_type', 'text_type', 'str'):
            t = 'str'
        out.add(t)
    return out


def argcheck(R):
    want = {'send_text': 'str', 'send_binary': 'bytes', 'send_ping': 'bytes', 'send_pong': 'bytes'}
    for name, ty in want.items():
        q = WS + '.' + name
        f = R.func(q)
        g = R.cfg(q)
        param = [p for p in f.params if p != 'self'][0]
        uses = []
        for n in g.live_nodes():
            if n.kind in ('entry', 'exit', 'raise', 'handler', 'loophead', 'def', 'finally'):
                continue
            exprs = n.exprs or ([n.ast] if n.ast is not None else [])
            names = set()
            for e in exprs:
                for x in walk_no_nested(e):
                    if isinstance(x, ast.Name) and x.id == param and isinstance(x.ctx, ast.Load):
                        names.add(x)
            if not names:
                continue
            is_test = n.kind == 'test' and isinstance(n.ast, ast.Call) and isinstance(n.ast.func, ast.Name) \
                and n.ast.func.id == 'isinstance' and U(n.ast.args[0]) == param
            # a private immutable copy taken first - `param = bytes(param)` / `str(param)` - is a conversion, not a use:
            # what is used afterwards is the copy (whose type the remaining tests still establish)
            is_conv = n.kind == 'stmt' and isinstance(n.ast, ast.Assign) and len(n.ast.targets) == 1 \
                and U(n.ast.targets[0]) == param and isinstance(n.ast.value, ast.Call) \
                and isinstance(n.ast.value.func, ast.Name) and n.ast.value.func.id == ty \
                and [U(a_) for a_ in n.ast.value.args] == [param] and not n.ast.value.keywords
            if not is_test and not is_conv:
                uses.append(n)
        need(uses, '%s: parameter %s is never used' % (q, param))
        bad = []
        for n in uses:
            gs = _isinstance_guard(R, g, n, param)
            tn = set()
            for t in gs:
                tn |= _type_names(R, g.ctx, t)
            if not gs or tn != {ty}:
                bad.append((n, sorted(tn)))
        R.ob('C03.argcheck', '%s: isinstance(%s, %s) dominates every use' % (name, param, ty), not bad,
             'use of %s not dominated by isinstance(%s, %s) (guarding types: %s)' % (
                 param, param, ty, bad[0][1] if bad else ''), func=f, node=(bad[0][0].ast if bad else f.node),
             construct=('%s used at: %s' % (param, bad[0][0].text())) if bad else None)


# --------------------------------------------------------------------------------------------- ctrl125
def _upper_bound(R, g, n, text):
    best = INF
    lits = set()
    for (txt, pol, t) in guards_of(g, n):
        lits.add((txt, pol))
    lo, hi = interval_of(R, g.ctx, lits, text)
    return hi


def control_send_bound(R, g, rd, n, call):
    """Upper bound on the bytes of the payload argument of a session.send call, from dominating guards."""
    data = call.args[1] if len(call.args) > 1 else None
    need(data is not None, 'session.send call without payload argument: %s' % U(call))
    best = INF
    # (1) bound on len(<the very name sent>)
    if isinstance(data, ast.Name):
        from .common import len_texts
        hi = _upper_bound(R, g, n, len_texts(R, g, n, data))
        # the guard must concern the same definition that is sent
        best = min(best, hi)
    # (2) payload built by build_close_payload(code, reason): 2 + len(reason) when reason is bytes
    o, on = rd.origin(n, data)
    if isinstance(o, ast.Call) and R.types.resolves_to(o, g.ctx, 'frame.Frame.build_close_payload'):
        reason = o.args[1] if len(o.args) > 1 else None
        if reason is not None and isinstance(reason, ast.Name):
            hi = _upper_bound(R, g, n, 'len(%s)' % reason.id)
            isb = any(_type_names(R, g.ctx, t) == {'bytes'} for t in _isinstance_guard(R, g, n, reason.id))
            if isb and hi != INF:
                best = min(best, hi + 2)
    return best


def ctrl125(R):
    from ..consteval import class_consts
    found = 0
    for name in SENDERS:
        q = WS + '.' + name
        g = R.cfg(q)
        rd = ReachingDefs(g)
        for (n, call) in send_sites(R, g):
            op = fold(R, call.args[0], g.ctx) if call.args else None
            need(isinstance(op, int), '%s: opcode argument of %s is not constant' % (q, U(call)))
            if op < 8:
                continue
            found += 1
            b = control_send_bound(R, g, rd, n, call)
            R.ob('C03.ctrl125', '%s: control payload bounded' % name, b <= 125,
                 'control frame (opcode %d) can be sent with a payload of up to %s bytes' % (op, b),
                 func=q, node=call)
    need(found >= 3, 'fewer than 3 control-opcode sends found')


# ----------------------------------------------------------------------------------------------- flags
def flags(R):
    FR = 'frame.Frame'
    init = R.func(FR + '.__init__')
    build = R.func(FR + '.build')
    tob = R.func(FR + '.to_bytes')
    # Frame.__init__ stores each parameter into the same-named field
    for p in ('opcode', 'payload', 'fin', 'rsv1', 'rsv2', 'rsv3', 'mask', 'masking_key'):
        st = [s for s in own_nodes(init.node) if isinstance(s, ast.Assign) and U(s.targets[0]) == 'self.' + p]
        ok = len(st) == 1 and U(st[0].value) == p
        R.ob('C03.flags', 'Frame.__init__ stores %s' % p, ok, 'self.%s is assigned %s' % (p, [U(s.value) for s in st]),
             func=init, node=(st[0] if st else init.node), construct='Frame.__init__ field ' + p)
    # constructor sites in the session
    want = {SEND: {'fin': 1, 'mask': True, 'rsv1': 0, 'rsv2': 0, 'rsv3': 0},
            SENDC: {'fin': 1, 'mask': True, 'rsv1': 1, 'rsv2': 0, 'rsv3': 0}}
    for q, req in want.items():
        g = R.cfg(q)
        rd = ReachingDefs(g)
        ctors = [(n, c) for n in g.live_nodes() for c in n.calls
                 if any(t.kind == 'ctor' and t.cls in (FR, 'frame.CompressedFrame') for t in R.types.call_targets(c, g.ctx))]
        need(len(ctors) >= 1, '%s builds no Frame' % q)
        for (n, c) in ctors:
            for p, val in req.items():
                a = arg_of(c, init, p)
                if a is None:
                    a = default_of(init, p)
                v = fold(R, a, g.ctx) if a is not None else None
                R.ob('C03.flags', '%s: Frame(%s) == %r' % (q.rsplit('.', 1)[1], p, val), v is not None and v == val
                     and type(v) in (type(val), int, bool),
                     'outgoing frame constructed with %s=%s' % (p, U(a)), func=q, node=c,
                     construct='%s: Frame %s=%s' % (q.rsplit('.', 1)[1], p, U(a)))
            # the frame serialised is this frame
            tb = calls_to(R, g, FR + '.to_bytes')
            ok = False
            for (tn, tc) in tb:
                o, on = rd.origin(tn, tc.func.value)
                if o is c:
                    ok = True
            R.ob('C03.flags', '%s: the constructed frame is the one serialised' % q.rsplit('.', 1)[1], ok,
                 'to_bytes() is not called on the frame built here', func=q, node=c)
        # what is written is the serialisation
        wr = calls_to(R, g, 'session.WebsocketSession.write')
        ok = len(wr) == 1 and isinstance(wr[0][1].args[0], ast.Call) and \
            R.types.resolves_to(wr[0][1].args[0], g.ctx, FR + '.to_bytes') or \
            (len(wr) == 1 and isinstance(rd.origin(wr[0][0], wr[0][1].args[0])[0], ast.Call)
             and R.types.resolves_to(rd.origin(wr[0][0], wr[0][1].args[0])[0], g.ctx, FR + '.to_bytes'))
        R.ob('C03.flags', '%s: write(frame.to_bytes()) once' % q.rsplit('.', 1)[1], bool(ok),
             'the session does not write exactly the serialised frame once', func=q, node=R.func(q).node,
             construct=q + ' write')
    # to_bytes forwards field K as keyword K; omitted ones take build()'s defaults
    g = R.cfg(FR + '.to_bytes')
    bcalls = calls_to(R, g, FR + '.build')
    need(len(bcalls) == 1, 'to_bytes: expected one build() call')
    bc = bcalls[0][1]
    for p in ('opcode', 'payload', 'fin', 'rsv1', 'rsv2', 'rsv3', 'mask', 'masking_key'):
        a = arg_of(bc, build, p)
        if a is not None:
            ok = U(a) == 'self.' + p
            R.ob('C03.flags', 'to_bytes forwards %s' % p, ok, 'build(%s=%s): cross-wired' % (p, U(a)), func=tob, node=bc,
                 construct='to_bytes %s=%s' % (p, U(a)))
        else:
            d = default_of(build, p)
            v = fold(R, d, g.ctx) if d is not None else None
            req = {'fin': 1, 'mask': True, 'rsv1': 0, 'rsv2': 0, 'rsv3': 0}.get(p, None)
            ok = (p in ('masking_key',)) or (req is not None and v == req)
            R.ob('C03.flags', 'to_bytes omits %s: default must be the client value' % p, ok,
                 'build() default for %s is %s' % (p, U(d)), func=tob, node=bc, construct='to_bytes default ' + p)
    # header byte expression in build()
    g = R.cfg(FR + '.build')
    rd = ReachingDefs(g)
    from .common import header_arms
    seen_arm = set()
    packs = []
    for (n, fmt, args, l) in header_arms(R, g, rd, g.entry):
        key_ = (n.id, fmt, tuple(U(a) for a in args))
        if key_ in seen_arm or len(args) < 2:
            continue
        seen_arm.add(key_)
        packs.append((n, args, fmt))
    need(len(set(f_ for (_, _, f_) in packs)) == 3, 'Frame.build: expected 3 header forms, found %s' % sorted(set(f_ for (_, _, f_) in packs)))
    for (n, args_, fmt) in packs:
        c = n.ast
        b0, bn = rd.origin(n, args_[0])
        coefs = _bitfield(b0)
        ok = coefs == {'fin': 128, 'rsv1': 64, 'rsv2': 32, 'rsv3': 16, 'opcode': 1}
        R.ob('C03.flags', 'header byte 0 layout (%s)' % fmt, ok, 'byte0 = %s gives bit weights %s' % (U(b0), coefs),
             func=build, node=c, construct='byte0 ' + U(b0))
        b1 = args_[1]
        parts = _or_parts(b1)
        mb = [p for p in parts if isinstance(p, ast.Name)]
        okm = False
        for p in mb:
            o, on = rd.origin(n, p)
            if isinstance(o, ast.IfExp) and U(o.test) == 'mask' and fold(R, o.body, g.ctx) == 128 \
                    and fold(R, o.orelse, g.ctx) == 0:
                okm = True
        R.ob('C03.flags', 'mask bit is bit 7 of byte 1 (%s)' % fmt, okm, 'byte1 = %s' % U(b1), func=build, node=c,
             construct='byte1 ' + U(b1))


def _or_parts(e):
    if isinstance(e, ast.BinOp) and isinstance(e.op, (ast.BitOr, ast.Add)):
        return _or_parts(e.left) + _or_parts(e.right)
    return [e]


def _bitfield(e):
    out = {}
    for p in _or_parts(e):
        if isinstance(p, ast.BinOp) and isinstance(p.op, ast.LShift) and isinstance(p.left, ast.Name) \
                and isinstance(p.right, ast.Constant):
            out[p.left.id] = out.get(p.left.id, 0) + (1 << p.right.value)
        elif isinstance(p, ast.BinOp) and isinstance(p.op, ast.Mult) and isinstance(p.left, ast.Name) \
                and isinstance(p.right, ast.Constant):
            out[p.left.id] = out.get(p.left.id, 0) + p.right.value
        elif isinstance(p, ast.Name):
            out[p.id] = out.get(p.id, 0) + 1
        else:
            out['?' + U(p)] = 1
    return out


# ---------------------------------------------------------------------------------------------- lenenc
def lenenc(R):
    q = 'frame.Frame.build'
    f = R.func(q)
    g = R.cfg(q)
    rd = ReachingDefs(g)
    # the length variable: len(<payload object that is masked/serialised>)
    lenvars = [n for n in g.live_nodes() if n.kind == 'stmt' and isinstance(n.ast, ast.Assign)
               and isinstance(n.ast.value, ast.Call) and U(n.ast.value.func) == 'len']
    need(len(lenvars) == 1, 'Frame.build: length variable not found')
    lv = lenvars[0].ast.targets[0].id
    lenof = U(lenvars[0].ast.value.args[0])
    from .common import header_arms
    caps = {'!BB': (0, 125, None), '!BBH': (126, 65535, 126), '!BBQ': (65536, (1 << 63) - 1, 127)}
    got = {}
    byfmt = {}
    for (n, fmt, args, l) in header_arms(R, g, rd, lenvars[0]):
        need(fmt in caps, 'unexpected header format %s' % fmt)
        a, b = interval_of(R, g.ctx, l, lv)
        e = byfmt.setdefault(fmt, {'lo': INF, 'hi': -INF, 'args': [], 'node': n})
        e['lo'] = min(e['lo'], max(a, 0))
        e['hi'] = max(e['hi'], b)
        e['args'].append(args)
    need(len(byfmt) == 3, 'Frame.build: expected 3 length-class arms, found %s' % sorted(byfmt))
    for fmt, e in sorted(byfmt.items()):
        lo, hi = e['lo'], e['hi']
        c = e['node'].ast
        got[fmt] = (lo, hi)
        minlo, cap, marker = caps[fmt]
        R.ob('C03.lenenc', 'arm %s: capacity' % fmt, hi <= cap,
             'length up to %s is packed into a %s header (field capacity %d)' % (hi, fmt, cap), func=f, node=c,
             construct='arm %s hi=%s' % (fmt, hi))
        R.ob('C03.lenenc', 'arm %s: shortest encoding' % fmt, lo >= minlo,
             'length %s is encoded with the %s form although a shorter form fits' % (lo, fmt), func=f, node=c,
             construct='arm %s lo=%s' % (fmt, lo))
        # marker / length field
        for args in e['args']:
            parts = _or_parts(args[1])
            if marker is None:
                ok = any(isinstance(p, ast.Name) and p.id == lv for p in parts)
                R.ob('C03.lenenc', 'arm %s: 7-bit field carries the length' % fmt, ok, 'byte1 = %s' % U(args[1]),
                     func=f, node=c)
            else:
                ok = any(fold(R, p, g.ctx) == marker for p in parts) \
                    and len(args) == 3 and isinstance(args[2], ast.Name) and args[2].id == lv
                R.ob('C03.lenenc', 'arm %s: marker %d and extended length' % (fmt, marker), ok,
                     'pack(%s)' % ', '.join(U(a) for a in args), func=f, node=c)
    # coverage without gaps: 0..2^63-1
    ivs = sorted(got.values())
    cover = ivs[0][0] == 0 and all(ivs[i][1] + 1 == ivs[i + 1][0] for i in range(len(ivs) - 1)) \
        and ivs[-1][1] == (1 << 63) - 1
    R.ob('C03.lenenc', 'arms partition 0..2^63-1', cover, 'length intervals of the arms: %s' % ivs, func=f, node=f.node,
         construct='length arms %s' % ivs)
    R._c03_lenof = lenof


# ------------------------------------------------------------------------------------------------ mask
def mask(R):
    q = 'frame.Frame.build'
    f = R.func(q)
    g = R.cfg(q)
    rd = ReachingDefs(g)
    mcalls = calls_to(R, g, 'mask.mask_payload')
    need(len(mcalls) == 1, 'Frame.build: expected one mask_payload call, found %d' % len(mcalls))
    mn, mc = mcalls[0]
    key, data = mc.args[0], mc.args[1]
    gs = guards_of(g, mn)
    R.ob('C03.mask', 'masking happens whenever mask is set', any(t == 'mask' and p for (t, p, _) in gs)
         and len(gs) >= 1, 'mask_payload is not controlled by the mask flag alone: %s' % [(t, p) for t, p, _ in gs],
         func=f, node=mc)
    # key packed after header is the same definition
    pk = [(n, c) for n in g.live_nodes() for c in n.calls
          if (struct_format(R, g.ctx, c) or ('', ''))[1] == '4s']
    need(len(pk) == 1, 'Frame.build: mask key pack call not found')
    pn, pc = pk[0]
    same_key = isinstance(key, ast.Name) and isinstance(pc.args[0], ast.Name) and key.id == pc.args[0].id \
        and rd.defs_at(mn, key.id) == rd.defs_at(pn, key.id)
    R.ob('C03.mask', 'key used for masking is the key written', same_key,
         'mask_payload(%s, ...) but header carries %s' % (U(key), U(pc.args[0])), func=f, node=pc)
    # key definition: fresh when absent (conditional expression, or `if key is None: key = ...`)
    from .common import value_cases, otext
    ok = False
    if isinstance(key, ast.Name):
        cases = value_cases(R, g, mn, key)
        fresh_ok = keep_ok = False
        other = False
        NONE = '%s is None' % key.id
        for (conds, val, site) in cases:
            if isinstance(val, ast.Call) and _is_urandom4(R, g.ctx, val):
                if (NONE, True) in conds or len(cases) == 1:
                    fresh_ok = True
                else:
                    other = True
            elif isinstance(val, ast.Name) and val.id == key.id:
                keep_ok = True
            else:
                other = True
        # the caller's key may reach the masking call un-replaced only when it is not None
        param_ok = True
        if g.entry in rd.defs_at(mn, key.id):
            from .C04 import _paths_avoiding
            redefs = set(d for d in rd.defs_at(mn, key.id) if d is not g.entry)
            for l in _paths_avoiding(R, g, rd, g.entry, mn, redefs):
                if (NONE, False) not in l:
                    param_ok = False
        ok = fresh_ok and not other and param_ok
    R.ob('C03.mask', 'absent key is os.urandom(4)', ok, 'masking key is not drawn from os.urandom(4) when none is '
         'supplied', func=f, node=mc, construct='masking key source')
    # masked object == serialised object, and its length is the encoded length
    ser = None
    for n in g.live_nodes():
        if n.kind != 'stmt' or not isinstance(n.ast, (ast.Assign, ast.Return)):
            continue
        jv = n.ast.value
        from .common import concat_parts
        elts = concat_parts(jv)
        if elts is not None and len(elts) == 3 and mn in g.reachable([g.entry], avoid={n}) and n in g.succ_reach(mn):
            k_el = elts[1]
            ko, kon = rd.origin(n, k_el)
            order_ok = isinstance(elts[0], ast.Name) and ko is pc
            body = elts[2]
            if isinstance(body, ast.Name) and not (isinstance(data, ast.Name) and body.id == data.id):
                body = rd.origin(n, body)[0]          # masked bytes kept in a local first
            while isinstance(body, ast.Call) and U(body.func) in ('bytes', 'bytearray') and body.args:
                body = body.args[0]
            same_obj = isinstance(body, ast.Name) and isinstance(data, ast.Name) and body.id == data.id \
                and rd.defs_at(n, body.id) == rd.defs_at(mn, data.id)
            R.ob('C03.mask', 'frame = header | key | masked payload', order_ok and same_obj,
                 'serialisation order/object: %s' % U(jv), func=f, node=n.ast)
            ser = n
    R.ob('C03.mask', 'masked frame assembly found', ser is not None, 'b"".join((header, key, payload)) not found',
         func=f, node=mc, construct='masked frame assembly')
    R.ob('C03.mask', 'encoded length is the length of the masked object', isinstance(data, ast.Name)
         and getattr(R, '_c03_lenof', None) == data.id, 'length is len(%s) but %s is masked' % (
             getattr(R, '_c03_lenof', '?'), U(data)), func=f, node=mc, construct='length object')
    # mask_payload lanes
    q2 = 'mask.mask_payload'
    f2 = R.func(q2)
    kparam, dparam = f2.params[0], f2.params[1]
    unpack = [s for s in own_nodes(f2.node) if isinstance(s, ast.Assign) and isinstance(s.targets[0], ast.Tuple)]
    need(len(unpack) >= 1, 'mask_payload: table unpack not found')     # (several: a block-wise path - judged by the lane rules)
    names = [e.id for e in unpack[0].targets[0].elts]
    v = unpack[0].value
    g2 = R.cfg(q2)
    un = [n for n in g2.live_nodes() if n.ast is unpack[0]][0]
    from .common import otext_full
    it_txt = otext_full(R, g2, un, v.generators[0].iter) if isinstance(v, (ast.GeneratorExp, ast.ListComp)) else ''
    okt = isinstance(v, (ast.GeneratorExp, ast.ListComp)) and isinstance(v.elt, ast.Subscript) \
        and U(v.elt.value) == '_XOR_TABLE' and U(v.elt.slice) == U(v.generators[0].target) \
        and it_txt in ('bytearray(%s)' % kparam, kparam) and len(names) == 4
    R.ob('C03.mask', 'tables selected by key bytes in order', okt, 'tables: %s' % U(v), func=f2, node=unpack[0])
    # masking is in place on the caller's bytearray: the parameter is never re-bound (data = data[k:] makes a copy - what
    # is masked afterwards is the copy, the caller's tail stays unmasked), and every lane covers the whole buffer
    rebinds = [s_ for s_ in own_nodes(f2.node) if isinstance(s_, (ast.Assign, ast.AugAssign)) and any(
        isinstance(t, ast.Name) and t.id == dparam for t in (s_.targets if isinstance(s_, ast.Assign) else [s_.target]))]
    R.ob('C03.mask', 'mask_payload works on the caller\'s buffer', not rebinds,
         'mask_payload re-binds its `%s` parameter (%s): a slice of a bytearray is a copy, so the bytes masked after that '
         'are not the caller\'s - part of the frame goes out unmasked' % (dparam, U(rebinds[0]) if rebinds else ''),
         func=f2, node=(rebinds[0] if rebinds else None), construct='mask_payload re-binds its buffer')
    stores = [s_ for s_ in own_nodes(f2.node) if isinstance(s_, ast.Assign) and isinstance(s_.targets[0], ast.Subscript)
              and U(s_.targets[0].value) == dparam]
    partial = [s_ for s_ in stores if not (isinstance(s_.targets[0].slice, ast.Slice) and s_.targets[0].slice.upper is None
                                           and U(s_.targets[0].slice.step) == '4')]
    R.ob('C03.mask', 'every store masks a whole lane', not partial,
         'mask_payload writes `%s`: only part of the buffer is masked by that statement (a fast path next to the four '
         'lanes must itself be proved to cover exactly the rest)' % (U(partial[0].targets[0]) if partial else ''), func=f2,
         node=(partial[0] if partial else None), construct='partial mask store')
    lanes = {}

    def lane_ok(tgt, val, i, table_name):
        sl = tgt.slice
        return isinstance(val, ast.Call) and isinstance(val.func, ast.Attribute) and val.func.attr == 'translate' \
            and U(val.func.value) == U(tgt) and len(val.args) == 1 and isinstance(val.args[0], ast.Name) \
            and val.args[0].id == table_name

    for s_ in own_nodes(f2.node):
        if isinstance(s_, ast.Assign) and isinstance(s_.targets[0], ast.Subscript) and U(s_.targets[0].value) == dparam:
            sl = s_.targets[0].slice
            if isinstance(sl, ast.Slice) and sl.step is not None and U(sl.step) == '4' and sl.upper is None:
                i = 0 if sl.lower is None else fold(R, sl.lower, None)
                if i in (0, 1, 2, 3):
                    ok = lane_ok(s_.targets[0], s_.value, i, names[i])
                    lanes[i] = ok
                    R.ob('C03.mask', 'lane %s' % i, ok, 'lane %s: %s' % (i, U(s_)), func=f2, node=s_)
                elif isinstance(sl.lower, ast.Name):
                    # loop form: for i, table in enumerate((t0, t1, t2, t3)): data[i::4] = data[i::4].translate(table)
                    parents = R.types.parents(f2)
                    p_ = parents.get(id(s_))
                    okl = isinstance(p_, ast.For) and isinstance(p_.target, ast.Tuple) and len(p_.target.elts) == 2 \
                        and U(p_.target.elts[0]) == sl.lower.id and isinstance(p_.iter, ast.Call) and U(p_.iter.func) == 'enumerate' \
                        and len(p_.iter.args) == 1 and isinstance(p_.iter.args[0], (ast.Tuple, ast.List)) \
                        and [U(e) for e in p_.iter.args[0].elts] == names \
                        and lane_ok(s_.targets[0], s_.value, None, U(p_.target.elts[1]))
                    for i in range(4):
                        lanes[i] = okl
                        R.ob('C03.mask', 'lane %s' % i, okl, 'lanes masked by %s' % U(p_)[:120], func=f2, node=s_)
                else:
                    raise AnalysisError('C03.mask: unrecognised lane form %s' % U(s_))
    R.ob('C03.mask', 'all four lanes masked', sorted(lanes) == [0, 1, 2, 3], 'lanes present: %s' % sorted(lanes),
         func=f2, node=f2.node, construct='mask lanes')
    # _XOR_TABLE[b][a] == a ^ b
    m = R.prog.modules['mask']
    vals = m.globals.get('_XOR_TABLE', [])
    live = [s for s in m.live if isinstance(s, ast.Assign) and U(s.targets[0]) == '_XOR_TABLE']
    okx = False
    if len(live) == 1:
        t = live[0].value
        if isinstance(t, ast.ListComp) and U(t.generators[0].iter) == 'range(256)' and isinstance(t.elt, ast.Call) \
                and U(t.elt.func) == 'bytes' and isinstance(t.elt.args[0], ast.GeneratorExp):
            inner = t.elt.args[0]
            a, b = U(inner.generators[0].target), U(t.generators[0].target)
            okx = U(inner.generators[0].iter) == 'range(256)' and isinstance(inner.elt, ast.BinOp) \
                and isinstance(inner.elt.op, ast.BitXor) and {U(inner.elt.left), U(inner.elt.right)} == {a, b}
    if not okx:
        # decided by value: the table is evaluated (constant comprehensions, a pure builder function)
        from ..consteval import module_consts
        tv = module_consts(R, 'mask').get('_XOR_TABLE')
        try:
            okx = isinstance(tv, (list, tuple)) and len(tv) == 256 and all(bytes(tv[b]) == bytes(a ^ b for a in range(256)) for b in range(256))
        except Exception:
            okx = False
    R.ob('C03.mask', 'XOR tables', okx, '_XOR_TABLE is not [bytes(a ^ b for a in range(256)) for b in range(256)]',
         func=f2, node=(live[0] if live else f2.node), construct='_XOR_TABLE')


def _is_urandom4(R, ctx, call):
    ts = R.types.call_targets(call, ctx)
    if not ts or not all(t.kind == 'ext' and t.name == 'os.urandom' for t in ts):
        return False
    if call.args:
        return fold(R, call.args[0], ctx) == 4
    # partial(os.urandom, 4)
    fn = call.func
    if isinstance(fn, ast.Name):
        r = R.prog.lookup(ctx.func.module, fn.id)
        if r and r[0] == 'global':
            m = R.prog.modules[r[1]]
            vs = m.globals.get(r[2], [])
            return len(vs) == 1 and isinstance(vs[0], ast.Call) and U(vs[0].func) == 'partial' \
                and len(vs[0].args) == 2 and U(vs[0].args[0]) == 'os.urandom' and U(vs[0].args[1]) == '4'
    return False


# --------------------------------------------------------------------------------------------- private
def private(R):
    copies = True
    for q in (SEND, SENDC):
        g = R.cfg(q)
        f = R.func(q)
        init = R.func('frame.Frame.__init__')
        for n in g.live_nodes():
            for c in n.calls:
                if any(t.kind == 'ctor' and t.cls.startswith('frame.') for t in R.types.call_targets(c, g.ctx)):
                    a = arg_of(c, init, 'payload')
                    fresh = isinstance(a, ast.Call) and U(a.func) in ('bytearray', 'bytes') and len(a.args) == 1
                    if not fresh:
                        copies = False
                        # a buffer that lives in the session (or anywhere longer than the call) is filled and masked outside
                        # the write lock: two sends at once build their frames in the same bytes
                        from .common import g_rd
                        for (oe, on) in g_rd(g).origins(n, a):
                            if isinstance(oe, ast.Attribute) or (isinstance(oe, ast.Subscript) and isinstance(oe.value, ast.Attribute)):
                                R.ob('C03.private', 'the frame payload buffer belongs to one send', False,
                                     '%s() builds the frame in `%s`, a buffer kept between calls: it is filled and masked before '
                                     'the write lock is taken, so a second send on another thread overwrites the payload of the '
                                     'first while its frame is being built (header of one, bytes of the other on the wire)'
                                     % (q.rsplit('.', 1)[1], U(oe)), func=q, node=c, construct='shared payload buffer %s' % U(oe))
    if copies:
        R.ob('C03.private', 'session.send copies the payload', True, 'bytearray(data) made in send()/send_compressed()',
             func=SEND, node=None)
        R.ob('C03.private', 'caller data immutable or copied', True, 'copy made by the session', func=SEND, node=None)
        return
    # no copy in the session: Frame.build must copy bytes, and every payload handed over must be bytes/fresh
    g = R.cfg('frame.Frame.build')
    rd = ReachingDefs(g)
    conv = [n for n in g.live_nodes() if n.kind == 'stmt' and isinstance(n.ast, ast.Assign)
            and isinstance(n.ast.value, ast.IfExp) and U(n.ast.value.test).startswith('isinstance(payload, bytes')
            and U(n.ast.value.body) == 'bytearray(payload)']
    mcalls = calls_to(R, g, 'mask.mask_payload')
    okb = bool(conv) and all(rd.defs_at(n, 'payload') == {conv[0]} for (n, c) in mcalls)
    R.ob('C03.private', 'Frame.build copies immutable payloads before masking', okb,
         'neither the session nor Frame.build makes a private copy before masking in place', func='frame.Frame.build',
         node=(mcalls[0][1] if mcalls else None))
    for name in SENDERS:
        q = WS + '.' + name
        g = R.cfg(q)
        rd = ReachingDefs(g)
        for (n, call) in send_sites(R, g):
            data = call.args[1]
            ok = True
            why = ''
            for (oe, on) in rd.origins(n, data):
                if isinstance(oe, ast.Call):
                    continue          # freshly built value
                if isinstance(oe, ast.Name) and on is g.entry:
                    tys = set()
                    for t in _isinstance_guard(R, g, n, oe.id):
                        tys |= _type_names(R, g.ctx, t)
                    if tys != {'bytes'}:
                        ok = False
                        why = 'parameter %s may be a mutable buffer (accepted types: %s) and is masked in place' % (
                            oe.id, sorted(tys))
                else:
                    ok = False
                    why = 'payload %s is neither fresh nor immutable' % U(oe)
            R.ob('C03.private', '%s: payload handed to the session is immutable or fresh' % name, ok, why,
                 func=q, node=call)


# -------------------------------------------------------------------------------------------- rsv1gate
def rsv1gate(R, RID='C03.rsv1gate'):
    from .common import sites_through_helpers, lift_arg, facts, g_rd
    n_sites = 0
    reached = set()
    for name in ('send_text', 'send_binary'):
        q = WS + '.' + name
        f = R.func(q)
        want_op = {'send_text': 1, 'send_binary': 2}[name]
        csites = sites_through_helpers(R, q, WS, lambda c, g: R.types.resolves_to(c, g.ctx, SENDC))
        psites = sites_through_helpers(R, q, WS, lambda c, g: R.types.resolves_to(c, g.ctx, SEND))
        for (g, n, call, chain) in csites:
            n_sites += 1
            reached.add(id(call))
            rd = g_rd(g)
            fx = facts(R, g, n)
            # a truthy test of a name that is (through the helper chain) the public method's `compress` parameter
            cparam = False
            for (t_, p_) in fx:
                if p_ and t_.isidentifier():
                    lg, ln, le = lift_arg(R, g, n, ast.Name(id=t_, ctx=ast.Load()), chain)
                    if isinstance(le, ast.Name) and le.id == 'compress' and lg.ctx.func.qual == q and \
                            g_rd(lg).defs_at(ln, 'compress') == {lg.entry}:
                        cparam = True
            state = ('self.state.compression', True) in fx
            where = g.ctx.func.name
            R.ob(RID, '%s: compressed send gated (%s)' % (name, where), cparam and state,
                 'send_compressed reachable without `compress and self.state.compression` (facts %s)' % sorted(
                     t_ for (t_, p_) in fx if p_)[:6], func=g.ctx.func, node=call)
            # the payload sent compressed is the output of compression.compress(<payload>)
            o, on = rd.origin(n, call.args[1])
            okc = isinstance(o, ast.Call) and R.types.resolves_to(o, g.ctx, 'compression.Deflate.compress')
            R.ob(RID, '%s: RSV1 payload is compress() output (%s)' % (name, where), okc,
                 'send_compressed payload is %s' % U(o), func=g.ctx.func, node=call)
        # opcode parity between the two arms (lifted through helper parameters)
        ops = set()
        for (g, n, call, chain) in csites + psites:
            lg, ln, le = lift_arg(R, g, n, call.args[0], chain)
            ops.add(fold(R, le, lg.ctx))
        R.ob(RID, '%s: both arms use one opcode' % name, ops == {want_op}, 'opcodes used: %s' % sorted(map(str, ops)), func=q,
             node=f.node, construct=name + ' opcodes')
    need(n_sites >= 2, 'fewer than 2 send_compressed call sites reachable from send_text / send_binary')
    # every send_compressed call in the package is one of those (no other producer of RSV1 frames)
    other = [c_.func.qual for (c_, call, t) in R.types.callers.get(SENDC, []) if id(call) not in reached]
    R.ob(RID, 'no other producer of compressed frames', not other, 'send_compressed also called from %s' % sorted(set(other)),
         func=SENDC, node=None, construct='other send_compressed callers %s' % sorted(set(other)))
    # whatever went through the shared compressor must go out as a compressed frame on every path
    seen = set()
    for (c_, call, t) in R.types.callers.get('compression.Deflate.compress', []):
        if (c_.func.qual, id(call)) in seen or (c_.func.cls is not None and c_.recv != c_.func.cls.qual):
            continue
        seen.add((c_.func.qual, id(call)))
        g = R.cfg(c_.func.qual, c_.recv)
        comp = [(n, c) for n in g.live_nodes() for c in n.calls if c is call]
        sc = [n for (n, c) in calls_to(R, g, SENDC)]
        plain = [n for (n, c) in calls_to(R, g, SEND)]
        for (cn, cc) in comp:
            ok = all_paths_pass(g, normal_succs(cn), sc, [g.exit], skip_edge=nx) and \
                not any(p in g.succ_reach(cn, skip_edge=nx) for p in plain)
            R.ob(RID, '%s: compressor output is always sent compressed' % c_.func.name, ok,
                 'after compress() has updated the shared deflate context a path sends the message uncompressed '
                 '(or not at all): the peer\'s inflate context drifts', func=c_.func, node=cc)


# ---------------------------------------------------------------------------------------------- closep
def closep(R):
    q = 'frame.Frame.build_close_payload'
    f = R.func(q)
    g = R.cfg(q)
    rd = ReachingDefs(g)
    status, reason = [p for p in f.params if p not in ('cls', 'self')][:2]
    rets = [n for n in g.live_nodes() if n.kind == 'stmt' and isinstance(n.ast, ast.Return)]
    main = []
    for r in rets:
        v, vn = rd.origin(r, r.ast.value)
        if isinstance(v, ast.Constant):
            gs = {(t, p) for (t, p, _) in guards_of(g, r)}
            R.ob('C03.close', 'empty payload only without a status', ('%s is None' % status, True) in gs,
                 'constant payload %s returned under %s' % (U(v), sorted(gs)), func=f, node=r.ast)
            continue
        main.append((r, v, vn))
    need(main, 'build_close_payload: no computed payload')
    # the text reason is encoded leniently: close() must not fail with UnicodeEncodeError (a lone surrogate in the reason)
    # after which no Close frame is written and the websocket stays open for further sends
    encs = [c for n in g.live_nodes() for c in n.calls if isinstance(c.func, ast.Attribute) and c.func.attr == 'encode']
    for c in encs:
        errs = [k.value for k in c.keywords if k.arg == 'errors'] + list(c.args[1:2])
        lenient = any(isinstance(e_, ast.Constant) and e_.value in ('replace', 'ignore', 'backslashreplace', 'surrogatepass',
                                                                    'surrogateescape', 'xmlcharrefreplace') for e_ in errs)
        R.ob('C03.close', 'the reason text is encoded without the possibility of failure', lenient,
             '`%s` can raise UnicodeEncodeError (lone surrogates): close(code, reason) then raises something that is not '
             'ValueError / TypeError, writes no Close frame and leaves the websocket open' % U(c)[:60], func=f, node=c,
             construct='close reason encoding')
    for (r, v, vn) in main:
        ok = isinstance(v, ast.BinOp) and isinstance(v.op, ast.Add) and isinstance(v.left, ast.Call) \
            and (struct_format(R, g.ctx, v.left) or ('', ''))[1] == '!H' and U(v.left.args[0]) == status \
            and isinstance(v.right, ast.Name) and v.right.id == reason
        R.ob('C03.close', 'payload = !H status + reason', ok, 'close payload is %s' % U(v), func=f, node=v)
        # reason at that point: bytes parameter or its utf-8 encoding
        okr = True
        why = ''
        for d in rd.defs_at(vn, reason):
            if d is g.entry:
                # reaching as the raw parameter: must be under isinstance(reason, bytes)
                pcs = path_conditions(R, g, rd, g.entry, vn)
                for l in pcs:
                    if ('isinstance(%s, bytes)' % reason, False) in l and True:
                        pass
                continue
            val = rd.value_of_def(d, reason)
            if not (isinstance(val, ast.Call) and isinstance(val.func, ast.Attribute) and val.func.attr == 'encode'
                    and U(val.func.value) == reason and val.args and isinstance(val.args[0], ast.Constant)
                    and str(val.args[0].value).lower().replace('_', '-') in ('utf-8', 'utf8')):
                okr = False
                why = 'reason re-bound to %s' % U(val)
            else:
                gs = {(t, p) for (t, p, _) in guards_of(g, d)}
                if ('isinstance(%s, bytes)' % reason, False) not in gs:
                    okr = False
                    why = 'encode() not restricted to non-bytes reasons'
        # raw parameter may only reach the concatenation when it is bytes
        if g.entry in rd.defs_at(vn, reason):
            enc = [d for d in rd.defs_at(vn, reason) if d is not g.entry]
            if not enc:
                okr = False
                why = 'text reasons are never encoded'
        R.ob('C03.close', 'reason is UTF-8 bytes', okr, why, func=f, node=v)
