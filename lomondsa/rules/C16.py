"""C16 - persist() reconnects forever with bounded, growing, resettable back-off."""
import ast

from ..program import AnalysisError, U, own_nodes, walk_no_nested
from ..dataflow import ReachingDefs, defs_of_node
from .common import (need, guards_of, calls_to, all_paths_pass, succs, normal_succs, arg_of, is_param)

PROPERTY = 'C16'
LEVEL = 'other'
EXPLANATION = (
    'Static shape check of persist.persist on the current sources: loop/exit structure (exit only through '
    'the exit event), unconditional pass-through of connection events, exactly one BackOff per attempt whose '
    'delay is the value waited on, a symbolic interval evaluation of the delay expression proving '
    '[min_wait, min_wait + min(max_wait - min_wait, 2**retries)], the retry-counter write discipline, '
    'forwarding of poll/ping parameters, and emptiness of the exception set that can escape the connection '
    'generator. Decides the shape premises, not the random distribution.')
NOT_DECIDED = 'distribution of the random draw; behaviour for max_wait < min_wait; timing of exit_event.wait'
ASSUMPTIONS = ['random.random() returns a float in [0, 1)', 'max_wait >= min_wait (configuration)',
               'retries is a non-negative integer (established by the counter-discipline rule)']

FN = 'persist.persist'


# ---- tiny symbolic interval domain: bounds are sets-of-linear-forms under Min ------------------
class Lin(object):
    def __init__(self, coefs=None, const=0):
        self.coefs = {k: v for k, v in (coefs or {}).items() if v != 0}
        self.const = const

    def key(self):
        return (tuple(sorted(self.coefs.items())), self.const)

    def __eq__(self, o):
        return isinstance(o, Lin) and self.key() == o.key()

    def __hash__(self):
        return hash(self.key())

    def add(self, o, sign=1):
        c = dict(self.coefs)
        for k, v in o.coefs.items():
            c[k] = c.get(k, 0) + sign * v
        return Lin(c, self.const + sign * o.const)

    def scale(self, k):
        return Lin({a: b * k for a, b in self.coefs.items()}, self.const * k)

    def __repr__(self):
        parts = ['%s%s' % ('' if v == 1 else '%g*' % v, k) for k, v in sorted(self.coefs.items())]
        if self.const or not parts:
            parts.append('%g' % self.const)
        return ' + '.join(parts)


class MinOf(object):
    """min over a set of linear forms (a single form is MinOf({f}))."""
    def __init__(self, forms):
        self.forms = frozenset(forms)

    def __eq__(self, o):
        return isinstance(o, MinOf) and self.forms == o.forms

    def __repr__(self):
        fs = sorted(map(repr, self.forms))
        return fs[0] if len(fs) == 1 else 'min(%s)' % ', '.join(fs)


class Unsupported(Exception):
    pass


def nonneg(form, facts):
    """Is a linear form provably >= 0 from the facts (list of Lin known >= 0)?"""
    if not form.coefs:
        return form.const >= 0
    for f in facts:
        # form == f + c with c >= 0
        d = form.add(f, -1)
        if not d.coefs and d.const >= 0:
            return True
    return False


class DelayEval(object):
    """Evaluate the delay expression to (lo, hi) with lo, hi : MinOf."""

    def __init__(self, run, g, rd, params, exp_var_check):
        self.run = run
        self.g = g
        self.rd = rd
        self.params = params
        # facts: forms known to be >= 0
        self.P = 'P(2**retries)'
        self.facts = [Lin({'max_wait': 1, 'min_wait': -1}), Lin({self.P: 1}, -1)]
        self.exp_var_check = exp_var_check
        self.saw_pow = []

    def const(self, v):
        f = MinOf([Lin({}, v)])
        return (f, f)

    def ev(self, n, e):
        run = self.run
        if isinstance(e, ast.Constant) and isinstance(e.value, (int, float)) and not isinstance(e.value, bool):
            return self.const(e.value)
        if isinstance(e, ast.Name):
            if is_param(self.rd, n, e):
                f = MinOf([Lin({e.id: 1})])
                return (f, f)
            ds = self.rd.defs_at(n, e.id)
            if len(ds) == 1:
                d = next(iter(ds))
                v = self.rd.value_of_def(d, e.id)
                if v is not None:
                    return self.ev(d, v)
            if len(ds) > 1 and self.g.entry not in ds:
                # several definitions (a cap applied under a condition): any of them may be the value
                vals = []
                for d in sorted(ds, key=lambda d_: getattr(d_.ast, 'lineno', 0)):
                    v = self.rd.value_of_def(d, e.id)
                    if v is None:
                        raise Unsupported('name %s has a definition that is not a plain assignment' % e.id)
                    vals.append(self.ev(d, v))
                return self.join(vals)
            raise Unsupported('name %s has %d reaching definitions' % (e.id, len(ds)))
        if isinstance(e, ast.IfExp):
            arms = [a for a in (e.body, e.orelse) if not (isinstance(a, ast.Constant) and a.value is None)]
            if arms:
                return self.join([self.ev(n, a) for a in arms])
        if isinstance(e, ast.Call) and isinstance(e.func, ast.Name) and e.func.id == 'float' and len(e.args) == 1 and not e.keywords \
                and not run.types.name_types('float', self.g.ctx):
            return self.ev(n, e.args[0])            # float(x) of a number is x
        if isinstance(e, ast.Call) and U(e.func).rsplit('.', 1)[-1] in ('ldexp', 'exp2') and \
                any(t.kind == 'ext' and t.name in ('math.ldexp', 'math.exp2') for t in run.types.call_targets(e, self.g.ctx)):
            raise Unsupported('float-overflow: %s raises OverflowError once the exponent reaches 1024, which ends persist() by '
                              'itself; use the integer power 2**retries' % U(e)[:40])
        if isinstance(e, ast.BinOp):
            if isinstance(e.op, ast.LShift) and isinstance(e.left, ast.Constant) and e.left.value == 1 \
                    and type(e.left.value) is int:
                # 1 << n  ==  2 ** n  for the non-negative integer counter
                self.saw_pow.append((n, e.right))
                self.exp_var_check(n, e.right)
                f = MinOf([Lin({self.P: 1})])
                return (f, f)
            if isinstance(e.op, ast.Pow):
                if isinstance(e.left, ast.Constant) and e.left.value == 2 and type(e.left.value) is float:
                    raise Unsupported('float-overflow: 2.0 ** retries raises OverflowError once retries reaches 1024, '
                                      'which ends persist() by itself; use the integer power 2**retries')
                if isinstance(e.left, ast.Constant) and e.left.value == 2:
                    self.saw_pow.append((n, e.right))
                    self.exp_var_check(n, e.right)
                    f = MinOf([Lin({self.P: 1})])
                    return (f, f)
                raise Unsupported('power with base %s' % U(e.left))
            if isinstance(e.op, (ast.Add, ast.Sub)):
                l = self.ev(n, e.left)
                r = self.ev(n, e.right)
                if isinstance(e.op, ast.Add):
                    return (self.addm(l[0], r[0]), self.addm(l[1], r[1]))
                # a - b : lo = a.lo - b.hi ; only supported when b is exact single form
                if len(r[0].forms) == 1 and r[0] == r[1]:
                    b = next(iter(r[0].forms))
                    return (MinOf([f.add(b, -1) for f in l[0].forms]), MinOf([f.add(b, -1) for f in l[1].forms]))
                raise Unsupported('subtraction of a non-exact value')
            if isinstance(e.op, ast.Mult):
                # unit * x  with unit in [0,1)
                for a, b in ((e.left, e.right), (e.right, e.left)):
                    if self.is_unit_random(n, a):
                        x = self.ev(n, b)
                        if not all(nonneg(f, self.facts) for f in x[0].forms):
                            raise Unsupported('random() times a value not provably non-negative: %s' % U(b))
                        return (MinOf([Lin({}, 0)]), x[1])
                l = self.ev(n, e.left)
                r = self.ev(n, e.right)
                for a, b in ((l, r), (r, l)):
                    if a[0] == a[1] and len(a[0].forms) == 1 and not next(iter(a[0].forms)).coefs:
                        k = next(iter(a[0].forms)).const
                        if k >= 0:
                            return (MinOf([f.scale(k) for f in b[0].forms]), MinOf([f.scale(k) for f in b[1].forms]))
                raise Unsupported('product %s' % U(e))
        if isinstance(e, ast.Call) and U(e.func) in ('math.pow', 'pow') and len(e.args) == 2 and \
                any(t.kind == 'ext' and t.name == 'math.pow' for t in run.types.call_targets(e, self.g.ctx)):
            raise Unsupported('float-overflow: math.pow(2, retries) raises OverflowError once retries reaches 1024, '
                              'which ends persist() by itself; use the integer power 2**retries')
        if isinstance(e, ast.Call) and isinstance(e.func, ast.Name) and e.func.id in ('min', 'max') \
                and not run.types.name_types(e.func.id, self.g.ctx) and len(e.args) >= 2 and not e.keywords:
            vals = [self.ev(n, a) for a in e.args]
            if e.func.id == 'min':
                lo = set()
                hi = set()
                for v in vals:
                    lo |= v[0].forms
                    hi |= v[1].forms
                return (MinOf(lo), MinOf(hi))
            raise Unsupported('max(...) gives no upper bound below its largest argument')
        if isinstance(e, ast.Call) and len(e.args) == 2 and not e.keywords:
            ts = run.types.call_targets(e, self.g.ctx)
            names = set(t.name for t in ts if t.kind == 'ext')
            if names == {'random.uniform'}:
                # uniform(a, b) = a + (b - a) * random(): somewhere in [a, b]
                a_, b_ = self.ev(n, e.args[0]), self.ev(n, e.args[1])
                return (a_[0], b_[1])
            if names & {'random.randint', 'random.randrange'}:
                raise Unsupported('integer-only: %s accepts whole numbers only - with a float min_wait / max_wait (both are '
                                  'documented as floats) it raises TypeError / ValueError at the first back-off, which ends '
                                  'persist() by itself' % U(e.func))
        raise Unsupported('expression %s' % U(e))

    def join(self, vals):
        """Any of the values: lower bound = the least, upper bound = the greatest (expressible only when one upper bound is
        min() over a subset of the other's forms, hence the larger)."""
        lo = set()
        for v in vals:
            lo |= v[0].forms
        hi = vals[0][1]
        for v in vals[1:]:
            if v[1].forms <= hi.forms:
                hi = v[1]
            elif not (hi.forms <= v[1].forms):
                raise Unsupported('alternative definitions with incomparable upper bounds')
        return (MinOf(lo), hi)

    def addm(self, a, b):
        return MinOf([x.add(y) for x in a.forms for y in b.forms])

    def is_unit_random(self, n, e):
        e, n2 = self.rd.origin(n, e)
        if isinstance(e, ast.Call):
            ts = self.run.types.call_targets(e, self.g.ctx)
            return bool(ts) and all(t.kind == 'ext' and t.name == 'random.random' for t in ts)
        return False


def connect_at_loop(R, RID):
    """persist() starts an attempt where it iterates it: every websocket.connect(...) call is the iterable of a for loop.  A
    connect() evaluated earlier (before the back-off, to have the next attempt "lined up") has already replaced the
    WebSocket's state while the application still handles the events of the previous connection."""
    g = R.cfg(FN)
    cs = calls_to(R, g, 'websocket.WebSocket.connect')
    f0 = R.func(FN)
    wsp = f0.params[0]
    hidden = [x for x in ast.walk(f0.node) if isinstance(x, ast.Call) and isinstance(x.func, ast.Attribute)
              and x.func.attr == 'connect' and U(x.func.value) == wsp and not any(x is c_ for (_, c_) in cs)]
    for x in hidden:
        R.ob(RID, 'connect() is evaluated where its events are iterated', False,
             '`%s` sits in a nested function of persist(): the attempt is started wherever that function is called, not at the '
             'loop that consumes its events' % U(x)[:60], func=FN, node=x, construct='connect() call in a nested function')
    need(cs or hidden, 'persist(): no websocket.connect(...) call')
    for (n, c) in cs:
        ok = (n.kind == 'forinit' and n.ast is c) or (n.kind == 'for' and getattr(n.ast, 'iter', None) is c)
        R.ob(RID, 'connect() is evaluated where its events are iterated', ok,
             '`%s` calls websocket.connect() outside the header of the loop that consumes it: the reset of the WebSocket happens '
             'at that call, i.e. before / while the previous connection\'s last events (BackOff) are handled' % n.text()[:60],
             func=FN, node=c, construct='connect() call site %s' % n.kind)


def check(run):
    R = run
    R.rule('C16.shared', 'objects created once per class / per function definition (class-level attributes, parameter '
           'defaults) are only read: no buffer, validator, poll object, header list or option dict is shared between '
           'connections', 1)
    from .common import shared_state
    shared_state(R, 'C16.shared')
    R.rule('C16.forever', 'normal exit of persist() is reachable only through a true test of a method of the '
                          'exit event; no return/raise statements; no break out of the connection loop', 3)
    R.rule('C16.passthrough', 'inside the connection loop the loop variable itself is yielded exactly once per '
                              'iteration on every path', 1)
    R.rule('C16.onebackoff', 'after the connection loop every path to the next attempt or to the exit yields '
                             'exactly one BackOff(d), and d is the value passed to exit_event.wait', 2)
    from .common import event_fields as _event_fields
    _event_fields(R, 'C16.onebackoff', ['BackOff'])      # BackOff reports the delay that is waited
    R.rule('C16.bounds', 'symbolic interval of the delay: lower bound min_wait, upper bound '
                         'min_wait + min(max_wait - min_wait, 2**retries)', 2)
    R.rule('C16.growth', 'retries: initialised to 0, +1 exactly once per attempt outside the event loop, reset to '
                         '0 only under event.name == "ready", no other writer, and it is the exponent of 2', 4)
    R.rule('C16.forward', 'connect() called once per attempt with poll, ping_rate, ping_timeout forwarded to the '
                          'same-named parameters', 3)
    R.rule('C16.noescape', 'no exception class can escape the connection event generator (it would end persist())', 1)
    from .common import exception_text_total as _ett
    _ett(R, 'C16.noescape')        # '{}'.format(error) in the failure handlers cannot itself fail

    f = R.func(FN)
    g = R.cfg(FN)
    rd = ReachingDefs(g)
    ctx = g.ctx
    need('exit_event' in f.params, 'persist() lost its exit_event parameter')
    connect_at_loop(R, 'C16.forward')

    # --- locate the connection loop: a for whose iterable is a call to WebSocket.connect
    conn_for = []
    for n in g.live_nodes():
        if n.kind == 'for':
            it, _ = rd.origin(n, n.ast.iter)
            if isinstance(it, ast.Call) and R.types.resolves_to(it, ctx, 'websocket.WebSocket.connect'):
                conn_for.append((n, it))
    need(len(conn_for) >= 1, 'no loop over websocket.connect(...) found in persist()')
    R.ob('C16.forward', 'single connect loop', len(conn_for) == 1,
         '%d loops over connect() found' % len(conn_for), func=FN, node=conn_for[0][0].ast)
    fornode, conn_call = conn_for[0]
    loop_stmt = fornode.ast
    loopvar = loop_stmt.target.id if isinstance(loop_stmt.target, ast.Name) else None
    need(loopvar is not None, 'connection loop target is not a simple name')

    # --- C16.forever
    def exit_event_call(n, e):
        """e (evaluated at n) is a method call on the exit event"""
        if isinstance(e, ast.Call) and isinstance(e.func, ast.Attribute):
            base, bn = rd.origin(n, e.func.value)
            if isinstance(base, ast.Name) and base.id == 'exit_event':
                return True
            # exit_event may have been re-bound from threading.Event() when None
            if isinstance(e.func.value, ast.Name) and e.func.value.id == 'exit_event':
                return True
        return False

    # exit edges: branch edges whose being taken implies that a method of the exit event returned true - either the
    # test is the call itself, or it tests a flag whose every reaching definition is such a call or a false constant
    exit_edges = set()
    exit_tests = []
    wait_sites = []          # (node, call) of exit_event.wait(...) feeding an exit test
    for t in g.live_nodes():
        if t.kind != 'test':
            continue
        e = t.ast
        neg = False
        while isinstance(e, ast.UnaryOp) and isinstance(e.op, ast.Not):
            e = e.operand
            neg = not neg
        lab = 'false' if neg else 'true'
        if exit_event_call(t, e):
            exit_edges.add((t, lab))
            exit_tests.append(t)
            if e.func.attr == 'wait':
                wait_sites.append((t, e))
        elif isinstance(e, ast.Name):
            ds = rd.defs_at(t, e.id)
            calls_ = []
            okf = bool(ds)
            for d in ds:
                v = rd.value_of_def(d, e.id) if d is not g.entry else None
                if v is not None and exit_event_call(d, v):
                    calls_.append((d, v))
                elif isinstance(v, ast.Constant) and not v.value:
                    pass
                else:
                    okf = False
            if okf and calls_:
                exit_edges.add((t, lab))
                exit_tests.append(t)
                wait_sites += [(d, v) for (d, v) in calls_ if v.func.attr == 'wait']

    def skip(a, b, l):
        return l.startswith('exc:') or (a, l) in exit_edges
    reach = g.reachable([g.entry], skip_edge=skip)
    R.ob('C16.forever', 'exit only through the exit event', g.exit not in reach,
         'function end is reachable without a true test on exit_event', func=FN, node=f.node,
         construct='persist: normal exit reachable bypassing exit_event')
    R.ob('C16.forever', 'an exit exists', g.exit in g.reachable([g.entry]) and bool(exit_tests),
         'no way out of persist() through the exit event', func=FN, node=f.node, construct='persist: no exit')
    # the event that is waited on is the caller's whenever one was passed: the parameter is replaced only when it is None
    # (a truthiness test would discard a caller's event object that is falsy while unset)
    for d in g.live_nodes():
        if d is g.entry or 'exit_event' not in defs_of_node(d):
            continue
        v = rd.value_of_def(d, 'exit_event')
        gl = {(t_, p_) for (t_, p_, _) in guards_of(g, d)}
        okd = ('exit_event is None', True) in gl
        if not okd and isinstance(v, ast.IfExp):
            tt = U(v.test)
            okd = (tt == 'exit_event is None' and U(v.orelse) == 'exit_event') or \
                  (tt == 'exit_event is not None' and U(v.body) == 'exit_event')
        R.ob('C16.forever', 'a supplied exit event is never replaced', okd,
             'exit_event is re-bound by `%s` under %s: an event object passed by the caller that is falsy (while unset) is '
             'thrown away and persist() waits on a private event nobody can set' % (d.text()[:80], sorted(gl)), func=FN,
             node=d.ast, construct='exit_event re-bound')
    # a `return` is just another way to reach the function end and is covered by the reachability obligation above
    bad = [n for n in own_nodes(f.node) if isinstance(n, ast.Raise)]
    R.ob('C16.forever', 'no raise', not bad, 'raise statement in persist()',
         func=FN, node=bad[0] if bad else f.node)
    # break inside the connection loop (nearest loop is the connection loop)
    parents = R.types.parents(f)
    for n in own_nodes(f.node):
        if isinstance(n, ast.Break):
            p = parents.get(id(n))
            while p is not None and not isinstance(p, (ast.For, ast.While)):
                p = parents.get(id(p))
            R.ob('C16.forever', 'break target', p is not loop_stmt,
                 'break leaves the connection-event loop early (events dropped / attempt abandoned)',
                 func=FN, node=n, construct='break in ' + U(loop_stmt.iter))
    # the wait argument
    wait_tests = wait_sites

    # --- C16.passthrough
    body_starts = succs(fornode, 'body')
    body_nodes = g.reachable(body_starts, avoid={fornode}, skip_edge=lambda a, b, l: l.startswith('exc:'))
    ylds = [n for n in body_nodes if n.kind == 'yield']
    def _is_loopvar(y):
        v = y.ast.value
        if not isinstance(v, ast.Name):
            return False
        if v.id == loopvar:
            return rd.defs_at(y, loopvar) == {fornode}
        o, on = rd.origin(y, v)           # a local copy of the loop variable
        return isinstance(o, ast.Name) and o.id == loopvar and rd.defs_at(on, loopvar) == {fornode}
    good = [y for y in ylds if _is_loopvar(y)]
    R.ob('C16.passthrough', 'yield of the loop variable', len(good) == 1 and len(ylds) == 1,
         'expected exactly one `yield %s` (unmodified) in the loop body, found %d yields, %d of the loop variable'
         % (loopvar, len(ylds), len(good)), func=FN, node=loop_stmt, construct='for-body of ' + U(loop_stmt.iter))
    if good:
        y = good[0]
        ok = all_paths_pass(g, body_starts, [y], [fornode], skip_edge=lambda a, b, l: l.startswith('exc:'))
        R.ob('C16.passthrough', 'unconditional', ok, 'a path through the loop body skips the yield',
             func=FN, node=y.ast)
        again = g.succ_reach(y, avoid={fornode}, skip_edge=lambda a, b, l: l.startswith('exc:'))
        R.ob('C16.passthrough', 'once', y not in again, 'the event can be yielded twice in one iteration',
             func=FN, node=y.ast)

    # --- C16.onebackoff
    after = succs(fornode, 'exhausted')
    backoffs = []
    bo_call = {}
    for n in g.live_nodes():
        if n.kind == 'yield' and n.ast.value is not None:
            v, vn = rd.origin(n, n.ast.value)
            if isinstance(v, ast.Call) and any(t.kind == 'ctor' and t.cls == 'events.BackOff'
                                               for t in R.types.call_targets(v, ctx)):
                backoffs.append(n)
                bo_call[n] = (v, vn)
    need(backoffs, 'no `yield events.BackOff(...)` found in persist()')
    loopheads = [n for n in g.live_nodes() if n.kind == 'loophead']
    nx = lambda a, b, l: l.startswith('exc:')
    ok = all_paths_pass(g, after, backoffs, loopheads + [g.exit, fornode], skip_edge=nx)
    R.ob('C16.onebackoff', 'at least one BackOff per attempt', ok,
         'a path from the end of a connection attempt to the next attempt / exit yields no BackOff',
         func=FN, node=backoffs[0].ast)
    twice = False
    for b in backoffs:
        r = g.succ_reach(b, avoid={fornode}, skip_edge=nx)
        if any(b2 in r for b2 in backoffs):
            twice = True
    R.ob('C16.onebackoff', 'at most one BackOff per attempt', not twice,
         'two BackOff events can be yielded for one attempt', func=FN, node=backoffs[0].ast)
    # BackOff yielded anywhere else (e.g. inside the event loop)?
    stray = [b for b in backoffs if b in body_nodes]
    R.ob('C16.onebackoff', 'no BackOff inside the event loop', not stray, 'BackOff yielded inside the event loop',
         func=FN, node=(stray[0].ast if stray else backoffs[0].ast))
    delay_defs = []
    for b in backoffs:
        call, call_node = bo_call[b]
        arg = call.args[0] if call.args else (call.keywords[0].value if call.keywords else None)
        need(arg is not None, 'BackOff() called without a delay')
        for (w, wc) in wait_tests:
            warg = wc.args[0] if wc.args else (wc.keywords[0].value if wc.keywords else None)
            same = False
            if warg is not None:
                if isinstance(arg, ast.Name) and isinstance(warg, ast.Name) and arg.id == warg.id:
                    same = rd.defs_at(call_node, arg.id) == rd.defs_at(w, warg.id) and len(rd.defs_at(call_node, arg.id)) == 1
                else:
                    oa, na = rd.origin(call_node, arg)
                    ow, nw = rd.origin(w, warg)
                    same = (oa is ow)
            R.ob('C16.onebackoff', 'BackOff delay is the delay waited', same,
                 'BackOff(%s) but exit_event.wait(%s) - different values' % (U(arg), U(warg)),
                 func=FN, node=wc)
        delay_defs.append((call_node, arg))
    bi = R.func('events.BackOff.__init__')
    st = [s_ for s_ in own_nodes(bi.node) if isinstance(s_, ast.Assign) and U(s_.targets[0]) == 'self.delay']
    p0 = [p_ for p_ in bi.params if p_ != 'self'][0]
    R.ob('C16.onebackoff', 'BackOff reports the delay it was given', len(st) == 1 and U(st[0].value) == p0,
         'events.BackOff stores %s as its delay: the reported delay differs from the time actually waited and can leave '
         '[min_wait, max_wait]' % [U(s_.value) for s_ in st], func=bi, node=(st[0] if st else None))
    wn = [w for (w, wc) in wait_tests]
    okw = bool(wn) and all(all_paths_pass(g, normal_succs(b), wn, loopheads + [g.exit, fornode], skip_edge=nx) for b in backoffs)
    R.ob('C16.onebackoff', 'every BackOff is followed by the wait', okw,
         'after a BackOff event the next attempt (or the exit) can be reached without exit_event.wait(delay): the '
         'announced delay is not observed', func=FN, node=backoffs[0].ast, construct='persist: wait skipped')
    R.ob('C16.onebackoff', 'the exit test waits', bool(wait_tests),
         'persist() does not wait (exit_event.wait(delay)) between attempts', func=FN, node=f.node,
         construct='persist: no exit_event.wait')

    # --- C16.bounds
    exp_ok = []

    def exp_check(n, e):
        o, _ = rd.origin(n, e) if not isinstance(e, ast.Name) else (e, n)
        exp_ok.append(isinstance(e, ast.Name) and e.id == 'retries')
    for (b, arg) in delay_defs:
        ev = DelayEval(R, g, rd, f.params, exp_check)
        try:
            lo, hi = ev.ev(b, arg)
        except Unsupported as e:
            # max(...) / wrong shapes that are *evaluable but unbounded* are violations; unknown syntax is exit 2
            msg = str(e)
            if msg.startswith('max(') or 'not provably non-negative' in msg or msg.startswith('float-overflow') \
                    or msg.startswith('integer-only'):
                R.ob('C16.bounds', 'delay upper bound', False, 'delay %s: %s' % (U(arg), msg), func=FN, node=b.ast)
                continue
            raise AnalysisError('C16.bounds cannot evaluate the delay expression: %s' % msg)
        want_lo = MinOf([Lin({'min_wait': 1})])
        want_hi = MinOf([Lin({'max_wait': 1}), Lin({'min_wait': 1, ev.P: 1})])
        R.ob('C16.bounds', 'delay lower bound', lo == want_lo,
             'derived lower bound %r, required min_wait' % lo, func=FN, node=b.ast,
             construct='delay lower bound of ' + U(arg))
        R.ob('C16.bounds', 'delay upper bound', hi == want_hi,
             'derived upper bound %r, required min(max_wait, min_wait + 2**retries)' % hi, func=FN, node=b.ast,
             construct='delay upper bound of ' + U(arg))
        R.ob('C16.growth', 'exponent is the retry counter', bool(exp_ok) and all(exp_ok),
             'the exponent of 2 in the delay is not `retries`', func=FN, node=b.ast,
             construct='exponent in ' + U(arg))

    # --- C16.growth
    writers = [n for n in g.live_nodes() if 'retries' in __import__('lomondsa.dataflow', fromlist=['x']).defs_of_node(n)]
    incs, zeros, other = [], [], []
    for w in writers:
        a = w.ast
        if isinstance(a, ast.AugAssign) and isinstance(a.op, ast.Add) and isinstance(a.value, ast.Constant) \
                and a.value.value == 1 and isinstance(a.target, ast.Name):
            incs.append(w)
        elif isinstance(a, ast.Assign) and len(a.targets) == 1 and isinstance(a.targets[0], ast.Name) \
                and isinstance(a.value, ast.BinOp) and isinstance(a.value.op, ast.Add) \
                and {U(a.value.left), U(a.value.right)} == {'retries', '1'}:
            incs.append(w)
        elif isinstance(a, ast.Assign) and len(a.targets) == 1 and isinstance(a.value, ast.Constant) \
                and a.value.value == 0 and not isinstance(a.value.value, bool):
            zeros.append(w)
        else:
            other.append(w)
    R.ob('C16.growth', 'no foreign writer of retries', not other and 'retries' not in f.params,
         'unexpected write to retries', func=FN, node=(other[0].ast if other else f.node))
    init = [z for z in zeros if all(lh not in g.reachable([g.entry], avoid={z}) for lh in loopheads)]
    resets = [z for z in zeros if z not in init]
    R.ob('C16.growth', 'initialised to 0 before the loop', len(init) >= 1,
         'retries is not initialised to 0 before the reconnect loop', func=FN, node=f.node,
         construct='retries initialisation')
    for z in resets:
        gs = guards_of(g, z)
        ok = any(pol and _is_ready_test(t.ast, loopvar) for (txt, pol, t) in gs) and z in body_nodes
        if not ok and z in body_nodes:
            # the test may be kept in a flag / spelled the other way round: any equivalent form of a dominating guard
            from .common import guard_atom_sets
            want = {("%s.name == 'ready'" % loopvar, True), ("'ready' == %s.name" % loopvar, True)}
            ok = any(want & set(forms) for forms in guard_atom_sets(g, z))
        R.ob('C16.growth', 'reset only on ready', ok,
             'retries reset to 0 not guarded by %s.name == "ready" (guards: %s)' % (loopvar, [x[0] for x in gs]),
             func=FN, node=z.ast)
    R.ob('C16.growth', 'a reset on ready exists', bool(resets), 'retries is never reset after a successful upgrade',
         func=FN, node=f.node, construct='retries reset')
    for w in incs:
        R.ob('C16.growth', 'increment outside the event loop', w not in body_nodes,
             'retries incremented per event instead of per attempt', func=FN, node=w.ast)
        # the reset on ready must still be in force when the delay is computed: the attempt is counted before it starts
        late = [b for (b, arg) in delay_defs if b in g.succ_reach(w, avoid=set(loopheads) | {fornode}, skip_edge=nx)
                and w in g.succ_reach(fornode, avoid=set(loopheads), skip_edge=nx)]
        R.ob('C16.growth', 'the attempt is counted before it runs', not late,
             'retries is incremented between the connection loop and the back-off computation: after an attempt that reached '
             'Ready (retries reset to 0) the delay is drawn with 2**1 instead of 2**0, and every later one is a doubling too '
             'high', func=FN, node=w.ast, construct='increment after the attempt')
    if loopheads:
        lh = loopheads[0]
        ok = all_paths_pass(g, normal_succs(lh), incs, [lh], skip_edge=nx) and bool(incs)
        R.ob('C16.growth', 'incremented on every attempt', ok,
             'an attempt can complete without incrementing retries', func=FN, node=lh.ast,
             construct='retries increment per attempt')
        twice = any(any(i2 in g.succ_reach(i, avoid={lh}, skip_edge=nx) for i2 in incs) for i in incs)
        R.ob('C16.growth', 'incremented once per attempt', not twice, 'retries incremented twice per attempt',
             func=FN, node=lh.ast, construct='retries double increment')

    # --- C16.forward
    cf = R.func('websocket.WebSocket.connect')
    for name in ('poll', 'ping_rate', 'ping_timeout'):
        a = arg_of(conn_call, cf, name)
        ok = a is not None and isinstance(a, ast.Name) and a.id == name and name in f.params \
            and is_param(rd, fornode, a, name)
        R.ob('C16.forward', 'connect(%s=%s)' % (name, name), ok,
             'persist() passes %s for connect() parameter %s' % (U(a) if a is not None else 'nothing', name),
             func=FN, node=conn_call, construct='connect argument ' + name)
    # connect is evaluated once per attempt: the forinit node is on every loophead->fornode path
    # (trivially true when it is the for's own iterable) and not inside the event loop
    recv = _recv_origin(rd, fornode, conn_call)
    R.ob('C16.forward', 'connect on the websocket argument', recv, 'connect() is not called on the websocket '
         'parameter', func=FN, node=conn_call)

    # --- C16.noescape
    runctx = R.ctx('session.WebsocketSession.run')
    esc = sorted(R.exc.escapes(runctx))
    R.ob('C16.noescape', 'escape set of WebsocketSession.run', not esc,
         'exceptions %s can escape the connection generator and terminate persist()' % esc,
         func='session.WebsocketSession.run', node=runctx.func.node, construct='escapes: ' + ', '.join(esc))
    # ... and nothing can be raised while the attempt is being set up, before run() is entered with its handlers:
    # connect() adds nothing to what reset() may raise, and constructing the session cannot fail
    esc_c = R.exc.escapes(R.ctx('websocket.WebSocket.connect')) - R.exc.escapes(R.ctx('websocket.WebSocket.reset'))
    esc_i = R.exc.escapes(R.ctx('session.WebsocketSession.__init__'))
    R.ob('C16.noescape', 'setting up an attempt cannot raise', not esc_c and not esc_i,
         'exceptions %s can be raised by connect() / the session constructor before run() is entered (outside its '
         'ConnectFail handlers): they end persist() by themselves' % sorted(esc_c | esc_i),
         func='websocket.WebSocket.connect', node=None, construct='connect setup escapes %s' % sorted(esc_c | esc_i))
    # the escape set above rests on the error constructors not failing themselves
    from .common import message_templates
    message_templates(R, 'C16.noescape')


def _is_ready_test(e, loopvar):
    if isinstance(e, ast.Compare) and len(e.ops) == 1 and isinstance(e.ops[0], ast.Eq):
        sides = [U(e.left), U(e.comparators[0])]
        return ('%s.name' % loopvar) in sides and ("'ready'" in sides)
    return False


def _recv_origin(rd, n, call):
    f = call.func
    return isinstance(f, ast.Attribute) and isinstance(f.value, ast.Name) and f.value.id == 'websocket' \
        and is_param(rd, n, f.value, 'websocket')
