"""C11 - concurrent senders never corrupt the wire (lock-region discipline, schedule independent)."""
import ast

from ..program import AnalysisError, U, own_nodes, walk_no_nested
from ..dataflow import ReachingDefs
from .common import (need, guards_of, calls_to, ext_calls, all_paths_pass, succs, normal_succs, stores_in_package)
from . import C03

PROPERTY = 'C11'
LEVEL = 'other'
EXPLANATION = (
    'Lock-region analysis: a critical section is one `with <lock field>:` statement. Every write to the session socket '
    'must lie inside a section of the session lock (so frames are never torn or interleaved); frames are built in '
    'locals (no shared field is written between entering send() and write()); each send writes exactly once; the lock '
    'is created once per session and only ever used through `with`; and every call that mutates the shared deflate '
    'context must lie in the same critical-section *instance* as the write that transmits its output, otherwise '
    'compression order and wire order can differ under context takeover. The discipline is independent of the '
    'schedule; no interleaving is enumerated.'
    ' Also decided: package-wide isolation (objects created once per class or per function definition - class-level attributes, parameter defaults - are only read), so that no buffer, validator, cache, lock or option table is shared between connections by accident.')
NOT_DECIDED = 'specific interleavings; fairness; per-thread ordering beyond one-write-per-call'
ASSUMPTIONS = ['`with lock:` releases on every exit', 'socket.sendall writes its whole argument or raises']

S = 'session.WebsocketSession'
WS = 'websocket.WebSocket'
nx = lambda a, b, l: l.startswith('exc:')


def lock_frames(R, g, n):
    """`with` frames of node n whose context expression is a lock; returns list of (with node, lock expr text)."""
    out = []
    for fr in n.frames:
        if fr.kind == 'with':
            for it in fr.stmt.items:
                if 'x:lock' in R.types.expr(it.context_expr, g.ctx):
                    out.append((fr.node, U(it.context_expr)))
    return out


def check(run):
    R = run
    R.rule('C11.shared', 'objects created once per class / per function definition (class-level attributes, parameter '
           'defaults) are only read (no frame/header cache or lock shared across instances by accident); a failed '
           'sendall() is never re-issued', 3)
    from .common import shared_state, no_send_retry
    shared_state(R, 'C11.shared')
    no_send_retry(R, 'C11.shared')
    R.rule('C11.locked', 'every write to / close of the session socket is inside a critical section of the session lock', 3)
    R.rule('C11.private', 'no shared field is written while a frame is built (send -> to_bytes -> build -> mask)', 5)
    R.rule('C11.once', 'send() / send_compressed() call write() exactly once on every path', 2)
    R.rule('C11.single', 'one lock per session, created in __init__, used only through `with`', 2)
    R.rule('C11.ctx', 'every mutation of the shared deflate context is in the same critical-section instance as the '
                      'write that transmits its output', 2)
    R.rule('C11.wireorder', 'what went through the shared compressor is always transmitted, compressed', 4)
    R.rule('C11.onectx', 'one deflate context per connection, shared by all sending threads (no thread-local state); '
                         'no class-level mutable scratch state on the send path', 4)
    onectx(R)
    locked(R)
    private(R)
    once(R)
    writeonce(R)
    from . import C03
    R.rule('C11.frames', 'every frame put on the wire is self-delimiting (length encoding arms partition 0..2^63-1 with the '
                         'right markers), so that frames of different senders can be told apart', 8)
    with R.as_rule('C11.frames'):
        C03.lenenc(R)
        C03.flags(R)         # header bits as the peer reads them
        C03.mask(R)          # the key in the frame is the key the payload was masked with: drawn per frame, not from
                             # state shared between the sending threads
        C03.argcheck(R)      # only immutable bytes / text are accepted ...
        C03.private(R)       # ... and what is masked in place is a private copy: a buffer two senders share is not scrambled
    from . import C06, C08
    with R.as_rule('C11.wireorder'):
        C06.tail(R)          # compress() hands out a new bytes object per call (slice of the concatenation), not a shared buffer
        C08.server(R)        # the echo of a server Close is written after Closing was yielded and the closing state follows it
        C06.wiring(R)        # the shared deflate context is configured as negotiated (reset flags / windows not crossed)
    single(R)
    no_self_deadlock(R, 'C11.single')
    ctx(R)
    from . import C12 as _C12
    _C12.compression_writers(R, 'C11.onectx')
    C06.one_context(R, 'C11.onectx')
    C03.rsv1gate(R, RID='C11.wireorder')


def locked(R):
    from .common import effective_write_sites
    sites = effective_write_sites(R)
    need(sites, 'no write to the session socket found')
    for (g, n, c, via) in sites:
        q = g.ctx.func.qual
        lf = lock_frames(R, g, n)
        R.ob('C11.locked', 'socket write under the session lock (%s)' % q.rsplit('.', 1)[1], any(t == 'self._lock' for (_, t) in lf),
             'the socket write `%s` (via %s) is outside `with self._lock`: two senders can interleave the bytes of their '
             'frames' % (U(c), ' <- '.join(via)), func=q, node=c)
        # one frame = one write inside one section: no loop writing a frame in several locked pieces
        inloop = any(fr.kind == 'loop' for fr in n.frames)
        R.ob('C11.locked', 'a frame is written by one call inside one critical section (%s)' % q.rsplit('.', 1)[1], not inloop,
             'the socket write is inside a loop: a frame written in slices under separately acquired locks can be '
             'interleaved with another thread\'s frame', func=q, node=c)
    q = S + '._close_socket'
    g = R.cfg(q)
    for (n, c) in ext_calls(R, g, {'socket.close', 'socket.shutdown'}):
        lf = lock_frames(R, g, n)
        R.ob('C11.locked', '%s under the session lock' % U(c.func), any(t == 'self._lock' for (_, t) in lf),
             '%s outside `with self._lock`: the socket can be closed in the middle of another thread\'s frame' % U(c.func),
             func=q, node=c)
    # send()/send_compressed() hand the whole frame to write() in one call (no slicing)
    for q in (S + '.send', S + '.send_compressed'):
        g = R.cfg(q)
        w = calls_to(R, g, S + '.write')
        inloop = any(any(fr.kind == 'loop' for fr in n.frames) for (n, _) in w)
        R.ob('C11.locked', '%s passes the whole frame to one write()' % q.rsplit('.', 1)[1], bool(w) and not inloop,
             '%s() writes the frame in several write() calls: the lock is released between the pieces' % q.rsplit('.', 1)[1],
             func=q, node=(w[0][1] if w else None), construct='%s sliced writes' % q)


def onectx(R):
    # threading.local anywhere in the package: per-thread state where the peer has one context / one wire
    bad = []
    for cx in R.types.ctxs.values():
        f = cx.func
        if f.cls is not None and cx.recv != f.cls.qual:
            continue
        for n in own_nodes(f.node):
            if isinstance(n, ast.Call) and U(n.func) in ('threading.local', 'local') and \
                    any(t.kind == 'ext' and t.name == 'threading.local' for t in R.types.call_targets(n, cx)):
                bad.append((f, n))
    R.ob('C11.onectx', 'no thread-local protocol state', not bad,
         '%s keeps state in threading.local(): each sending thread gets its own context while the peer has exactly one' % (
             bad[0][0].qual if bad else ''), func=(bad[0][0] if bad else None), node=(bad[0][1] if bad else None),
         construct='threading.local use')
    # the compressor object lives in one field of the Deflate object
    st = [(c, s_, t, v) for (c, s_, t, v) in stores_in_package(R, '_compressobj')]
    ok = bool(st) and all(isinstance(v, ast.Call) and any(t_.kind == 'ext' and t_.name == 'zlib.compressobj'
                                                          for t_ in R.types.call_targets(v, c)) and U(t.value) == 'self'
                          for (c, s_, t, v) in st)
    R.ob('C11.onectx', 'one compressor object per Deflate instance', ok, 'Deflate._compressobj writers: %s' % [U(v) for (_, _, _, v) in st],
         func='compression.Deflate.reset_compressor', node=None, construct='_compressobj writers')
    # classes on the send path: no mutable class-level attribute, no in-place packing into shared buffers
    for cq in ('frame.Frame', 'frame.CompressedFrame', S):
        c = R.prog.cls(cq)
        mut = [nm for nm, vals in c.attrs.items() if nm != '__slots__' and any(
            isinstance(v, (ast.List, ast.Dict, ast.Set)) or (isinstance(v, ast.Call) and U(v.func) in ('bytearray', 'list', 'dict', 'set'))
            for v in vals)]
        R.ob('C11.onectx', '%s has no mutable class-level attribute' % cq.split('.')[-1], not mut,
             'class-level mutable attribute(s) %s on %s are shared by all threads building frames' % (mut, cq),
             func=None, node=None, construct='%s class-level mutables %s' % (cq, mut))
    bad = []
    for q in (S + '.send', S + '.send_compressed', 'frame.Frame.to_bytes', 'frame.Frame.build', 'mask.mask_payload'):
        f = R.func(q)
        for n in own_nodes(f.node):
            if isinstance(n, ast.Call) and isinstance(n.func, ast.Attribute) and n.func.attr in ('pack_into', 'readinto', 'recv_into') \
                    and n.args and isinstance(n.args[0], ast.Attribute):
                bad.append((f, n))
    R.ob('C11.onectx', 'frames are built in locals', not bad, '%s packs into a shared buffer (%s)' % (
        bad[0][0].qual if bad else '', U(bad[0][1]) if bad else ''), func=(bad[0][0] if bad else None),
        node=(bad[0][1] if bad else None), construct='pack_into shared buffer')


def private(R):
    for q in (S + '.send', S + '.send_compressed', 'frame.Frame.to_bytes', 'frame.Frame.build', 'mask.mask_payload'):
        f = R.func(q)
        bad = []
        for n in own_nodes(f.node):
            tg = []
            if isinstance(n, ast.Assign):
                tg = n.targets
            elif isinstance(n, ast.AugAssign):
                tg = [n.target]
            for t in tg:
                if isinstance(t, ast.Attribute):
                    bad.append(n)
            if isinstance(n, ast.Global):
                bad.append(n)
        R.ob('C11.private', '%s writes no shared field' % q.rsplit('.', 1)[1], not bad,
             '%s stores to %s while building a frame (shared between concurrent senders)' % (q, U(bad[0]) if bad else ''),
             func=f, node=(bad[0] if bad else None), construct='%s field stores' % q)


def once(R):
    for q in (S + '.send', S + '.send_compressed'):
        g = R.cfg(q)
        w = [n for (n, _) in calls_to(R, g, S + '.write')]
        ok = bool(w) and all_paths_pass(g, [g.entry], w, [g.exit], skip_edge=nx) and \
            not any(w2 in g.succ_reach(w1, skip_edge=nx) for w1 in w for w2 in w)
        R.ob('C11.once', '%s writes exactly once' % q.rsplit('.', 1)[1], ok,
             '%s() can return normally without writing its frame (a message is silently lost) or write twice' % q.rsplit('.', 1)[1],
             func=q, node=None, construct='%s write paths' % q)


def writeonce(R, RID='C11.once'):
    """write(data): every normal return has passed exactly one socket write, whose argument is the `data` parameter
    itself (nothing queued, joined or left for another thread to send)."""
    from .common import effective_write_sites, is_param
    from ..dataflow import ReachingDefs
    q = S + '.write'
    g = R.cfg(q)
    rd = ReachingDefs(g)
    sites = [(n, c) for (g_, n, c, via) in effective_write_sites(R) if g_.ctx.func.qual == q]
    need(sites, 'write(): no socket write reached from write()')
    wn = [n for (n, c) in sites]
    ok = all_paths_pass(g, [g.entry], wn, [g.exit], skip_edge=nx)
    R.ob(RID, 'write() returns normally only after the socket write', ok,
         'write() can return normally without having written its data (the caller\'s message is silently dropped or left '
         'for another thread)', func=q, node=None, construct='write() path without socket write')
    twice = any(w2 in g.succ_reach(w1, skip_edge=nx) for w1 in wn for w2 in wn)
    R.ob(RID, 'write() writes once', not twice, 'two socket writes on one path of write()', func=q, node=None,
         construct='write() writes twice')
    for (n, c) in sites:
        data = c.args[0] if c.args else None
        R.ob(RID, 'write() sends exactly its argument', data is not None and is_param(rd, n, data),
             'the socket write in write() sends `%s`, not the unmodified data parameter' % U(data), func=q, node=c,
             construct='write() sends %s' % U(data))


def single(R):
    w = [(c, s, t, v) for (c, s, t, v) in stores_in_package(R, '_lock')]
    quals = sorted(set(c.func.qual for (c, s, t, v) in w))
    ok = quals == [S + '.__init__'] and all(U(v) in ('threading.Lock()', 'threading.RLock()') for (c, s, t, v) in w)
    R.ob('C11.single', 'one lock per session, created in __init__', ok, '_lock assigned in %s' % quals, func=S + '.__init__',
         node=(w[0][1] if w else None), construct='_lock creation')
    bare = []
    for cx in R.types.ctxs.values():
        f = cx.func
        if f.cls is not None and cx.recv != f.cls.qual:
            continue
        for n in own_nodes(f.node):
            if isinstance(n, ast.Call) and isinstance(n.func, ast.Attribute) and \
                    n.func.attr in ('acquire', 'release', 'locked') and 'x:lock' in R.types.expr(n.func.value, cx):
                bare.append((f, n))
    R.ob('C11.single', 'lock used only through `with`', not bare,
         '%s calls %s: the lock can stay held on an exceptional path, or sends can be skipped/raced around it' % (
             bare[0][0].qual if bare else '', U(bare[0][1]) if bare else ''), func=(bare[0][0] if bare else None),
         node=(bare[0][1] if bare else None), construct=('bare lock call %s' % U(bare[0][1])) if bare else '')


def ctx(R):
    sites = R.types.callers.get('compression.Deflate.compress', [])
    seen = set()
    n_ = 0
    for (c, call, t) in sites:
        f = c.func
        if (f.qual, id(call)) in seen or (f.cls is not None and c.recv != f.cls.qual):
            continue
        seen.add((f.qual, id(call)))
        g = R.cfg(f.qual, c.recv)
        cn = [n for n in g.live_nodes() if call in n.calls]
        if not cn:
            continue
        n_ += 1
        cn = cn[0]
        sends = [n for (n, _) in calls_to(R, g, [S + '.send_compressed', S + '.send', S + '.write'])
                 if n in g.succ_reach(cn, skip_edge=nx)]
        cl = set(w for (w, _) in lock_frames(R, g, cn))
        ok = bool(sends) and bool(cl) and all(cl & set(w for (w, _) in lock_frames(R, g, s)) for s in sends)
        # public entry points through which this site is reached (the finding is keyed by them, so that moving the
        # call into a private helper does not change its identity)
        entries = _public_entries(R, f)
        for ent in entries:
            R.ob('C11.ctx', '%s: compress and transmit in one critical section' % ent.name, ok,
                 'compression.compress() (in %s, reached from %s) runs outside the critical section that writes its '
                 'output: two threads can compress A then B but write B then A, and a context-takeover peer inflates in '
                 'wire order' % (f.qual, ent.qual), func=ent, node=(call if ent is f else None),
                 construct='compress outside write lock in ' + ent.name)
    need(n_ >= 1, 'no Deflate.compress call site found')


def _public_entries(R, f, depth=0):
    if not f.name.startswith('_') or depth > 2:
        return [f]
    out = []
    for (c, call, t) in R.types.callers.get(f.qual, []):
        if c.func.cls is not None and f.cls is not None and c.func.cls.qual == f.cls.qual and c.func is not f:
            for e in _public_entries(R, c.func, depth + 1):
                if e not in out:
                    out.append(e)
    return out or [f]


def no_self_deadlock(R, RID):
    """The session lock is a plain (non re-entrant) threading.Lock: nothing called from inside one of its critical sections
    may (transitively) enter a critical section of the same lock - the thread would wait for itself for ever."""
    init = R.func(S + '.__init__')
    rlock = any(isinstance(x, ast.Call) and U(x.func).endswith('RLock') for x in own_nodes(init.node))
    takers = set()
    for fq, fi in R.prog.funcs.items():
        if fi.module.name.startswith('examples'):
            continue
        for x in own_nodes(fi.node):
            if isinstance(x, ast.With) and any(U(it.context_expr).endswith('._lock') for it in x.items):
                takers.add(fq)
    n_sec = 0
    for fq in sorted(takers):
        fi = R.prog.funcs[fq]
        if fi.cls is None:
            continue
        g = R.cfg(fq)
        for n in g.live_nodes():
            if not lock_frames(R, g, n):
                continue
            for c in n.calls:
                n_sec += 1
                seen, work, hit = set(), [(c, g.ctx, [U(c.func)])], None
                while work and hit is None:
                    c_, cx_, path = work.pop()
                    for t in R.types.call_targets(c_, cx_):
                        if t.kind != 'func' or t.func.qual in seen or len(path) > 5:
                            continue
                        seen.add(t.func.qual)
                        if t.func.qual in takers:
                            hit = path + [t.func.qual]
                            break
                        try:
                            cx2 = R.types.ctx(t.func.qual, t.recv)
                        except AnalysisError:
                            continue
                        for x in own_nodes(t.func.node):
                            if isinstance(x, ast.Call):
                                work.append((x, cx2, path + [t.func.qual]))
                R.ob(RID, 'no call inside a critical section of %s re-enters the lock' % fq.split('.')[-1],
                     hit is None or rlock,
                     'inside `with self._lock` %s calls %s, which takes the same (non re-entrant) lock again: the thread '
                     'blocks on itself - the send never returns and the event loop never yields its terminal event' % (
                         fq, ' -> '.join(hit or [])), func=fi, node=c, construct='self-deadlock via %s' % U(c.func))
    need(n_sec >= 2, 'no calls inside session lock sections found')
