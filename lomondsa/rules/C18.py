"""C18 - available data is drained without waiting (structural necessary conditions only)."""
import ast

from ..program import AnalysisError, U, own_nodes, walk_no_nested
from ..dataflow import ReachingDefs, defs_of_node
from ..consteval import fold
from .common import (match_exact, guard_atom_sets, path_atom_sets, unmatched, need, guards_of, calls_to, ext_calls, all_paths_pass, succs, normal_succs, path_conditions,
                     is_param, arg_of, default_of, stores_in_package)

PROPERTY = 'C18'
LEVEL = 'other'
EXPLANATION = (
    'C18 is a liveness/latency property over arrival patterns and the TLS layer and is NOT decided as a whole. Decided '
    'are the structural conditions without which it cannot hold: the blocking wait is dominated by the pending() '
    'short-cut (no selector subclass overrides wait); the byte count from the selector reaches recv_into together with '
    'the session buffer; buffer size and requested maximum are the same constant; after a non-empty read the loop '
    'cannot return to the wait without iterating feed(); no sleep on the loop path; zero-length payloads are never '
    'awaited as reads; the receive path does not take the write lock; replies are issued in the same iteration.'
    ' Also decided: package-wide isolation (objects created once per class or per function definition - class-level attributes, parameter defaults - are only read), so that no buffer, validator, cache, lock or option table is shared between connections by accident.')
NOT_DECIDED = 'latency, TLS record alignment, bursts over real sockets, kernel readiness semantics'
ASSUMPTIONS = ['ssl.SSLSocket.pending() reports decrypted buffered bytes', 'poll()/select()/kqueue report readability level-triggered']

S = 'session.WebsocketSession'
nx = lambda a, b, l: l.startswith('exc:')


def check(run):
    R = run
    R.rule('C18.shared', 'objects created once per class / per function definition (class-level attributes, parameter '
           'defaults) are only read: no buffer, validator, poll object, header list or option dict is shared between '
           'connections', 1)
    from .common import shared_state
    shared_state(R, 'C18.shared')
    R.rule('C18.pending', 'the blocking wait is reached only after the pending() short-cut was tested and found empty; '
                          'the short-cut returns (True, pending()); no subclass overrides wait', 4)
    R.rule('C18.count', 'count from selector.wait -> _recv -> recv_into(self._buffer, count); the returned view covers '
                        'exactly the received bytes', 4)
    R.rule('C18.size', 'the maximum requested equals the buffer allocation (BUFFER_SIZE)', 2)
    R.rule('C18.loop', 'a non-empty read is always fed before the next wait; no sleep on the loop path', 3)
    R.rule('C18.zeroread', 'a zero-length payload is never awaited as a read', 2)
    R.rule('C18.nolock', 'the receive path does not acquire the write lock', 2)
    R.rule('C18.sameloop', 'automatic replies are issued before the event is yielded, in the same iteration', 1)
    R.rule('C18.samehread', 'frames that arrive in the same read as the HTTP response are consumed in that cycle: the '
                            'header bound is applied to the header only', 5)
    R.rule('C18.level', 'readiness is level-triggered and byte-granular: no edge-triggered registration, no receive '
                        'low-water mark; the platform selector is one of the three known classes', 3)
    from . import C10
    with R.as_rule('C18.samehread'):
        C10.limit(R)
    from .common import lazy_pipeline
    lazy_pipeline(R, 'C18.sameloop')
    level(R)
    pending(R)
    count(R)
    loop(R)
    zeroread(R)
    nolock(R)
    from . import C14, C08, C01, C05
    R.rule('C18.intact', 'what is drained is delivered intact: no view of the reused receive buffer outlives the read; the '
                         'fixed-size read requests are created per read (a shared request keeps a stale outstanding count)', 4)
    C01.alias(R, RID='C18.intact')
    C05.awaitables_fresh(R, RID='C18.intact')
    R.rule('C18.bursts', 'a text payload larger than one read is delivered: the UTF-8 validation state is carried exactly from '
                         'one read to the next (RFC 3629 automaton, every byte once, state kept between chunks)', 10)
    with R.as_rule('C18.bursts'):
        C05.dfa(R)
        C05.loop(R)
        C05.track(R)
        C05.route(R)             # a Ping between the fragments of a text message is not run through the text validator
    from . import C06, C15
    R.rule('C18.inflate', 'compressed messages of a burst are delivered: every fragment inflated once, the trailer fed once after '
                          'the last, the inflater configured from the negotiated server parameters', 10)
    with R.as_rule('C18.inflate'):
        C06.tail(R)
        C06.wiring(R)
    R.rule('C18.notcut', 'draining is not cut short by a timer that is not due: a disabled (None / 0) close timeout never fires', 3)
    C15.close(R, RID='C18.notcut', rearm=False)
    R.rule('C18.replies', 'the automatic replies of a cycle cannot abort it: a Pong that write() refuses is swallowed; a '
                          'Close echo of any legal size is written in the cycle that read the Close', 3)
    C14.swallow(R, RID='C18.replies')
    with R.as_rule('C18.sameloop'):
        C14.before(R)            # the Pong is written when the Ping is dispatched - not after the application handled it,
        C14.branch(R)            # not queued for the end of the read
        C14.only(R)
    with R.as_rule('C18.replies'):
        C08.echobound(R)
    R.rule('C18.accept', 'no frame of a burst is refused for a reason the RFCs do not give: every raise of the frame checks sits '
                         'under an illegal condition (a 65536-byte payload in the 64-bit form is legal); the fragmentation '
                         'sequence checks apply to data frames only (a Ping between fragments is answered in its cycle)', 5)
    C01.accept(R, RID='C18.accept')
    with R.as_rule('C18.accept'):
        C14.interleave(R)


def level(R):
    bad = []
    for cx in R.types.ctxs.values():
        f = cx.func
        if f.module.name not in ('selectors', 'session') or (f.cls is not None and cx.recv != f.cls.qual):
            continue
        for n in own_nodes(f.node):
            if isinstance(n, ast.Attribute) and n.attr in ('EPOLLET', 'EPOLLONESHOT', 'KQ_EV_CLEAR', 'KQ_EV_ONESHOT'):
                bad.append((f, n, 'edge-triggered / one-shot readiness flag %s: after one read of at most 64 KiB the rest of a '
                                  'burst is never signalled again' % U(n)))
            if isinstance(n, ast.Attribute) and n.attr in ('SO_RCVLOWAT',):
                bad.append((f, n, 'receive low-water mark %s: the socket is not reported readable while fewer bytes are '
                                  'queued, so the last byte(s) of a message wait for more traffic' % U(n)))
    R.ob('C18.level', 'level-triggered, byte-granular readiness', not bad, bad[0][2] if bad else '',
         func=(bad[0][0] if bad else None), node=(bad[0][1] if bad else None), construct=('readiness flag %s' % U(bad[0][1])) if bad else '')
    m = R.prog.modules['selectors']
    cands = set()
    def leaves(v):
        if isinstance(v, ast.IfExp):
            return leaves(v.body) | leaves(v.orelse)
        return {U(v)}
    for v in m.globals.get('PlatformSelector', []):
        cands |= leaves(v)                       # a chained conditional expression selects among the same classes
    R.ob('C18.level', 'platform selector is one of the confirmed classes', cands <= {'KQueueSelector', 'PollSelector', 'SelectSelector'}
         and bool(cands), 'PlatformSelector may be %s: only KQueueSelector / PollSelector / SelectSelector have been confirmed to '
         'report readiness level-triggered' % sorted(cands), func='selectors.SelectorBase.wait', node=None,
         construct='PlatformSelector candidates %s' % sorted(cands))
    # any kernel event means "go and read": error / hang-up conditions are reported together with input that is still
    # queued, and it is recv() that tells data from EOF from reset - a selector that raises (or filters the event mask)
    # on POLLERR / POLLHUP loses the final burst
    n_wr = 0
    for cq, c in sorted(R.prog.classes.items()):
        if c.module.name != 'selectors':
            continue
        for mname in ('wait_readable', 'wait'):
            fi = c.methods.get(mname)
            if fi is None:
                continue
            n_wr += 1
            rs = [x for x in own_nodes(fi.node) if isinstance(x, ast.Raise)]
            masks = [x for x in own_nodes(fi.node) if isinstance(x, ast.BinOp) and isinstance(x.op, ast.BitAnd)]
            R.ob('C18.level', '%s.%s reports every event as readable' % (c.name, mname), not rs and not masks,
                 '%s.%s %s: a hang-up / error condition signalled together with unread input ends the loop before recv() '
                 'drained it' % (c.name, mname, 'raises' if rs else 'filters the event mask'), func=fi,
                 node=(rs or masks or [None])[0], construct='%s.%s raises/filters' % (c.name, mname))
    need(n_wr >= 4, 'selectors: wait / wait_readable implementations not found')
    # registration flags of the poll selector: POLLIN must be among them
    pi = R.func('selectors.PollSelector.__init__')
    flags = {n.attr for n in own_nodes(pi.node) if isinstance(n, ast.Attribute) and n.attr.startswith('POLL')}
    R.ob('C18.level', 'poll() registered for input', 'POLLIN' in flags, 'poll flags %s' % sorted(flags), func=pi, node=None,
         construct='poll flags')


def pending(R):
    q = 'selectors.SelectorBase.wait'
    for recv in ('selectors.PollSelector', 'selectors.SelectSelector', 'selectors.KQueueSelector'):
        fi = R.prog.find_method(recv, 'wait')
        R.ob('C18.pending', '%s does not override wait' % recv.split('.')[-1], fi is not None and fi.qual == q,
             '%s overrides wait(): the pending() short-cut may be bypassed' % recv, func=(fi or q), node=None,
             construct='%s.wait override' % recv)
    recv = 'selectors.PollSelector'
    g = R.cfg(q, recv)
    rd = ReachingDefs(g)
    f = R.func(q)
    wr = [(n, c) for n in g.live_nodes() for c in n.calls
          if isinstance(c.func, ast.Attribute) and c.func.attr == 'wait_readable']
    need(len(wr) == 1, 'SelectorBase.wait: wait_readable call not found')
    n, c = wr[0]
    P = 'self._socket.pending()'
    H = "hasattr(self._socket, 'pending')"
    bad = []
    for l in path_conditions(R, g, rd, g.entry, n):
        if (P, False) not in l and (H, False) not in l:
            bad.append(sorted(l))
    R.ob('C18.pending', 'blocking wait only when nothing is buffered in the TLS layer', not bad,
         'wait_readable() is reachable without having found pending() empty: %s - bytes already decrypted wait for the '
         'next poll timeout or unrelated traffic' % bad[:1], func=f, node=c)
    rets = [r for r in g.live_nodes() if r.kind == 'stmt' and isinstance(r.ast, ast.Return)]
    sc = []
    for r in rets:
        for l in path_conditions(R, g, rd, g.entry, r):
            if (P, True) in l:
                sc.append((r, l))
    ok = bool(sc)
    for (r, l) in sc:
        v = r.ast.value
        from .common import otext
        ok = ok and isinstance(v, ast.Tuple) and len(v.elts) == 2 and U(v.elts[0]) == 'True' and otext(R, g, r, v.elts[1]) == P \
            and r in g.reachable([g.entry], avoid={n}, skip_edge=nx)
    R.ob('C18.pending', 'short-cut returns (True, pending()) without blocking', ok,
         'the pending() short-cut does not return (True, pending()) before any blocking call', func=f, node=None,
         construct='pending short-cut return')
    # normal return carries wait_readable's verdict and the caller's max
    for r in rets:
        v = r.ast.value
        if isinstance(v, ast.Tuple) and U(v.elts[0]) != 'True':
            o, on = rd.origin(r, v.elts[0])
            ok = o is c and is_param(rd, r, v.elts[1], f.params[1])
            R.ob('C18.pending', 'wait returns (readable, max_bytes)', ok, 'wait returns %s' % U(v), func=f, node=r.ast)


def count(R):
    q = S + '.run'
    g = R.cfg(q)
    rd = ReachingDefs(g)
    wc = calls_to(R, g, 'selectors.SelectorBase.wait')
    need(len(wc) == 1, 'run(): selector.wait call not found')
    wn, wcall = wc[0]
    need(isinstance(wn.ast, ast.Assign) and isinstance(wn.ast.targets[0], ast.Tuple) and len(wn.ast.targets[0].elts) == 2,
         'run(): selector.wait result is not unpacked into (readable, count)')
    rvar, cvar = [U(e) for e in wn.ast.targets[0].elts]
    rc = calls_to(R, g, S + '._recv')
    need(len(rc) == 1, 'run(): _recv call not found')
    rn, rcall = rc[0]
    ok = rcall.args and U(rcall.args[0]) == cvar and rd.defs_at(rn, cvar) == {wn}
    R.ob('C18.count', 'selector count handed to _recv', ok, '_recv(%s)' % (U(rcall.args[0]) if rcall.args else ''), func=q,
         node=rcall)
    lits = {(t, p) for (t, p, tn) in guards_of(g, rn) if tn.kind == 'test'}
    R.ob('C18.count', 'read attempted whenever readable', match_exact(guard_atom_sets(g, rn), [{(rvar, True)}], optional=[
        {('websocket.is_closed', False), ('self.websocket.is_closed', False)}]),
         '_recv guarded by %s' % sorted(lits), func=q, node=rcall)
    a0 = wcall.args[0] if wcall.args else None
    R.ob('C18.size', 'wait is asked for BUFFER_SIZE', a0 is not None and U(a0) == 'self.BUFFER_SIZE', 'selector.wait(%s, ...)' % U(a0),
         func=q, node=wcall)
    init = R.func(S + '.__init__')
    b = [s for s in own_nodes(init.node) if isinstance(s, ast.Assign) and U(s.targets[0]) == 'self._buffer']
    ok = len(b) == 1 and U(b[0].value) == 'bytearray(self.BUFFER_SIZE)'
    R.ob('C18.size', 'buffer allocated with BUFFER_SIZE', ok, '_buffer = %s' % (U(b[0].value) if b else None), func=init,
         node=(b[0] if b else None))
    q2 = S + '._recv'
    g2 = R.cfg(q2)
    rd2 = ReachingDefs(g2)
    f2 = R.func(q2)
    ri = ext_calls(R, g2, {'socket.recv_into'})
    need(len(ri) == 1, '_recv: recv_into call not found')
    n, c = ri[0]
    ok = len(c.args) >= 2 and U(c.args[0]) == 'self._buffer' and is_param(rd2, n, c.args[1], f2.params[1])
    R.ob('C18.count', 'recv_into(self._buffer, count)', ok, 'recv_into(%s)' % ', '.join(U(a) for a in c.args), func=f2, node=c)
    got = U(n.ast.targets[0]) if isinstance(n.ast, ast.Assign) else None
    rets = [r for r in g2.live_nodes() if r.kind == 'stmt' and isinstance(r.ast, ast.Return) and n in g2.reachable([g2.entry], avoid={r})
            and r in g2.succ_reach(n, skip_edge=nx)]
    ok = bool(rets) and got is not None
    for r in rets:
        v = r.ast.value
        ok = ok and isinstance(v, ast.Subscript) and U(v.value) in ('memoryview(self._buffer)', 'self._buffer') \
            and isinstance(v.slice, ast.Slice) and v.slice.lower is None and U(v.slice.upper) == got
    R.ob('C18.count', 'returned view is exactly the received prefix', ok, '_recv returns %s' % [U(r.ast.value) for r in rets],
         func=f2, node=(rets[0].ast if rets else None))


def loop(R):
    q = S + '.run'
    g = R.cfg(q)
    rd = ReachingDefs(g)
    rc = calls_to(R, g, S + '._recv')
    rn, rcall = rc[0]
    dvar = U(rn.ast.targets[0]) if isinstance(rn.ast, ast.Assign) else None
    need(dvar is not None, 'run(): _recv result not assigned')
    tests = [t for t in g.live_nodes() if t.kind == 'test' and U(t.ast) == dvar and rd.defs_at(t, dvar) == {rn}]
    need(len(tests) == 1, 'run(): `if data:` test not found')
    t = tests[0]
    feeds = [n for n in g.live_nodes() if n.kind == 'for' and isinstance(rd.origin(n, n.ast.iter)[0], ast.Call)
             and R.types.resolves_to(rd.origin(n, n.ast.iter)[0], g.ctx, 'websocket.WebSocket.feed')]
    need(len(feeds) == 1, 'run(): feed loop not found')
    fl = feeds[0]
    waits = [n for (n, _) in calls_to(R, g, 'selectors.SelectorBase.wait')]
    ok = all_paths_pass(g, succs(t, 'true'), [fl], waits + [g.exit], skip_edge=nx)
    R.ob('C18.loop', 'non-empty read is fed before the next wait', ok,
         'after a non-empty read the loop can wait again without iterating websocket.feed(data)', func=q, node=t.ast)
    it = rd.origin(fl, fl.ast.iter)[0]
    ok = it.args and U(it.args[0]) == dvar
    R.ob('C18.loop', 'feed receives the data just read', bool(ok), 'feed(%s)' % (U(it.args[0]) if it.args else ''), func=q, node=it)
    sleeps = []
    for c in R.types.ctxs.values():
        if c.func.module.name in ('session', 'websocket', 'stream', 'parser', 'frame_parser', 'selectors'):
            for n in own_nodes(c.func.node):
                if isinstance(n, ast.Call) and U(n.func) in ('time.sleep', 'sleep'):
                    sleeps.append((c.func, n))
    R.ob('C18.loop', 'no sleep on the receive path', not sleeps, 'sleep() in %s' % (sleeps[0][0].qual if sleeps else ''),
         func=(sleeps[0][0] if sleeps else q), node=(sleeps[0][1] if sleeps else None), construct='sleep calls')
    # same-iteration replies (C14.before)
    hooks = [n for (n, _) in calls_to(R, g, S + '._on_event')]
    ys = [y for y in g.reachable(succs(fl, 'body'), avoid={fl}, skip_edge=nx) if y.kind == 'yield'
          and U(y.ast.value) == U(fl.ast.target)]
    ok = bool(hooks) and bool(ys) and all(all_paths_pass(g, succs(fl, 'body'), hooks, [y], skip_edge=nx) for y in ys)
    R.ob('C18.sameloop', 'automatic replies before the yield', ok, 'the event hook does not precede the yield', func=q, node=None,
         construct='hook before yield')


def zeroread(R):
    q = 'frame_parser.FrameParser.parse'
    g = R.cfg(q, 'frame_parser.ClientFrameParser')
    rd = ReachingDefs(g)
    n_ = 0
    from .C05 import _payload_reads
    for (site, call, extra, y) in _payload_reads(R, g, rd):
        if call.args:
            n_ += 1
            a = call.args[0]
            lits = {(t, p) for (t, p, _) in guards_of(g, site)} | set(extra)
            ok = (U(a), True) in lits
            R.ob('C18.zeroread', 'payload read only for a non-zero length', ok,
                 'a read of `%s` bytes can be awaited with length 0: the frame is then held until more bytes arrive '
                 '(guards: %s)' % (U(a), sorted(t for (t, p) in lits if p)[:6]), func=q, node=y.stmt)
    need(n_ >= 2, 'FrameParser.parse: payload reads not found')


def nolock(R):
    for q in (S + '._recv', 'selectors.SelectorBase.wait'):
        recv = None if q.startswith('session') else 'selectors.PollSelector'
        g = R.cfg(q, recv)
        locks = []
        for n in g.live_nodes():
            if n.kind == 'with':
                for it in n.ast.items:
                    if 'x:lock' in R.types.expr(it.context_expr, g.ctx):
                        locks.append(n)
            for c in n.calls:
                if any(t.kind == 'ext' and t.name == 'lock.acquire' for t in R.types.call_targets(c, g.ctx)):
                    locks.append(n)
        R.ob('C18.nolock', '%s takes no lock' % q.rsplit('.', 1)[1], not locks,
             'the receive path acquires a lock (%s): reading available data waits behind a sender blocked in sendall' % (
                 locks[0].text() if locks else ''), func=q, node=(locks[0].ast if locks else None))
