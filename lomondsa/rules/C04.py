"""C04 - protocol violations are detected, reported once, and fail the connection."""
import ast

from ..program import AnalysisError, U, own_nodes, walk_no_nested
from ..dataflow import ReachingDefs, defs_of_node
from ..consteval import fold, class_consts, module_consts
from .common import (match_exact, guard_atom_sets, path_atom_sets, unmatched, need, guards_of, calls_to, all_paths_pass, succs, normal_succs, path_conditions,
                     atom_text, is_param, interval_of, struct_format, arg_of, default_of, INF, stores_in_package)

PROPERTY = 'C04'
LEVEL = 'other'
EXPLANATION = (
    'For each violation class named in the property a *live* check site is located on the receive path (its '
    'predicate operands must be wire-derived at the time the check runs: header bit-field extraction, decoded '
    'length, frame fields populated before validate()); validate()/on_frame() dominate the frame yield; frames are '
    'consumed lazily so earlier messages are delivered; opcode and close-code tables are constant-evaluated; '
    'protocol exception classes raised below WebSocket.feed are all absorbed by its two handlers, each of which '
    'yields exactly one ProtocolError event, sends at most one Close (none when critical) and ends in a forced '
    'disconnect; RSV1 acceptance has a single, negotiation-gated writer; every non-try-else Disconnected is '
    'graceful=False. Shape premises only - header values are not enumerated.'
    ' Also decided: package-wide isolation (objects created once per class or per function definition - class-level attributes, parameter defaults - are only read), so that no buffer, validator, cache, lock or option table is shared between connections by accident.')
NOT_DECIDED = 'exhaustive enumeration of header values as runtime values; UTF-8 validity (C05)'
ASSUMPTIONS = ['generators deliver items in program order (messages before a violation were already yielded)']

PARSE = 'frame_parser.FrameParser.parse'
CFP = 'frame_parser.ClientFrameParser'
nx = lambda a, b, l: l.startswith('exc:')
PROTO = ('errors.ProtocolError', 'errors.CriticalProtocolError', 'errors.PayloadTooLarge')


def check(run):
    R = run
    R.rule('C04.shared', 'objects created once per class / per function definition (class-level attributes, parameter '
           'defaults) are only read: no buffer, validator, poll object, header list or option dict is shared between '
           'connections', 1)
    from .common import shared_state
    shared_state(R, 'C04.shared')
    from .common import sized_truth
    sized_truth(R, 'C04.shared')
    R.rule('C04.wire', 'header fields are extracted from the two header bytes with the RFC 6455 bit layout and '
                       'passed to the same-named frame constructor slots', 8)
    R.rule('C04.table', 'each violation class has a live check site (operands wire-derived when it runs)', 10)
    R.rule('C04.order', 'validate() and on_frame() dominate `yield frame`; the validate flag is constant True for '
                        'the stream parser; frames are pulled lazily from the parser', 5)
    R.rule('C04.opcodes', 'reserved opcodes = {0..15} minus {0,1,2,8,9,10}; every non-reserved opcode has a handler', 3)
    R.rule('C04.closecodes', 'invalid close codes include 0..999, 1004, 1005, 1006, 1015 and no valid code', 2)
    R.rule('C04.catch', 'every protocol error class that can surface in WebSocket.feed\'s try body is caught there; '
                        'ParseError is converted at both next() sites', 3)
    R.rule('C04.once', 'each protocol-error handler yields exactly one ProtocolError event, sends at most one Close '
                       '(none when critical) and then forces the disconnect; nothing is yielded afterwards', 8)
    R.rule('C04.rsvgate', 'CompressedFrame parsing has one writer, reachable only under the permessage-deflate '
                          'token test', 4)
    R.rule('C04.disc', 'Disconnected events in the failure handlers are graceful=False', 3)
    from .common import event_fields as _event_fields
    _event_fields(R, 'C04.disc', ['ProtocolError', 'Disconnected'])      # critical / graceful as constructed
    R.rule('C04.masked', 'the stream\'s parser class rejects any frame with the mask bit before delegating', 3)
    R.rule('C04.utf8', 'invalid UTF-8 fails at the violating frame: the streaming validator is the RFC 3629 automaton, sees '
                       'every text byte once and keeps its state across frames and reads', 10)
    wire(R)
    table(R)
    from . import C05 as _C05
    with R.as_rule('C04.utf8'):
        _C05.dfa(R)
        _C05.loop(R)
        _C05.route(R)
        _C05.track(R)
    from . import C01
    with R.as_rule('C04.table'):
        from . import C06 as _C06
        _C06.separate_resets(R, 'C04.table')    # ... compressed ones included: a send does not wipe the inflate window
        C01.alias(R)             # messages completed before the violation are delivered as received (no aliasing of the
                                 # reused receive buffer by frames still waiting for their FIN)
        C01.conserve(R)
        from . import C05
        C05.strict(R)            # invalid UTF-8 in text / close reason: the strict whole-payload decode is the check site
        C01.join(R)              # ... of the whole message: no arm decodes fragment by fragment (a lenient incremental decoder
                                 # never reports a sequence cut off by the end of the message)
    order(R)
    opcodes(R)
    closecodes(R)
    catch(R)
    once(R)
    rsvgate(R)
    disc(R)
    masked(R)


# ------------------------------------------------------------------------------------------------ wire
def _parse_env(R):
    g = R.cfg(PARSE, CFP)
    rd = ReachingDefs(g)
    cons = []
    for n in g.live_nodes():
        if n.kind == 'stmt' and isinstance(n.ast, ast.Assign) and isinstance(n.ast.value, ast.Call):
            ts = R.types.call_targets(n.ast.value, g.ctx)
            if ts and all(t.kind == 'ctor' and t.cls in ('frame.Frame', 'frame.CompressedFrame') for t in ts):
                cons.append(n)
    need(len(cons) == 1, 'FrameParser.parse: frame constructed at %d sites' % len(cons))
    return g, rd, cons[0]


def _marker_literal(text):
    """`x == 126`, `127 != x`, `x >= 126`: a test of the 7-bit length marker."""
    try:
        e = ast.parse(text, mode='eval').body
    except SyntaxError:
        return False
    if isinstance(e, ast.Compare) and len(e.ops) == 1:
        sides = [e.left, e.comparators[0]]
        consts = [x.value for x in sides if isinstance(x, ast.Constant)]
        if consts and consts[0] in (126, 127) and isinstance(e.ops[0], (ast.Eq, ast.NotEq)):
            return True
        if consts and consts[0] == 126 and isinstance(e.ops[0], (ast.GtE, ast.Lt, ast.LtE, ast.Gt)):
            return True
    return False


def frame_fresh(R, RID):
    """The frame handed on by parse() is an object constructed for that frame: an instance kept in a field and re-filled keeps
    whatever the previous frame left in the attributes the new header does not set (the payload of an empty Ping)."""
    g = R.cfg(PARSE, CFP)
    rd = ReachingDefs(g)
    ys = [y for y in g.yields() if isinstance(y.ast.value, ast.Name) and any(
        isinstance(t, str) and t.startswith('inst:frame.') for t in R.types.expr(y.ast.value, g.ctx))]
    need(ys, 'FrameParser.parse: `yield frame` not found')
    y = ys[-1]
    bad = []
    for (oe, on) in rd.origins(y, y.ast.value):
        fresh = isinstance(oe, ast.Call) and any(t.kind == 'ctor' and t.cls in ('frame.Frame', 'frame.CompressedFrame')
                                                 for t in R.types.call_targets(oe, g.ctx))
        if not fresh:
            bad.append(U(oe)[:50])
    R.ob(RID, 'every yielded frame is a newly constructed object', not bad,
         'the frame yielded by parse() can be %s - an object that outlives one frame: attributes the header does not overwrite '
         '(the payload when the length is 0) still hold the previous frame\'s values' % bad[:2], func=PARSE, node=y.ast,
         construct='yielded frame object')


def _bits(e, names):
    """Return (source name, shift, effective mask) when expression e computes the bit-field (name >> shift) & mask of
    one header byte.  Decided semantically: e (constants, arithmetic/bit operators, bool()/int(), comparisons) is
    evaluated for all 256 values of the byte and compared with every contiguous field, so `b >> 7`, `(b & 0x80) >> 7`,
    `b // 128`, `b % 128`, `b & 0x7f` ... are all recognised.  A boolean-valued e matches one-bit fields."""
    used = set()
    for x in ast.walk(e):
        if isinstance(x, ast.Name):
            if x.id in ('bool', 'int'):
                continue
            if x.id not in names:
                return None
            used.add(x.id)
        elif not isinstance(x, (ast.BinOp, ast.UnaryOp, ast.Constant, ast.Compare, ast.BoolOp, ast.IfExp, ast.Call, ast.operator,
                                ast.unaryop, ast.cmpop, ast.boolop, ast.expr_context)):
            return None
        if isinstance(x, ast.Call) and not (isinstance(x.func, ast.Name) and x.func.id in ('bool', 'int') and not x.keywords):
            return None
    if len(used) != 1:
        return None
    name = next(iter(used))
    try:
        code = compile(ast.fix_missing_locations(ast.Expression(body=__import__('copy').deepcopy(e))), '<bits>', 'eval')
        table = [eval(code, {'__builtins__': {}, 'bool': bool, 'int': int}, {name: v}) for v in range(256)]
    except Exception:
        return None
    for sh in range(8):
        for w in range(1, 9 - sh):
            mk = (1 << w) - 1
            if all(table[v] == ((v >> sh) & mk) for v in range(256)):
                return (name, sh, mk)
    return None


def wire(R, RID='C04.wire'):
    g, rd, cons = _parse_env(R)
    f = R.func(PARSE)
    # every header field is handed to the frame (a field left to the constructor default ignores the wire bit)
    init0 = R.func('frame.Frame.__init__')
    call0 = cons.ast.value
    for field0 in ('opcode', 'fin', 'rsv1', 'rsv2', 'rsv3', 'mask'):
        a0 = arg_of(call0, init0, field0) if isinstance(call0, ast.Call) else None
        R.ob(RID, 'frame.%s is given to the frame constructor' % field0, a0 is not None,
             'the frame is constructed without %s: the bit decoded from the wire never reaches Frame.validate(), the '
             'constructor default is used' % field0, func=f, node=cons.ast, construct='frame constructed without %s' % field0)
    # the two header bytes: a tuple unpack from `yield self.read(2)`
    hdr = None
    for n in g.live_nodes():
        if n.kind == 'stmt' and isinstance(n.ast, ast.Assign) and isinstance(n.ast.targets[0], ast.Tuple) \
                and len(n.ast.targets[0].elts) == 2:
            yv, yn = n.ast.value, n
            if isinstance(yv, ast.Name):
                yv, yn = rd.origin(n, yv)          # header = yield self.read(2); b1, b2 = header
            if not (isinstance(yv, ast.Yield) and yv.value is not None):
                continue
            c = rd.origin(yn, yv.value)[0]
            if not isinstance(c, ast.Call):
                continue
            if any(t.kind == 'ctor' and t.cls == 'parser._ReadBytes' for t in R.types.call_targets(c, g.ctx)) \
                    and fold(R, c.args[0], g.ctx) == 2:
                hdr = n
    need(hdr is not None, 'FrameParser.parse: header read `b1, b2 = yield self.read(2)` not found')
    b1, b2 = [e.id for e in hdr.ast.targets[0].elts]
    want = {'fin': (b1, 7, None, 1), 'rsv1': (b1, 6, 1, 1), 'rsv2': (b1, 5, 1, 1), 'rsv3': (b1, 4, 1, 1),
            'opcode': (b1, 0, 15, 15), 'mask': (b2, 7, None, 1)}
    init = R.func('frame.Frame.__init__')
    call = cons.ast.value
    R._c04_wire_fields = set()
    for field, (src, sh, mk, width) in want.items():
        a = arg_of(call, init, field)
        ok = False
        detail = 'Frame(%s=%s)' % (field, U(a))
        if a is not None:
            inner = a
            if isinstance(inner, ast.Call) and U(inner.func) == 'bool' and inner.args:
                inner = inner.args[0]
            o, on = rd.origin(cons, inner)
            from .common import subst_locals
            bits = _bits(o, {b1, b2})
            if bits is None:
                # the field is computed through intermediate locals (flags = b1 >> 4; fin = flags >> 3)
                o2 = subst_locals(R, g, on, o)
                bits = _bits(o2, {b1, b2})
            if bits is None and isinstance(o, ast.Name):
                # decoded through a table indexed by the header byte:  fin, rsv1, .. = _FIELDS[b1]  (the table is evaluated)
                to = rd.tuple_origin(on, o)
                if to is not None and isinstance(to[0], ast.Subscript) and isinstance(to[0].slice, ast.Name) \
                        and to[0].slice.id in (b1, b2):
                    tv = fold(R, to[0].value, g.ctx)
                    try:
                        col = [tv[v][to[1]] for v in range(256)] if tv is not None and len(tv) == 256 else None
                    except Exception:
                        col = None
                    if col is not None:
                        for sh_ in range(8):
                            for w_ in range(1, 9 - sh_):
                                mk_ = (1 << w_) - 1
                                if bits is None and all(col[v] == ((v >> sh_) & mk_) for v in range(256)):
                                    bits = (to[0].slice.id, sh_, mk_)
                        on = to[2]
            detail += ' = %s' % U(o)
            if bits is not None:
                s2, sh2, eff = bits
                ok = s2 == src and sh2 == sh and eff == width and rd.defs_at(on, s2) == {hdr}
        R.ob(RID, 'frame.%s is wire bit-field' % field, ok, detail, func=f, node=cons.ast,
             construct='header field %s: %s' % (field, detail))
        if ok:
            R._c04_wire_fields.add(field)
    # 7-bit length and its extended forms
    plen = None
    for n in g.live_nodes():
        if n.kind == 'stmt' and isinstance(n.ast, ast.Assign) and isinstance(n.ast.targets[0], ast.Name) \
                and not isinstance(n.ast.value, ast.Name):
            bits = _bits(n.ast.value, {b2})
            if bits is None and not any(isinstance(x, (ast.Yield, ast.Call)) for x in ast.walk(n.ast.value)):
                from .common import subst_locals as _sl
                bits = _bits(_sl(R, g, n, n.ast.value), {b2})
            if bits == (b2, 0, 127):
                plen = (n, n.ast.targets[0].id)
    need(plen is not None, 'FrameParser.parse: 7-bit length extraction `byte2 & 0x7f` not found')
    R.ob(RID, '7-bit length field', True, '%s = %s' % (plen[1], U(plen[0].ast.value)), func=f, node=plen[0].ast)
    lv = plen[1]
    # the field may be copied once into the variable that the extended forms then replace (length = header_len); the marker
    # tests may read either name as long as the 7-bit field itself is never re-bound
    lvs = {lv}
    copies = set()
    if sum(1 for n in g.live_nodes() if lv in defs_of_node(n)) == 1:
        for n in g.live_nodes():
            if n.kind == 'stmt' and isinstance(n.ast, ast.Assign) and len(n.ast.targets) == 1 and \
                    isinstance(n.ast.targets[0], ast.Name) and isinstance(n.ast.value, ast.Name) and n.ast.value.id == lv:
                lvs.add(n.ast.targets[0].id)
                copies.add(n)
    ext = []
    for n in g.live_nodes():
        if n.kind == 'stmt' and isinstance(n.ast, ast.Assign) and (lvs & set(defs_of_node(n))) and n is not plen[0] \
                and n not in copies:
            ext.append(n)
    forms = {}
    for n in ext:
        v = n.ast.value
        if isinstance(v, ast.Name):
            # decoded into a local first:  raw = yield self.read(k); length, = unpack(raw); payload_length = length
            to = rd.tuple_origin(n, v)
            if to is not None:
                v = to[0]
        sf = struct_format(R, g.ctx, v) if isinstance(v, ast.Call) else None
        ys = [y for y in walk_no_nested(v) if isinstance(y, ast.Yield)]
        if not ys and isinstance(v, ast.Call) and v.args and isinstance(v.args[0], ast.Name):
            vn = [m for m in g.live_nodes() if m.kind == 'stmt' and any(x is v for x in walk_no_nested(m.ast))]
            if vn:
                yo = rd.origin(vn[0], v.args[0])[0]
                if isinstance(yo, ast.Yield):
                    ys = [yo]
        cnt = fold(R, ys[0].value.args[0], g.ctx) if ys and isinstance(ys[0].value, ast.Call) and ys[0].value.args else None
        if sf == ('unpack', '!int'):
            sf = ('unpack', {2: '!H', 8: '!Q'}.get(cnt, '!int'))
        gs = {(t, p) for (t, p, _) in guards_of(g, n)}
        lo, hi = interval_of(R, g.ctx, gs, lvs, domain=(0, 127))
        forms[n] = (sf, cnt, lo, hi)
        import struct as _s
        ok = sf is not None and sf[0] == 'unpack' and sf[1] in ('!H', '!Q') and cnt == _s.calcsize(sf[1]) \
            and lo == hi == {'!H': 126, '!Q': 127}[sf[1]]
        R.ob(RID, 'extended length form %s' % (sf[1] if sf else '?'), ok,
             'marker %s..%s reads %s bytes decoded with %s' % (lo, hi, cnt, sf), func=f, node=n.ast)
        # the marker test must look at the 7-bit field, not at a length already decoded by another form
        for (tn, lab) in g.edge_guards(n):
            used = lvs & {x.id for x in walk_no_nested(tn.ast) if isinstance(x, ast.Name)}
            if tn.kind == 'test' and used:
                okd = all(rd.defs_at(tn, u_) <= ({plen[0]} | copies) for u_ in used)
                R.ob(RID, 'marker test for %s reads the 7-bit field' % (sf[1] if sf else '?'), okd,
                     'the test `%s` is evaluated on a length that may already have been replaced by an extended length '
                     '(definitions reaching it: %s): a decoded length equal to the other marker is decoded twice' % (
                         U(tn.ast), sorted(d.text()[:40] for u_ in used for d in rd.defs_at(tn, u_))), func=f, node=tn.ast)
    R.ob(RID, 'both extended forms present', sorted((v[0] or ('', ''))[1] for v in forms.values()) == ['!H', '!Q'],
         'extended length forms: %s' % [v[0] for v in forms.values()], func=f, node=plen[0].ast,
         construct='extended length forms')
    lennames = lvs | {U(n.ast.value) for n in ext if isinstance(n.ast.value, ast.Name)}
    R._c04 = {'g': g, 'rd': rd, 'cons': cons, 'lenvar': (sorted(lvs - {lv})[0] if len(lvs) == 2 else lv), 'lendefs': {plen[0]} | set(ext) | copies, 'hdr': hdr,
              'lennames': lennames}


# ----------------------------------------------------------------------------------------------- table
def _raises_of(R, g, family):
    out = []
    for n in g.live_nodes():
        if n.kind == 'stmt' and isinstance(n.ast, ast.Raise) and n.ast.exc is not None:
            toks = R.exc.exc_tokens_of_value(n.ast.exc, g.ctx)
            if any(any(s in family for s in R.exc.supers(t)) for t in toks):
                out.append(n)
    return out


def table(R):
    env = R._c04
    g, rd, cons, lv = env['g'], env['rd'], env['cons'], env['lenvar']
    f = R.func(PARSE)
    framevar = U(cons.ast.targets[0])
    # ---- fields populated before validate()
    vcalls = calls_to(R, g, ['frame.Frame.validate'])
    vn, vc = vcalls[0] if vcalls else (None, None)
    live = set(R._c04_wire_fields) if vcalls else set()
    # attribute stores frame.X = ... that dominate the validate call
    for n in g.live_nodes():
        if n.kind == 'stmt' and isinstance(n.ast, ast.Assign):
            for t in n.ast.targets:
                if isinstance(t, ast.Attribute) and U(t.value) == framevar and vn is not None and g.dominates(n, vn):
                    live.add(t.attr)
    found = {}

    def field_reads(lits):
        fields = set()
        for (txt, pol) in lits:
            try:
                e = ast.parse(txt, mode='eval').body
            except SyntaxError:
                continue
            for x in ast.walk(e):
                if isinstance(x, ast.Attribute) and isinstance(x.value, ast.Name) and x.value.id == 'self':
                    fields.add(x.attr)
        return fields

    for recv in ('frame.Frame', 'frame.CompressedFrame'):
        for q in ('frame.Frame.validate',):
            gv = R.cfg(q, recv)
            rdv = ReachingDefs(gv)
            sites = []
            # raises inside validate itself and inside validate_reserved_bits (per receiver)
            for fq in (q, R.prog.find_method(recv, 'validate_reserved_bits').qual):
                g2 = R.cfg(fq, recv)
                rd2 = ReachingDefs(g2)
                for rn in _raises_of(R, g2, PROTO):
                    for l in path_conditions(R, g2, rd2, g2.entry, rn):
                        sites.append((fq, rn, l))
            # validate must call validate_reserved_bits unconditionally
            rb = calls_to(R, gv, [R.prog.find_method(recv, 'validate_reserved_bits').qual])
            okrb = bool(rb) and all_paths_pass(gv, [gv.entry], [n for (n, _) in rb], [gv.exit], skip_edge=nx)
            R.ob('C04.table', '%s: reserved-bit check runs for every frame' % recv.split('.')[-1], okrb,
                 'validate() can return without validate_reserved_bits()', func=q, node=None,
                 construct=recv + ' validate_reserved_bits call')
            for (fq, rn, l) in sites:
                T = lambda t, p=True: (t, p) in l
                cls = None
                # liveness is judged on the fields the *deciding* literals read (a dead earlier test on an
                # unpopulated field evaluates to a constant and does not influence later checks)
                if T('self.opcode >= 8') and any(t.startswith('len(self.payload) >') and p for (t, p) in l):
                    cls = 'control>125 (validate)'
                    reads = {'opcode', 'payload'}
                elif T('is_reserved(self.opcode)'):
                    cls = 'reserved opcode'
                    reads = {'opcode'}
                elif T('self.fin', False) and T('self.opcode >= 8'):
                    cls = 'fragmented control'
                    reads = {'fin', 'opcode'}
                elif any(t in ('self.rsv1', 'self.rsv2', 'self.rsv3') and p for (t, p) in l):
                    cls = 'reserved bits'
                    reads = set()
                if cls:
                    is_live = reads <= live
                    found.setdefault((recv, cls), []).append((fq, rn, is_live, reads))
    # reserved bits: Frame must test all three, CompressedFrame rsv2 and rsv3 - and never accept when set
    for recv, bits in (('frame.Frame', ('rsv1', 'rsv2', 'rsv3')), ('frame.CompressedFrame', ('rsv2', 'rsv3'))):
        fq = R.prog.find_method(recv, 'validate_reserved_bits').qual
        g2 = R.cfg(fq, recv)
        rd2 = ReachingDefs(g2)
        bad = []
        for l in path_conditions(R, g2, rd2, g2.entry, g2.exit):
            for b in bits:
                if ('self.' + b, False) not in l:
                    bad.append((b, sorted(l)))
        ok = not bad and all(b in live for b in bits)
        R.ob('C04.table', 'reserved bits (%s)' % recv.split('.')[-1], ok,
             'a frame with %s set can pass validate_reserved_bits' % (bad[0][0] if bad else 'a non-wire bit'),
             func=fq, node=None, construct=recv + ' reserved bits ' + ','.join(bits))
    for cls in ('reserved opcode', 'fragmented control'):
        for recv in ('frame.Frame', 'frame.CompressedFrame'):
            sites = found.get((recv, cls), [])
            ok = any(lv_ for (_, _, lv_, _) in sites)
            R.ob('C04.table', '%s (%s)' % (cls, recv.split('.')[-1]), ok,
                 'no live check for "%s": %s' % (cls, [(fq, sorted(rd_)) for (fq, _, _, rd_) in sites] or 'no check site'),
                 func='frame.Frame.validate', node=None, construct='%s check for %s' % (cls, recv))
    # ---- control frame > 125: either live in validate, or on the decoded length in parse
    ok = any(lv_ for recv in ('frame.Frame', 'frame.CompressedFrame')
             for (_, _, lv_, _) in found.get((recv, 'control>125 (validate)'), []))
    where = 'Frame.validate (payload populated before the call)'
    if not ok:
        for rn in _raises_of(R, g, PROTO):
            for l in path_conditions(R, g, rd, cons, rn):
                lo, hi = interval_of(R, g.ctx, l, lv)
                ctl = ('%s.opcode >= 8' % framevar, True) in l or ('opcode >= 8', True) in l
                wire_len = rd.defs_at(rn, lv) <= env['lendefs'] and bool(rd.defs_at(rn, lv))
                if ctl and lo == 126 and hi == INF and wire_len:
                    ok = True
                    where = 'FrameParser.parse on the decoded length'
    R.ob('C04.table', 'control frame longer than 125 bytes', ok,
         'no check compares a wire-derived length of a control frame with 125: Frame.validate() tests '
         'len(self.payload) before the payload has been read (fields live at validate(): %s)' % sorted(live),
         func=f, node=vc, construct='control frame length check')
    # and that check must not reject a legal 125-byte control frame: covered by the interval lo == 126 above

    # ---- length >= 2^63
    ok = False
    for rn in _raises_of(R, g, PROTO):
        for l in path_conditions(R, g, rd, env['hdr'], rn):
            # (the marker tests == 126 / == 127 read the same name while it still held the 7-bit field: not part of the bound)
            l = {(t_, p_) for (t_, p_) in l if not _marker_literal(t_)}
            for nm_ in sorted(env.get('lennames', {lv})):
                lo, hi = interval_of(R, g.ctx, l, nm_)
                if lo == (1 << 63) and hi == INF:
                    ok = True
    # the payload read must be below the bound
    R.ob('C04.table', 'length >= 2^63', ok, 'no check rejects payload lengths >= 2**63 exactly', func=f, node=None,
         construct='payload too large check')
    # ---- continuation discipline in the stream
    q = 'stream.WebsocketStream.feed'
    gs_ = R.cfg(q)
    rds = ReachingDefs(gs_)
    appends = [(n, c) for n in gs_.live_nodes() for c in n.calls
               if isinstance(c.func, ast.Attribute) and c.func.attr == 'append' and U(c.func.value) == 'self._frames']
    need(len(appends) == 1, 'WebsocketStream.feed: expected one self._frames.append')
    an, ac = appends[0]
    fv = U(ac.args[0])
    nexts = [n for n in gs_.live_nodes() if fv in defs_of_node(n)]
    need(len(nexts) == 1, 'WebsocketStream.feed: frame variable has %d definitions' % len(nexts))
    CONT = '%s.opcode == Opcode.CONTINUATION' % fv
    bad = []
    for l in path_conditions(R, gs_, rds, nexts[0], an):
        a = (CONT, True) in l and ('self._frames', True) in l
        b = (CONT, False) in l and ('self._frames', False) in l
        if not (a or b):
            bad.append(sorted(l))
    R.ob('C04.table', 'continuation discipline', not bad,
         'a data frame can be queued with the wrong continuation state: %s' % bad[:1], func=q, node=ac)
    rz = _raises_of(R, gs_, PROTO)
    R.ob('C04.table', 'continuation violations raise ProtocolError', len(rz) >= 2,
         'expected >= 2 protocol-error raises in the stream, found %d' % len(rz), func=q, node=None,
         construct='stream continuation raises')

    # ---- close payload of 1 byte; reserved close code
    q = 'message.Close.from_payload'
    gc = R.cfg(q)
    rdc = ReachingDefs(gc)
    fc = R.func(q)
    p = [x for x in fc.params if x not in ('cls', 'self')][0]
    ok = False
    for rn in _raises_of(R, gc, PROTO):
        for l in path_conditions(R, gc, rdc, gc.entry, rn):
            lo, hi = interval_of(R, gc.ctx, l, 'len(%s)' % p)
            if lo == hi == 1:
                ok = True
    R.ob('C04.table', '1-byte close payload', ok, 'no ProtocolError for a close payload of exactly 1 byte', func=fc,
         node=None, construct='close payload length 1')
    q = 'websocket.WebSocket._on_close'
    go = R.cfg(q)
    rdo = ReachingDefs(go)
    fo = R.func(q)
    mp = [x for x in fo.params if x != 'self'][0]
    atom = '%s.code in Status.invalid_codes' % mp
    rz = [rn for rn in _raises_of(R, go, PROTO)
          if any((atom, True) in l for l in path_conditions(R, go, rdo, go.entry, rn))]
    R.ob('C04.table', 'reserved close code raises', bool(rz), 'no ProtocolError under `%s`' % atom, func=fo, node=None,
         construct='reserved close code check')
    for y in go.yields():
        lits = {(t, p_) for (t, p_, _) in guards_of(go, y)}
        R.ob('C04.table', 'close code checked before any close event', (atom, False) in lits,
             'a Closing/Closed event can be yielded for a reserved close code (check not on every path)', func=fo,
             node=y.ast)
    for (n, c) in calls_to(R, go, 'websocket.WebSocket.close'):
        lits = {(t, p_) for (t, p_, _) in guards_of(go, n)}
        R.ob('C04.table', 'close code checked before the echo', (atom, False) in lits,
             'a reserved close code can be echoed', func=fo, node=c)


# ----------------------------------------------------------------------------------------------- order
def order(R):
    env = R._c04
    g, rd, cons = env['g'], env['rd'], env['cons']
    f = R.func(PARSE)
    framevar = U(cons.ast.targets[0])
    yl = [y for y in g.yields() if isinstance(y.stmt, ast.Expr) and U(y.ast.value) == framevar]
    need(len(yl) >= 1, 'FrameParser.parse: `yield frame` not found')
    vcalls = [n for (n, _) in calls_to(R, g, ['frame.Frame.validate'])]
    ocalls = [n for (n, _) in calls_to(R, g, [CFP + '.on_frame'])]
    for y in yl:
        okv = bool(vcalls) and all_paths_pass(g, normal_succs(cons), vcalls, [y], skip_edge=nx)
        if not okv:
            # allowed: skipped only under a flag that is constant True for the stream's parser
            lits_ok = True
            for l in path_conditions(R, g, rd, cons, y):
                pass
        # paths that skip validate() must carry (self.validate, False)
        skipping = []
        if vcalls:
            r = g.reachable(normal_succs(cons), avoid=set(vcalls), skip_edge=nx)
            if y in r:
                for l in _paths_avoiding(R, g, rd, cons, y, set(vcalls)):
                    if ('self.validate', False) not in l:
                        skipping.append(sorted(l))
        R.ob('C04.order', 'validate() dominates yield frame', bool(vcalls) and not skipping,
             'a frame can be yielded without validate(): %s' % (skipping[:1] or 'no validate() call'), func=f,
             node=y.stmt)
        oko = bool(ocalls) and all_paths_pass(g, normal_succs(cons), ocalls, [y], skip_edge=nx)
        R.ob('C04.order', 'on_frame() dominates yield frame', oko,
             'a frame can be yielded without on_frame() (mask check / bookkeeping skipped for some frames)', func=f,
             node=y.stmt)
    # validate flag: single writer = __init__ parameter; default True; no constructor site passes it
    st = stores_in_package(R, 'validate')
    okf = all(c.func.qual == 'frame_parser.FrameParser.__init__' and U(v) == 'validate' for (c, s, t, v) in st) and bool(st)
    init = R.func('frame_parser.FrameParser.__init__')
    d = default_of(init, 'validate')
    okf = okf and d is not None and fold(R, d, None) is True
    sites = R.types.callers.get('frame_parser.FrameParser.__init__', [])
    for (c, call, t) in sites:
        if t.kind == 'ctor' and arg_of(call, init, 'validate') is not None:
            okf = False
    R.ob('C04.order', 'validate flag is constant True', okf,
         'the validate flag of the stream\'s frame parser is not provably True', func=init, node=None,
         construct='FrameParser.validate flag')
    # lazy consumption of the parser generator in the stream
    q = 'stream.WebsocketStream.feed'
    gs_ = R.cfg(q)
    bad = []
    for n in gs_.live_nodes():
        for c in n.calls:
            fn = U(c.func)
            for a in list(c.args) + [k.value for k in c.keywords]:
                tys = R.types.expr(a, gs_.ctx)
                if any(isinstance(t, str) and t.startswith('gen:parser.Parser.feed') for t in tys):
                    if fn not in ('iter', 'next'):
                        bad.append((n, c))
    R.ob('C04.order', 'frames are pulled lazily from the parser', not bad,
         'the frame generator is drained eagerly by %s: a violation later in the same read discards the messages '
         'completed before it' % (U(bad[0][1]) if bad else ''), func=q, node=(bad[0][1] if bad else None),
         construct=(U(bad[0][1]) if bad else 'lazy frame iteration'))
    # each frame obtained is consumed before the next is requested
    nexts = [n for n in gs_.live_nodes() if any(U(c.func) == 'next' for c in n.calls)]
    R.ob('C04.order', 'parser iteration sites', len(nexts) >= 2, 'expected the response and frame next() sites',
         func=q, node=None, construct='next() sites')


def _paths_avoiding(R, g, rd, start, target, avoid):
    out = []
    from .common import literals_of

    def rec(n, seen, lits):
        if len(out) > 2000:
            raise AnalysisError('path limit')
        if n is target:
            out.append(frozenset(lits))
            return
        for (m, l) in n.succ:
            if l.startswith('exc:') or m in seen or m in avoid:
                continue
            add = set()
            if n.kind == 'test' and l in ('true', 'false'):
                add = literals_of(R, g, rd, n, l == 'true')
            rec(m, seen | {m}, lits | add)
    rec(start, {start}, set())
    return out


# --------------------------------------------------------------------------------------------- opcodes
def opcodes(R):
    oc = class_consts(R, 'opcode.Opcode')
    vals = {k: v for k, v in oc.items() if isinstance(v, int) and k.isupper()}
    mc = module_consts(R, 'opcode')
    m = R.prog.modules['opcode']
    res = None
    for s in m.live:
        if isinstance(s, ast.Assign) and U(s.targets[0]) == 'reserved_opcodes':
            res = fold(R, s.value, None, env={}) if False else None
            vs = None
            if isinstance(s.value, (ast.Set, ast.List, ast.Tuple)):
                vs = []
                for e in s.value.elts:
                    if isinstance(e, ast.Attribute) and U(e.value) == 'Opcode' and e.attr in vals:
                        vs.append(vals[e.attr])
                    elif isinstance(e, ast.Constant):
                        vs.append(e.value)
                    else:
                        vs = None
                        break
            res = set(vs) if vs is not None else None
            if res is None:
                # built by an expression over constants (ranges, unions, a helper function)
                v_ = mc.get('reserved_opcodes')
                if isinstance(v_, (set, frozenset, list, tuple)) and all(isinstance(x, int) for x in v_):
                    res = set(int(x) for x in v_)
    need(res is not None, 'reserved_opcodes is not a constant set')
    want = set(range(16)) - {0, 1, 2, 8, 9, 10}
    R.ob('C04.opcodes', 'reserved set', res == want, 'reserved_opcodes = %s, RFC 6455 says %s' % (sorted(res), sorted(want)),
         func='opcode.is_reserved', node=None, construct='reserved_opcodes %s' % sorted(res))
    named = {'CONTINUATION': 0, 'TEXT': 1, 'BINARY': 2, 'CLOSE': 8, 'PING': 9, 'PONG': 10}
    R.ob('C04.opcodes', 'opcode values', all(vals.get(k) == v for k, v in named.items()),
         'Opcode constants: %s' % {k: vals.get(k) for k in named}, func='opcode.is_reserved', node=None,
         construct='Opcode values')
    f = R.func('opcode.is_reserved')
    rets = [s for s in own_nodes(f.node) if isinstance(s, ast.Return)]
    ok = len(rets) == 1 and U(rets[0].value) == '%s in reserved_opcodes' % f.params[0]
    R.ob('C04.opcodes', 'is_reserved tests membership', ok, 'is_reserved returns %s' % [U(r.value) for r in rets],
         func=f, node=(rets[0] if rets else None))


def closecodes(R):
    sc = class_consts(R, 'status.Status')
    inv = sc.get('invalid_codes')
    need(isinstance(inv, (set, frozenset)), 'Status.invalid_codes is not a constant set')
    inv = set(inv)
    must = set(range(1000)) | {1004, 1005, 1006, 1015}
    missing = sorted(must - inv)
    R.ob('C04.closecodes', 'reserved codes rejected', not missing, 'not rejected: %s' % missing[:8],
         func='websocket.WebSocket._on_close', node=None, construct='invalid_codes missing %s' % missing[:8])
    # RFC 6455 7.4.1 codes plus the IANA-registered 1012 (Service Restart) and 1013 (Try Again Later); 3000-4999
    valid = {1000, 1001, 1002, 1003, 1007, 1008, 1009, 1010, 1011, 1012, 1013} | set(range(3000, 5000))
    wrong = sorted(valid & inv)
    R.ob('C04.closecodes', 'valid codes accepted', not wrong, 'valid codes rejected: %s' % wrong[:8],
         func='websocket.WebSocket._on_close', node=None, construct='invalid_codes contains valid %s' % wrong[:8])


# ----------------------------------------------------------------------------------------------- catch
def catch(R):
    from .common import message_templates
    message_templates(R, 'C04.catch')      # the error constructors must not fail themselves on peer-chosen text
    q = 'websocket.WebSocket.feed'
    g = R.cfg(q)
    f = R.func(q)
    fam = {'errors.ProtocolError', 'errors.CriticalProtocolError', 'parser.ParseError'}
    leaks = []
    handlers = [n for n in g.live_nodes() if n.kind == 'handler']
    inhandler = set()
    for h in handlers:
        inhandler |= g.reachable([h], skip_edge=None)
    for n in g.live_nodes():
        if n in inhandler:
            continue
        for (m, l) in n.succ:
            if l.startswith('exc:') and m is g.raise_exit:
                tok = l[4:]
                if any(s in fam for s in R.exc.supers(tok)):
                    leaks.append((n, tok))
    R.ob('C04.catch', 'protocol errors absorbed by WebSocket.feed', not leaks,
         '%s raised at `%s` is not caught by feed\'s handlers and reaches the session loop\'s catch-all' % (
             leaks[0][1] if leaks else '', leaks[0][0].text() if leaks else ''), func=f,
         node=(leaks[0][0].ast if leaks else None), construct=('leak %s' % leaks[0][1]) if leaks else 'no leak')
    # which classes arrive
    arriving = set()
    for n in g.live_nodes():
        for (m, l) in n.succ:
            if l.startswith('exc:') and m.kind == 'handler':
                arriving.add(l[4:])
    R.ob('C04.catch', 'both error families can arrive', any('Critical' in a for a in arriving)
         and any(a in ('errors.ProtocolError', 'errors.PayloadTooLarge') for a in arriving),
         'exception classes reaching feed\'s handlers: %s' % sorted(arriving), func=f, node=None,
         construct='arriving protocol errors')
    sc = R.ctx('stream.WebsocketStream.feed')
    esc = R.exc.escapes(sc)
    # everything the parser / stream layer can raise on bad input is in one of the two families feed() reports
    stray = sorted(t for t in esc if not ({'errors.ProtocolError', 'errors.CriticalProtocolError'} & set(R.exc.supers(t))))
    R.ob('C04.catch', 'every failure of the stream layer is a (Critical)ProtocolError', not stray,
         '%s can be raised while parsing server data but is neither a ProtocolError nor a CriticalProtocolError: it '
         'passes WebSocket.feed\'s handlers, no ProtocolError event is reported, and it ends in the session loop\'s '
         'catch-all' % stray, func='stream.WebsocketStream.feed', node=None, construct='stray stream failure %s' % stray)
    R.ob('C04.catch', 'ParseError converted in the stream', not any('parser.ParseError' in R.exc.supers(t) for t in esc),
         'ParseError escapes WebsocketStream.feed unconverted', func='stream.WebsocketStream.feed', node=None,
         construct='ParseError conversion')


# ------------------------------------------------------------------------------------------------ once
def once(R):
    q = 'websocket.WebSocket.feed'
    g = R.cfg(q)
    f = R.func(q)
    # force_disconnect never returns when a session exists
    gf = R.cfg('websocket.WebSocket.force_disconnect')
    calls = calls_to(R, gf, 'session.WebsocketSession.force_disconnect')
    from ..cfg import never_returns
    okfd = bool(calls) and never_returns(R.exc, R.ctx('session.WebsocketSession.force_disconnect'))
    for (n, c) in calls:
        lits = {(t, p) for (t, p, _) in guards_of(gf, n)}
        okfd = okfd and match_exact(guard_atom_sets(gf, n), [{('self.state.session is None', False), ('self.session is None', False)}])
    esc = R.exc.escapes(R.ctx('session.WebsocketSession.force_disconnect'))
    R.ob('C04.once', 'force_disconnect raises _ForceDisconnect', okfd and esc == {'session._ForceDisconnect'},
         'session.force_disconnect() may return or raises %s' % sorted(esc), func='websocket.WebSocket.force_disconnect',
         node=None, construct='force_disconnect')
    for h in [n for n in g.live_nodes() if n.kind == 'handler']:
        toks = R.exc.handler_tokens(h.ast, g.ctx)
        if not any(t in ('errors.ProtocolError', 'errors.CriticalProtocolError') for t in toks):
            continue
        critical = 'errors.CriticalProtocolError' in toks
        name = 'critical' if critical else 'protocol'
        body = g.reachable([h], skip_edge=nx)
        ys = [n for n in body if n.kind == 'yield']
        evs = [y for y in ys if isinstance(y.ast.value, ast.Call)
               and any(t.kind == 'ctor' and t.cls == 'events.ProtocolError' for t in R.types.call_targets(y.ast.value, g.ctx))]
        R.ob('C04.once', '%s handler: exactly one event, a ProtocolError' % name, len(ys) == 1 and len(evs) == 1,
             '%d yields in the handler, %d of them ProtocolError events' % (len(ys), len(evs)), func=f, node=h.ast,
             construct='%s handler yields' % name)
        if evs:
            y = evs[0]
            ok = all_paths_pass(g, [h], [y], [g.exit, g.raise_exit])
            R.ob('C04.once', '%s handler: event on every path' % name, ok, 'a path through the handler yields nothing',
                 func=f, node=y.ast)
            ev = y.ast.value
            crit = ev.args[1] if len(ev.args) > 1 else next((k.value for k in ev.keywords if k.arg == 'critical'), None)
            R.ob('C04.once', '%s handler: critical flag' % name, crit is not None and fold(R, crit, g.ctx) is critical,
                 'ProtocolError event built with critical=%s' % U(crit), func=f, node=ev)
            fd = [n for (n, c) in calls_to(R, g, 'websocket.WebSocket.force_disconnect') if n in body]
            ok = bool(fd) and all_paths_pass(g, normal_succs(y), fd, [g.exit], skip_edge=nx)
            R.ob('C04.once', '%s handler: ends in a forced disconnect' % name, ok,
                 'after the ProtocolError event the generator can finish without force_disconnect(): the connection '
                 'is not failed', func=f, node=h.ast, construct='%s handler force_disconnect' % name)
            after = g.succ_reach(y, skip_edge=nx)
            R.ob('C04.once', '%s handler: nothing yielded after the event' % name,
                 not any(n.kind == 'yield' for n in after), 'another event can follow the ProtocolError event', func=f,
                 node=h.ast, construct='%s handler later yield' % name)
            cl = [(n, c) for (n, c) in calls_to(R, g, 'websocket.WebSocket.close') if n in body]
            if critical:
                okc = not cl
            else:
                okc = len(cl) <= 1 and not any(n2 in g.succ_reach(n1, skip_edge=nx) for (n1, _) in cl for (n2, _) in cl)
            R.ob('C04.once', '%s handler: at most one Close (none when critical)' % name, okc,
                 '%d close() calls in the handler' % len(cl), func=f, node=h.ast, construct='%s handler close calls' % name)
            sends = [n for n in body for c in n.calls
                     if any(t.kind == 'func' and t.qual.startswith('websocket.WebSocket.send_')
                            for t in R.types.call_targets(c, g.ctx))]
            R.ob('C04.once', '%s handler: no other frame written' % name, not sends, 'handler sends a data/control frame',
                 func=f, node=h.ast, construct='%s handler sends' % name)


# --------------------------------------------------------------------------------------------- rsvgate
def rsvgate(R):
    st = stores_in_package(R, '_frame_class')
    comp = []
    for (c, s, t, v) in st:
        tys = R.types.expr(v, c)
        if 'cls:frame.CompressedFrame' in tys:
            comp.append((c, s))
        elif tys != {'cls:frame.Frame'}:
            R.ob('C04.rsvgate', 'frame class values', False, '_frame_class assigned %s' % U(v), func=c.func, node=s)
    quals = sorted(set(c.func.qual for (c, s) in comp))
    R.ob('C04.rsvgate', 'single writer of CompressedFrame', quals == ['frame_parser.FrameParser.enable_compression'],
         'RSV1-tolerant frame class installed in %s' % quals, func=(comp[0][0].func if comp else None),
         node=(comp[0][1] if comp else None), construct='_frame_class = CompressedFrame in %s' % quals)

    def only_callers(target, allowed):
        sites = R.types.callers.get(target, [])
        qs = sorted(set(c.func.qual for (c, call, t) in sites))
        R.ob('C04.rsvgate', 'callers of %s' % target.rsplit('.', 1)[1], qs == allowed,
             '%s is called from %s' % (target, qs), func=target, node=None, construct='callers of %s: %s' % (target, qs))
        return sites
    only_callers('frame_parser.FrameParser.enable_compression', ['stream.WebsocketStream.set_compression'])
    sites = only_callers('stream.WebsocketStream.set_compression', ['websocket.WebSocket.process_extensions'])
    q = 'websocket.WebSocket.process_extensions'
    g = R.cfg(q)
    rd = ReachingDefs(g)
    for (n, c) in calls_to(R, g, 'stream.WebsocketStream.set_compression'):
        lits = {(t, p) for (t, p, _) in guards_of(g, n)}
        ok = any(t.endswith("== 'permessage-deflate'") and p for (t, p) in lits)
        R.ob('C04.rsvgate', 'activation under the permessage-deflate token', ok,
             'set_compression reachable without the extension token test: %s' % sorted(lits), func=q, node=c)
        # RSV1 tolerance is switched on only together with a usable Deflate object
        a = c.args[0] if c.args else None
        origins = rd.origins(n, a) if a is not None else []
        okd = bool(origins) and all(isinstance(o, ast.Call) and R.types.resolves_to(o, g.ctx, 'compression.Deflate.from_options')
                                    for (o, _) in origins)
        R.ob('C04.rsvgate', 'compressed-frame parsing enabled only with a negotiated Deflate object', okd,
             'set_compression() can be called with %s: enable_compression() then accepts RSV1 although no usable '
             'extension was negotiated' % [U(o) for (o, _) in origins], func=q, node=c)
    esc = R.exc.escapes(g.ctx)
    R.ob('C04.rsvgate', 'unusable extension parameters reject the handshake', 'errors.CompressionParameterError' in esc,
         'process_extensions swallows CompressionParameterError (escape set %s): the handshake is accepted with an '
         'extension the client cannot honour' % sorted(esc), func=q, node=None, construct='process_extensions swallows parameter errors')


# ------------------------------------------------------------------------------------------------ disc
def disc(R):
    q = 'session.WebsocketSession.run'
    g = R.cfg(q)
    init = R.func('events.Disconnected.__init__')
    d = default_of(init, 'graceful')
    n_h = 0
    for y in g.yields():
        v = y.ast.value
        if isinstance(v, ast.Call) and any(t.kind == 'ctor' and t.cls == 'events.Disconnected'
                                           for t in R.types.call_targets(v, g.ctx)):
            inh = any(fr.kind == 'handler' for fr in y.frames)
            a = arg_of(v, init, 'graceful')
            val = fold(R, a if a is not None else d, g.ctx)
            if inh:
                n_h += 1
                R.ob('C04.disc', 'handler Disconnected is non-graceful', val is False,
                     'Disconnected in an exception handler has graceful=%s' % U(a if a is not None else d), func=q, node=v)
    need(n_h >= 1, 'no Disconnected yields in handlers of run()')


def masked(R):
    init = R.func('stream.WebsocketStream.__init__')
    st = [(c, s, t, v) for (c, s, t, v) in stores_in_package(R, 'frame_parser') if c.func.qual == init.qual]
    ok = len(st) == 1 and R.types.expr(st[0][3], st[0][0]) == {'inst:' + CFP}
    R.ob('C04.masked', 'stream uses the client parser', ok, 'WebsocketStream.frame_parser = %s' % (
        U(st[0][3]) if st else None), func=init, node=(st[0][1] if st else None))
    q = CFP + '.on_frame'
    g = R.cfg(q, CFP)
    rd = ReachingDefs(g)
    f = R.func(q)
    fp = [p for p in f.params if p != 'self'][0]
    rz = _raises_of(R, g, PROTO)
    good = False
    for rn in rz:
        for l in path_conditions(R, g, rd, g.entry, rn):
            if match_exact(path_atom_sets(l), [{('%s.mask' % fp, True)}]):
                good = True
    R.ob('C04.masked', 'mask bit alone triggers the error', good,
         'no ProtocolError raised under exactly `%s.mask`' % fp, func=f, node=None, construct='mask check')
    # normal exit only with mask false
    bad = [sorted(l) for l in path_conditions(R, g, rd, g.entry, g.exit) if ('%s.mask' % fp, False) not in l]
    R.ob('C04.masked', 'a masked frame never passes on_frame', not bad, 'on_frame can return for a masked frame: %s' % bad[:1],
         func=f, node=None, construct='masked frame passes')
