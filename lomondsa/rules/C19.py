"""C19 - with a proxy configured, nothing is sent to the target before the tunnel is up."""
import ast

from ..program import AnalysisError, U, own_nodes, walk_no_nested
from ..dataflow import ReachingDefs, defs_of_node
from ..consteval import fold
from .common import (match_exact, guard_atom_sets, path_atom_sets, unmatched, need, guards_of, calls_to, ext_calls, all_paths_pass, succs, normal_succs, path_conditions,
                     is_param, arg_of, default_of, stores_in_package)
from . import C10

PROPERTY = 'C19'
LEVEL = 'other'
EXPLANATION = (
    'Must-pass-through and who-may-call rules: proxy entry chosen by the target scheme; _connect_proxy connects to the '
    'proxy URL\'s host and scheme-default port, sends exactly one CONNECT naming websocket.host/port, and can return '
    'only after the read loop obtained a non-None response, whose only producer (ProxyParser.parse) yields it only '
    'behind `status_code != 200 -> raise` and `ParseError -> raise` with a 16 KiB bound enforced in both arms; no other '
    'send happens before the return; build_request/_send_request are reachable only from run() after _connect() '
    'returned normally, so every failure inside the proxy negotiation ends in ConnectFail with no handshake byte '
    'written.')
NOT_DECIDED = 'proxy reply parsing as values; credential encoding'
ASSUMPTIONS = ['urlparse splits the proxy URL as documented']

S = 'session.WebsocketSession'
nx = lambda a, b, l: l.startswith('exc:')


def check(run):
    R = run
    R.rule('C19.shared', 'objects created once per class / per function definition (class-level attributes, parameter '
           'defaults) are only read: no buffer, validator, poll object, header list or option dict is shared between '
           'connections', 1)
    from .common import shared_state
    shared_state(R, 'C19.shared')
    R.rule('C19.choice', "proxy entry looked up under 'https' for wss and 'http' for ws; a falsy entry takes the direct "
                         'arm; the proxied arm reports the proxy URL to Connected', 5)
    from .common import event_fields as _event_fields
    _event_fields(R, 'C19.choice', ['Connected'])      # Connected reports the proxy it was given
    R.rule('C19.connect', 'connect to the proxy URL host/port (443/80 by proxy scheme, TLS by proxy scheme); CONNECT built '
                          'from websocket.host/port; exactly one sendall before the read loop', 6)
    R.rule('C19.gate', 'return only after a non-None response from ProxyParser.feed; the parser yields a response only '
                       'for status 200 and a well-formed, <=16 KiB header block', 9)
    from .common import exception_text_total as _ett
    _ett(R, 'C19.gate')        # '{}'.format(error) in the failure handlers cannot itself fail
    R.rule('C19.silent', 'nothing else is sent on the proxy socket before the return; TLS to the target after the loop', 2)
    R.rule('C19.order', 'build_request only from _send_request, only from run(), after _connect() returned normally', 4)
    R.rule('C19.private', 'the proxy socket is not published to the session before the tunnel is up (other threads\' '
                          'sends would reach the proxy); an explicit (even empty) proxies mapping is used as given', 6)
    from . import C09
    with R.as_rule('C19.private'):
        C09.socknull(R)
    proxies_arg(R)
    choice(R)
    connect(R)
    gate(R)
    silent(R)
    order(R)


def proxies_arg(R):
    q = 'websocket.WebSocket.__init__'
    g = R.cfg(q)
    from .common import value_cases
    st = [n for n in g.live_nodes() if n.kind == 'stmt' and isinstance(n.ast, ast.Assign) and U(n.ast.targets[0]) == 'self.proxies']
    need(len(st) >= 1, 'WebSocket.__init__: self.proxies not assigned')
    ok = True
    seen = set()
    for n in st:
        for (conds, val, site) in value_cases(R, g, n, n.ast.value):
            gl = set(conds) | {(t, p) for (t, p, _) in guards_of(g, n)}
            if U(val) == 'proxies' and ('proxies is None', False) in gl:
                seen.add('given')
            elif isinstance(val, ast.Call) and 'detect_proxies' in U(val.func) and ('proxies is None', True) in gl:
                seen.add('detect')
            else:
                ok = False
    R.ob('C19.private', 'proxies used as given unless None', ok and seen == {'given', 'detect'},
         'self.proxies = %s: an explicitly passed empty mapping must disable proxying (environment detection only when '
         'proxies is None)' % [U(n.ast.value) for n in st], func=q, node=st[0].ast)


def _entry_tests(R):
    """Whether to go through a proxy is decided by the configured entry itself (an empty mapping / None / '' disables
    proxying, anything else is a proxy): every test computed from the looked-up entry tests the entry, not something
    derived from it (a parsed host name is None for the common `host:port` spelling)."""
    from .common import canon
    n = 0
    for fq, fi in sorted(R.prog.funcs.items()):
        if fi.module.name != 'session' or fi.cls is None:
            continue
        if 'proxies' not in U(fi.node):
            continue
        g = R.cfg(fq)
        looks = [(m, c) for m in g.live_nodes() for c in m.calls
                 if isinstance(c.func, ast.Attribute) and c.func.attr == 'get'
                 and canon(R, g, m, c.func) == 'self.websocket.proxies.get']
        for (m, c) in looks:
            ltxt = canon(R, g, m, c)
            for t in g.live_nodes():
                if t.kind != 'test':
                    continue
                e = t.ast
                while isinstance(e, ast.UnaryOp) and isinstance(e.op, ast.Not):
                    e = e.operand
                txt = canon(R, g, t, e)
                if ltxt not in txt:
                    continue
                n += 1
                ok = txt in (ltxt, ltxt + ' is None', ltxt + ' is not None')
                R.ob('C19.choice', 'the proxy decision tests the configured entry', ok,
                     '%s decides on `%s`, which is derived from the configured proxy entry but is not the entry: a configured '
                     'proxy for which this is false (a `host:port` URL has no parsed host name) is silently bypassed and the '
                     'handshake goes straight to the target' % (fq, U(t.ast)), func=fi, node=t.ast,
                     construct='proxy decision %s' % U(t.ast))
    return n      # (the rules below anchor the lookup itself: no count is required here)


def choice(R):
    _entry_tests(R)
    q = S + '._connect'
    g = R.cfg(q)
    rd = ReachingDefs(g)
    f = R.func(q)
    pc = calls_to(R, g, S + '._connect_proxy')
    need(len(pc) == 1, '_connect: expected one _connect_proxy call')
    pn, pcall = pc[0]
    purl = pcall.args[0] if pcall.args else None
    o, on = rd.origin(pn, purl)
    from .common import canon
    if not (isinstance(o, ast.Call) and canon(R, g, on, o.func) == 'self.websocket.proxies.get'):
        # the entry is taken apart before the call (host / port / credentials passed separately): the entry is the one
        # lookup in the proxies table that the arguments are computed from
        looks = [(m, c) for m in g.live_nodes() for c in m.calls if canon(R, g, m, c.func) == 'self.websocket.proxies.get']
        if len(looks) == 1:
            ltxt = canon(R, g, looks[0][0], looks[0][1])
            if pcall.args and all(ltxt in canon(R, g, pn, a) for a in pcall.args if not isinstance(a, ast.Constant)):
                on, o = looks[0]
                purl = None
    ok = isinstance(o, ast.Call) and canon(R, g, on, o.func) == 'self.websocket.proxies.get' and not o.keywords \
        and (len(o.args) == 1 or (len(o.args) == 2 and isinstance(o.args[1], ast.Constant) and o.args[1].value is None)) \
        and isinstance(o.args[0], ast.IfExp) and canon(R, g, on, o.args[0].test) == 'self.websocket.is_secure' \
        and fold(R, o.args[0].body, g.ctx) == 'https' and fold(R, o.args[0].orelse, g.ctx) == 'http'
    R.ob('C19.choice', 'entry chosen by the target scheme', ok, 'proxy looked up with %s' % U(o), func=f, node=o)
    lits = {(t, p) for (t, p, _) in guards_of(g, pn)}
    name = purl.id if isinstance(purl, ast.Name) else None
    # every name that holds the looked-up entry (copies of the .get() result)
    names = set()
    for m in g.live_nodes():
        for nm in defs_of_node(m):
            v = rd.value_of_def(m, nm)
            if v is not None and rd.origin(m, v)[0] is o:
                names.add(nm)
    if name:
        names.add(name)
    R.ob('C19.choice', 'proxied arm only for a truthy entry', match_exact(guard_atom_sets(g, pn), [{(x, True) for x in names}]),
         '_connect_proxy under %s' % sorted(lits), func=f, node=pcall)
    dc = calls_to(R, g, S + '._connect_sock')
    okd = len(dc) == 1 and match_exact(guard_atom_sets(g, dc[0][0]), [{(x, False) for x in names}])
    if okd:
        c = dc[0][1]
        cs = R.func(S + '._connect_sock')
        okd = canon(R, g, dc[0][0], arg_of(c, cs, 'host')) == 'self.websocket.host' \
            and canon(R, g, dc[0][0], arg_of(c, cs, 'port')) == 'self.websocket.port' \
            and canon(R, g, dc[0][0], arg_of(c, cs, 'ssl')) == 'self.websocket.is_secure'
    R.ob('C19.choice', 'direct arm connects to the target', okd, 'direct arm: %s' % [U(c_) for (_, c_) in dc], func=f,
         node=(dc[0][1] if dc else None))
    rets = [r for r in g.live_nodes() if r.kind == 'stmt' and isinstance(r.ast, ast.Return)]
    ok = bool(rets)
    for r in rets:
        v = r.ast.value
        ok = ok and isinstance(v, ast.Tuple) and len(v.elts) == 2
        if ok:
            vals = set()
            for (oe, onn) in rd.origins(r, v.elts[1]):
                vals.add(U(oe))
            ok = vals <= ({'None', U(o)} | names) and 'None' in vals and len(vals) == 2
            # proxy value only on the proxied path
            for d in rd.defs_at(r, U(v.elts[1])):
                val = rd.value_of_def(d, U(v.elts[1]))
                gl = {(t, p) for (t, p, _) in guards_of(g, d)}
                if val is not None and U(val) != 'None':
                    ok = ok and any((x, True) in gl for x in names)
                if val is not None and U(val) == 'None':
                    ok = ok and any((x, False) in gl for x in names)
    R.ob('C19.choice', '_connect returns (socket, proxy url or None)', ok, '_connect returns %s' % [U(r.ast.value) for r in rets],
         func=f, node=(rets[0].ast if rets else None))
    gr = R.cfg(S + '.run')
    rdr = ReachingDefs(gr)
    cc = calls_to(R, gr, q)
    need(len(cc) == 1, 'run(): _connect call not found')
    cn = cc[0][0]
    okc = isinstance(cn.ast, ast.Assign) and isinstance(cn.ast.targets[0], ast.Tuple)
    ys = [y for y in gr.yields() if isinstance(y.ast.value, ast.Call)
          and any(t.kind == 'ctor' and t.cls == 'events.Connected' for t in R.types.call_targets(y.ast.value, gr.ctx))]
    if okc and ys:
        pv = U(cn.ast.targets[0].elts[1])
        a = arg_of(ys[0].ast.value, R.func('events.Connected.__init__'), 'proxy')
        to = rdr.tuple_origin(ys[0], a) if a is not None else None
        okc = to is not None and to[2] is cn and to[1] == 1
    R.ob('C19.choice', 'Connected reports the proxy', bool(okc and ys), 'Connected(proxy=...) is not the value returned by _connect',
         func=S + '.run', node=(ys[0].ast if ys else None), construct='Connected proxy arg')


def connect(R):
    q = S + '._connect_proxy'
    g = R.cfg(q)
    rd = ReachingDefs(g)
    f = R.func(q)
    purl = f.params[1]
    cs = calls_to(R, g, S + '._connect_sock')
    need(len(cs) == 1, '_connect_proxy: expected one _connect_sock call')
    n, c = cs[0]
    sockf = R.func(S + '._connect_sock')
    pu = None
    for m in g.live_nodes():
        if m.kind == 'stmt' and isinstance(m.ast, ast.Assign) and isinstance(m.ast.value, ast.Call) \
                and U(m.ast.value.func) == 'urlparse' and U(m.ast.value.args[0]) == purl:
            pu = U(m.ast.targets[0])
    lifted = None
    if pu is None:
        # the entry is parsed by the caller and its parts are passed in: evaluate the same rules at the one call site
        from .common import canon as _canon
        callers = [(cx, call) for (cx, call, t) in R.types.callers.get(f.qual, [])]
        h0 = arg_of(c, sockf, 'host')
        if len(callers) == 1 and isinstance(h0, ast.Name) and h0.id in f.params and rd.defs_at(n, h0.id) == {g.entry}:
            cx, call = callers[0]
            cg = R.cfg(cx.func.qual, cx.recv)
            cn = [m for m in cg.live_nodes() if call in m.calls]
            crd = ReachingDefs(cg)
            for m in cg.live_nodes():
                if m.kind == 'stmt' and isinstance(m.ast, ast.Assign) and isinstance(m.ast.value, ast.Call) \
                        and U(m.ast.value.func) == 'urlparse' and m.ast.value.args:
                    eo, eon = crd.origin(m, m.ast.value.args[0])
                    if isinstance(eo, ast.Call) and _canon(R, cg, eon, eo.func) == 'self.websocket.proxies.get':
                        pu = U(m.ast.targets[0])
            if pu is not None and cn:
                lifted = (cg, cn[0], call)
    need(pu is not None, '_connect_proxy: proxy URL is not parsed with urlparse')

    n0, g0 = n, g

    def _lift(e):
        # an unmodified parameter stands for the argument of the one call
        if lifted is not None and isinstance(e, ast.Name) and e.id in f.params and rd.defs_at(n0, e.id) == {g0.entry}:
            return arg_of(lifted[2], f, e.id)
        return e
    h = _lift(arg_of(c, sockf, 'host'))
    R.ob('C19.connect', 'connects to the proxy host', h is not None and U(h) == pu + '.hostname', 'host=%s' % U(h), func=f, node=c)
    p = _lift(arg_of(c, sockf, 'port'))
    po = p
    from .common import value_cases, otext
    if lifted is not None:
        g, n = lifted[0], lifted[1]
    cases = value_cases(R, g, n, p) if p is not None else []
    seen_cases = set()
    okp = bool(cases)
    HT = "%s.scheme == 'https'" % pu
    for (conds, val, site) in cases:
        v = fold(R, val, g.ctx)
        if otext(R, g, site, val) in ('int(%s.port)' % pu, '%s.port' % pu) and (pu + '.port', True) in conds:
            seen_cases.add('explicit')
        elif v == 443 and (pu + '.port', False) in conds and (HT, True) in conds:
            seen_cases.add('https')
        elif v == 80 and (pu + '.port', False) in conds and (HT, False) in conds:
            seen_cases.add('http')
        else:
            okp = False
            po = val
    ok = okp and seen_cases == {'explicit', 'https', 'http'}
    R.ob('C19.connect', 'proxy port: explicit, else 443/80 by the proxy scheme', ok, 'port cases: %s' % [
        (sorted(c)[:3], U(v)) for (c, v, _) in cases], func=f, node=(po if po is not None else c))
    s = _lift(arg_of(c, sockf, 'ssl'))
    g, n = R.cfg(q), cs[0][0]
    R.ob('C19.connect', 'TLS to the proxy by the proxy scheme', s is not None and U(s) == "%s.scheme == 'https'" % pu,
         'ssl=%s' % U(s), func=f, node=c)
    br = calls_to(R, g, 'proxy.build_request')
    need(len(br) == 1, '_connect_proxy: expected one proxy.build_request call')
    bn, bc = br[0]
    bf = R.func('proxy.build_request')
    from .common import canon
    ok = canon(R, g, bn, arg_of(bc, bf, 'host', bound=False)) == 'self.websocket.host' \
        and canon(R, g, bn, arg_of(bc, bf, 'port', bound=False)) == 'self.websocket.port'
    R.ob('C19.connect', 'CONNECT names the target host and port', ok, 'build_request(%s)' % ', '.join(U(a) for a in bc.args),
         func=f, node=bc)
    from . import C10 as _C10
    _C10.target_port(R, 'C19.connect')       # ... and websocket.port is the URL's port (an explicit one for wss too)
    sends = ext_calls(R, g, {'socket.sendall', 'socket.send'})
    ok = len(sends) == 1
    if ok:
        sn, sc = sends[0]
        o, on = rd.origin(sn, sc.args[0])
        ok = o is bc and not any(fr.kind == 'loop' for fr in sn.frames)
        so, son = rd.origin(sn, sc.func.value)
        ok = ok and so is c
    R.ob('C19.connect', 'exactly one sendall: the CONNECT request on the proxy socket', ok,
         'sends in _connect_proxy: %s' % [U(c_) for (_, c_) in sends], func=f, node=(sends[0][1] if sends else None))
    # request text
    g2 = R.cfg('proxy.build_request')
    first = [m for m in g2.live_nodes() if m.kind == 'stmt' and isinstance(m.ast, ast.Assign) and isinstance(m.ast.value, ast.List)
             and len(m.ast.value.elts) == 1]
    ok = False
    rd2_ = ReachingDefs(g2)
    for m in first:
        e = m.ast.value.elts[0]
        if isinstance(e, ast.Name):
            e = rd2_.origin(m, e)[0]          # request line kept in a local first
        inner = e.func.value if isinstance(e, ast.Call) and isinstance(e.func, ast.Attribute) and e.func.attr == 'encode' else None
        if isinstance(inner, ast.Call) and U(inner.func) == "'CONNECT {}:{} HTTP/1.1'.format" and \
                [U(a) for a in inner.args] == bf.params[:2]:
            ok = True
    R.ob('C19.connect', 'request line CONNECT host:port HTTP/1.1', ok, 'CONNECT request line not in the expected form',
         func='proxy.build_request', node=None, construct='CONNECT request line')


def gate(R):
    q = S + '._connect_proxy'
    g = R.cfg(q)
    rd = ReachingDefs(g)
    f = R.func(q)
    rets = [r for r in g.live_nodes() if r.kind == 'stmt' and isinstance(r.ast, ast.Return)]
    need(rets, '_connect_proxy has no return')
    feeds = [n for n in g.live_nodes() if n.kind == 'for' and any(
        isinstance(t, str) and t.startswith('gen:parser.Parser.feed') for t in R.types.expr(n.ast.iter, g.ctx))]
    need(len(feeds) == 1, '_connect_proxy: loop over proxy_parser.feed(data) not found')
    fl = feeds[0]
    rv = U(fl.ast.target)
    for r in rets:
        lits = {(t, p) for (t, p, _) in guards_of(g, r)}
        # ... or the return is reached only through the body of the loop over the parser's results (a result was bound)
        ok = ('%s is None' % rv, False) in lits or any(t_ is fl and p_ for (_, p_, t_) in guards_of(g, r))
        R.ob('C19.gate', 'return only with a non-None response', ok,
             '_connect_proxy can return while `%s is None` has not been found false (guards %s)' % (rv, sorted(lits)),
             func=f, node=r.ast)
    defs = [n for n in g.live_nodes() if rv in defs_of_node(n)]
    nonnone = [n for n in defs if not (n.kind == 'stmt' and isinstance(n.ast, ast.Assign) and U(n.ast.value) == 'None')]
    R.ob('C19.gate', 'the only non-None response is a parser result', nonnone == [fl],
         'response is also defined by %s' % [n.text() for n in nonnone if n is not fl], func=f, node=fl.ast,
         construct='response producers')
    it = rd.origin(fl, fl.ast.iter)[0]
    recv_ok = isinstance(it, ast.Call) and isinstance(it.func, ast.Attribute) and \
        'inst:proxy.ProxyParser' in R.types.expr(it.func.value, g.ctx)
    R.ob('C19.gate', 'responses come from a ProxyParser', recv_ok, 'iterating %s' % U(it), func=f, node=it)
    rcv = ext_calls(R, g, {'socket.recv'})
    ok = len(rcv) == 1 and isinstance(it, ast.Call) and it.args and rd.defs_at(fl, U(it.args[0])) == {rcv[0][0]}
    R.ob('C19.gate', 'the parser is fed what was received', ok, 'feed(%s)' % (U(it.args[0]) if isinstance(it, ast.Call) and it.args else ''),
         func=f, node=it)
    # parser created fresh per negotiation
    pp = [n for n in g.live_nodes() if n.kind == 'stmt' and isinstance(n.ast, ast.Assign) and isinstance(n.ast.value, ast.Call)
          and any(t.kind == 'ctor' and t.cls == 'proxy.ProxyParser' for t in R.types.call_targets(n.ast.value, g.ctx))]
    R.ob('C19.gate', 'fresh ProxyParser per negotiation', len(pp) == 1, 'ProxyParser constructed at %d sites' % len(pp), func=f,
         node=(pp[0].ast if pp else None), construct='ProxyParser construction')
    # ProxyParser.parse
    q2 = 'proxy.ProxyParser.parse'
    g2 = R.cfg(q2, 'proxy.ProxyParser', injected=frozenset({'parser.ParseError'}))
    rd2 = ReachingDefs(g2)
    ys = [y for y in g2.yields() if isinstance(y.stmt, ast.Expr) and y.stmt.value is y.ast]       # `yield <response>` statements
    need(len(ys) == 1, 'ProxyParser.parse: response yield not found')
    y = ys[0]
    rvar = U(y.ast.value)
    bad = []
    for l in path_conditions(R, g2, rd2, g2.entry, y):
        if not match_exact(path_atom_sets(l), [{('%s.status_code == 200' % rvar, True)}]):
            bad.append(sorted(l))
    R.ob('C19.gate', 'a response is yielded only for status 200', not bad,
         'ProxyParser yields a response under %s (required: exactly status_code == 200)' % bad[:1], func=q2, node=y.ast)
    o, on = rd2.origin(y, y.ast.value)
    ok = isinstance(o, ast.Call) and any(t.kind == 'ctor' and t.cls == 'proxy.ProxyResponse' for t in R.types.call_targets(o, g2.ctx))
    R.ob('C19.gate', 'the response is parsed from the header block read', ok, 'yielded value %s' % U(o), func=q2, node=o)
    # a ParseError thrown in while a read is awaited (EOF, oversize) is converted to ProxyFail
    aw = [n for n in g2.yields() if n is not y]
    okc = bool(aw)
    for n in aw:
        tgt = [m for (m, l) in n.succ if l == 'exc:parser.ParseError']
        okc = okc and bool(tgt) and all(m.kind == 'handler' for m in tgt)
        for m in tgt:
            outs = set(l for x in g2.reachable([m]) for (z, l) in x.succ if z is g2.raise_exit)
            okc = okc and outs == {'exc:proxy.ProxyFail'} and g2.exit not in g2.reachable([m], skip_edge=nx)
    R.ob('C19.gate', 'parse failures raise ProxyFail', okc,
         'a ParseError thrown into ProxyParser.parse while it awaits the header block is not converted to ProxyFail',
         func=q2, node=None, construct='ProxyParser ParseError conversion')
    C10.limit(R, RID='C19.gate', recv='proxy.ProxyParser')
    from . import C09
    C09.proxyread(R, RID='C19.gate')
    from . import C02
    C02.parser_lifetime(R, RID='C19.gate')
    statusline(R)
    # EOF: Parser.feed raises on empty data
    q3 = 'parser.Parser.feed'
    g3 = R.cfg(q3, 'proxy.ProxyParser')
    rd3 = ReachingDefs(g3)
    thr = [n for n in g3.live_nodes() for c in n.calls if isinstance(c.func, ast.Attribute) and c.func.attr == 'throw'
           and ('data', False) in {(t, p) for (t, p, _) in guards_of(g3, n)}]
    R.ob('C19.gate', 'empty read (EOF) is thrown into the parser', bool(thr), 'Parser.feed does not fail on EOF', func=q3,
         node=None, construct='EOF throw')


def silent(R):
    q = S + '._connect_proxy'
    g = R.cfg(q)
    rd = ReachingDefs(g)
    f = R.func(q)
    sends = ext_calls(R, g, {'socket.sendall', 'socket.send'})
    writes = calls_to(R, g, [S + '.write', S + '.send', S + '._send_request', 'websocket.WebSocket.build_request'])
    R.ob('C19.silent', 'no WebSocket handshake bytes in _connect_proxy', not writes and len(sends) <= 1,
         '_connect_proxy also sends %s' % [U(c) for (_, c) in writes + sends[1:]], func=f,
         node=(writes[0][1] if writes else None), construct='extra sends in _connect_proxy')
    wraps = calls_to(R, g, S + '._wrap_socket')
    feeds = [n for n in g.live_nodes() if n.kind == 'for']
    heads = [n for n in g.live_nodes() if n.kind == 'loophead']
    ok = True
    for (n, c) in wraps:
        lits = {(t, p) for (t, p, _) in guards_of(g, n)}
        ok = ok and (any(t.endswith(' is None') and not p for (t, p) in lits) or any(
            t_.kind == 'for' and p_ and any(
                isinstance(ty, str) and ty.startswith('gen:parser.Parser.feed') for ty in R.types.expr(t_.ast.iter, g.ctx))
            for (_, p_, t_) in guards_of(g, n)))
    R.ob('C19.silent', 'TLS to the target only after the tunnel is up', ok, 'target TLS wrap before the response was obtained',
         func=f, node=(wraps[0][1] if wraps else None), construct='wrap placement')


def order(R):
    def callers(t):
        return sorted(set(c.func.qual for (c, call, tt) in R.types.callers.get(t, [])))
    a = callers('websocket.WebSocket.build_request')
    R.ob('C19.order', 'build_request only from _send_request', a == [S + '._send_request'], 'build_request called from %s' % a,
         func='websocket.WebSocket.build_request', node=None, construct='build_request callers %s' % a)
    b = callers(S + '._send_request')
    R.ob('C19.order', '_send_request only from run', b == [S + '.run'], '_send_request called from %s' % b, func=S + '._send_request',
         node=None, construct='_send_request callers %s' % b)
    g = R.cfg(S + '.run', fault='arbitrary')
    cc = calls_to(R, g, S + '._connect')
    sr = calls_to(R, g, S + '._send_request')
    need(len(cc) == 1 and len(sr) == 1, 'run(): _connect/_send_request not found')
    cn, sn = cc[0][0], sr[0][0]
    ok = sn in g.reachable(normal_succs(cn), skip_edge=nx) and \
        sn not in g.reachable([m for (m, l) in cn.succ if l.startswith('exc:')], avoid={cn})
    R.ob('C19.order', 'request only after _connect() returned normally', ok,
         '_send_request is reachable after a failed _connect()', func=S + '.run', node=sr[0][1])
    # every exceptional exit of _connect leads to ConnectFail and return without any write
    exc_succ = [m for (m, l) in cn.succ if l.startswith('exc:')]
    reach = g.reachable(exc_succ)
    ys = [y for y in reach if y.kind == 'yield']
    okf = bool(ys) and all(any(t.kind == 'ctor' and t.cls == 'events.ConnectFail'
                               for t in R.types.call_targets(y.ast.value, g.ctx)) for y in ys if isinstance(y.ast.value, ast.Call)) \
        and not any(m is g.raise_exit for (m, l) in cn.succ if l.startswith('exc:'))
    R.ob('C19.order', 'every _connect failure yields ConnectFail', okf and all_paths_pass(g, exc_succ, ys, [g.exit]),
         'a failure inside _connect() does not end in a ConnectFail event', func=S + '.run', node=cc[0][1])


def statusline(R, RID='C19.gate'):
    """The status code the 200-test looks at is parsed from the *bytes* of the status line: bytes.split(None) / int(bytes)
    treat only the six ASCII blanks as white space, whereas str.split(None) and int(str) also accept the control
    characters 0x1c-0x1f (and, in general, Unicode spaces and digits) - decoding the line before tokenising it lets a
    garbage status line pass for `HTTP/1.1 200 OK`."""
    q = 'response.Response.__init__'
    f = R.func(q)
    g = R.cfg(q)
    rd = ReachingDefs(g)
    pi = R.prog.find_method('proxy.ProxyResponse', '__init__')
    R.ob(RID, 'ProxyResponse parses with Response.__init__', pi is not None and pi.qual == q,
         'ProxyResponse.__init__ is %s' % (pi.qual if pi else None), func=q, node=None, construct='ProxyResponse parser')
    st = [n for n in g.live_nodes() if n.kind == 'stmt' and isinstance(n.ast, ast.Assign)
          and any(U(t) == 'self.status_code' for t in n.ast.targets) and isinstance(n.ast.value, ast.Call)]
    if not st:
        # parsed into a local first:  code = int(...) / code = None;  self.status_code = code
        for n0 in g.live_nodes():
            if n0.kind == 'stmt' and isinstance(n0.ast, ast.Assign) and any(U(t) == 'self.status_code' for t in n0.ast.targets) \
                    and isinstance(n0.ast.value, ast.Name):
                for d in rd.defs_at(n0, n0.ast.value.id):
                    if d.kind == 'stmt' and isinstance(d.ast, ast.Assign) and isinstance(d.ast.value, ast.Call):
                        st.append(d)
    need(len(st) == 1, 'Response.__init__: status_code = int(...) not found')
    n = st[0]
    # the status line is the FIRST line of the block: the line variable the code is parsed from has one definition,
    # `next(<iterator over the lines>)`, outside any loop (skipping blank / junk lines in front lets a reply that does not start
    # with a status line pass for a 200)
    tok_src = None
    for x in walk_no_nested(n.ast.value):
        if isinstance(x, ast.Name) and isinstance(x.ctx, ast.Load) and x.id not in ('int', 'next'):
            tok_src = x
    lv_defs = []
    if tok_src is not None:
        # tokens = iter(status_line.split(None, 2)): follow back to the line variable
        o_, on_ = rd.origin(n, tok_src)
        names_ = [y for y in walk_no_nested(o_) if isinstance(y, ast.Name) and isinstance(y.ctx, ast.Load)
                  and y.id not in ('iter', 'int', 'next')]
        for y in names_:
            ds_ = rd.defs_at(on_, y.id)
            if any(isinstance(rd.value_of_def(d_, y.id), ast.Call) and U(rd.value_of_def(d_, y.id).func) == 'next' for d_ in ds_ if d_ is not g.entry):
                lv_defs = [(y.id, ds_)]
    for (nm_, ds_) in lv_defs:
        alld = [d_ for d_ in g.live_nodes() if nm_ in defs_of_node(d_)]
        inloop = [d_ for d_ in alld if any(fr.kind == 'loop' for fr in d_.frames)]
        R.ob(RID, 'the status line is the first line of the reply', len(alld) == 1 and not inloop,
             '`%s` is bound at %d places (%s): lines in front of the status line are skipped, so a reply that does not begin with '
             'an HTTP status line can still be read as `200`' % (nm_, len(alld), [d_.text()[:40] for d_ in alld][:3]),
             func=f, node=(alld[-1].ast if alld else None), construct='status line definitions')

    def decoded(node, e, depth=6, seen=None):
        seen = seen if seen is not None else set()
        for x in walk_no_nested(e):
            if isinstance(x, ast.Call) and isinstance(x.func, ast.Attribute) and x.func.attr == 'decode':
                return x
            if isinstance(x, ast.Call) and isinstance(x.func, ast.Name) and x.func.id in ('str', 'text_type'):
                return x
            if isinstance(x, ast.Name) and isinstance(x.ctx, ast.Load) and depth > 0:
                for d in rd.defs_at(node, x.id):
                    if (d.id, x.id) in seen or d is g.entry:
                        continue
                    seen.add((d.id, x.id))
                    v = rd.value_of_def(d, x.id)
                    if v is None and d.kind == 'stmt' and isinstance(d.ast, ast.Assign):
                        v = d.ast.value
                    if v is not None:
                        r = decoded(d, v, depth - 1, seen)
                        if r is not None:
                            return r
        return None
    # a ValueError in that try means "the code is not a number" - nothing else that can raise ValueError (unpacking a
    # fixed number of tokens ...) may share the handler: `HTTP/1.1 200` without a reason phrase is still status 200
    for tr in own_nodes(f.node):
        if isinstance(tr, ast.Try) and any(x is n.ast for b in tr.body for x in ast.walk(b)):
            unp = [b for b in tr.body for x in ast.walk(b) if isinstance(x, ast.Assign) and any(
                isinstance(t, (ast.Tuple, ast.List)) for t in x.targets) and not isinstance(x.value, (ast.Tuple, ast.List))]
            R.ob(RID, 'only the number conversion shares the ValueError handler', not unp,
                 'the status line tokens are unpacked inside the try whose ValueError handler means "status code is not a '
                 'number": a status line with fewer tokens (no reason phrase) is parsed as status None and a 200 answer is '
                 'refused', func=f, node=(unp[0] if unp else tr), construct='token unpack under the ValueError handler')
    arg = n.ast.value.args[0] if n.ast.value.args else None
    bad = decoded(n, arg) if arg is not None else None
    R.ob(RID, 'status code parsed from the raw bytes', U(n.ast.value.func) == 'int' and arg is not None and bad is None,
         'the status code is computed as %s from text produced by `%s`: str.split() / int(str) accept separators and digits '
         'that are not ASCII blanks / digits, so a garbage status line can read as 200' % (U(n.ast.value), U(bad)),
         func=f, node=n.ast, construct='status code from decoded text')
