"""C02 - the event stream does not depend on TCP segmentation (premises of the paper argument)."""
import ast

from ..program import AnalysisError, U, own_nodes, walk_no_nested
from ..dataflow import ReachingDefs, defs_of_node
from .common import (need, guards_of, calls_to, ext_calls, all_paths_pass, succs, normal_succs, path_conditions,
                     is_param, arg_of, stores_in_package)
from . import C05, C10
from . import C01
from ..consteval import fold

PROPERTY = 'C02'
LEVEL = 'other'
EXPLANATION = (
    'The equivalence itself (a relational property over pairs of executions) is NOT decided. Decided are the premises '
    'of the argument that outputs are a function of the concatenated stream: (P1) Parser.feed resumes the grammar '
    'coroutine only with complete units - fixed reads accumulate in the persistent buffer, store the outstanding count '
    'back, send only at zero; read-until searches the accumulated buffer after appending, re-enters the bytes after the '
    'terminator into the same call, checks the 16 KiB bound on the header position; the buffer is cleared only right '
    'after a send of a copy; each received byte is validated exactly once; (P2) the UTF-8 validator state persists '
    'across chunks/frames and is reset only at end of message; (P3) no other layer inspects the chunk (opaque '
    'pass-through; run() uses it only for the EOF test); the session forwards a copy-free view whose aliasing is '
    'contained (C01.alias).'
    ' Also decided: package-wide isolation (objects created once per class or per function definition - class-level attributes, parameter defaults - are only read), so that no buffer, validator, cache, lock or option table is shared between connections by accident.')
NOT_DECIDED = ('the equivalence itself; bytes written in response; cuts inside compressed blocks (zlib streaming); '
               'recv sizes')
ASSUMPTIONS = ['zlib inflate is insensitive to input chunking', 'bytearray.find / extend behave as documented']

PF = 'parser.Parser.feed'
CFP = 'frame_parser.ClientFrameParser'
S = 'session.WebsocketSession'
WS = 'websocket.WebSocket'
nx = lambda a, b, l: l.startswith('exc:')


def check(run):
    R = run
    R.rule('C02.shared', 'objects created once per class / per function definition (class-level attributes, parameter '
           'defaults) are only read: no buffer, validator, poll object, header list or option dict is shared between '
           'connections', 1)
    from .common import shared_state
    shared_state(R, 'C02.shared')
    R.rule('C02.P1a', 'fixed-count reads: chunk appended to the persistent buffer, outstanding count stored back when '
                      'short, coroutine resumed only at zero with a copy of the accumulated bytes', 6)
    R.rule('C02.P1b', 'read-until: search on the accumulated buffer after appending the chunk; bytes after the terminator '
                      're-enter the loop of the same call; bound applied to the header position', 8)
    R.rule('C02.P1c', 'the persistent buffer is cleared only directly after a send of a copy of it', 2)
    R.rule('C02.P1d', 'each received slice is validated exactly once (the new chunk, not the accumulated buffer)', 2)
    R.rule('C02.P2', 'validator state persists across reads/frames; reset only at the end of a text message', 6)
    R.rule('C02.P3', 'chunk opacity: run / WebSocket.feed / WebsocketStream.feed only forward the chunk or test it for '
                     'emptiness', 3)
    R.rule('C02.alias', 'what the coroutine receives and what is yielded never aliases the reused receive buffer (a '
                        'unit would otherwise change with later reads)', 6)
    from .common import lazy_pipeline
    lazy_pipeline(R, 'C02.P3')
    from . import C14 as _C14
    with R.as_rule('C02.P3'):
        _C14.param(R)            # every _on_event call is given run()'s auto_pong: the reaction does not depend on the phase
    # the housekeeping runs once per read and once per event: a check that fires without time having passed (a zero /
    # disabled timeout taken as armed, a ping that leaves its schedule where it was) makes the result depend on the cuts
    from . import C15 as _C15
    R.rule('C02.timers', 'housekeeping is a function of time, not of the number of reads: disabled timeouts stay disabled, an '
                         'automatic ping moves its schedule into the future', 8)
    from . import C04 as _C04, C08 as _C08
    with R.as_rule('C02.P3'):
        _C04.once(R)             # after a protocol violation nothing of a later read is parsed either (forced disconnect)
        _C08.server(R)           # Closing / Closed is decided when the Close frame is handled, not once per read
        _C08.client(R)
    with R.as_rule('C02.timers'):
        _C15.ping(R)
        _C15.close(R, RID='C02.timers', rearm=False)
        _C15.params(R)           # every housekeeping pass - after a read or after an event of a read - runs with run()'s own
                                 # settings: a pass that is told `ping_rate=0` while a read is dispatched moves the ping
                                 # behind the reactions to the rest of that read (write order depends on the cuts)
    p1(R)
    C10.limit(R, RID='C02.P1b')
    C05.track(R, RID='C02.P2')
    C05.route(R, RID='C02.P2')
    C05.awaitables_fresh(R, RID='C02.P1a')
    with R.as_rule('C02.P2'):
        C05.dfa(R)
        C05.loop(R)
    nosnapshot(R)
    p3(R)
    complete(R)
    geometry(R)
    parser_lifetime(R)
    from . import C14
    with R.as_rule('C02.P3'):
        # the reaction to an event (the automatic Pong) is per event, not per read
        C14.before(R)
        C14.branch(R)
        C14.only(R)
    C01.alias(R, RID='C02.alias')


def p1(R):
    g = R.cfg(PF, CFP)
    rd = ReachingDefs(g)
    f = R.func(PF)
    data = f.params[1]
    # the main loop is the loop whose body dispatches on the kind of awaitable (whatever the form of its test)
    disp = [t for t in g.live_nodes() if t.kind == 'test' and U(t.ast).startswith('isinstance(self._awaiting, _ReadBytes')]
    need(len(disp) == 1, 'Parser.feed: awaitable dispatch tests not found')
    lfs = [fr for fr in disp[0].frames if fr.kind == 'loop']
    need(lfs, 'Parser.feed: main loop (the loop around the awaitable dispatch) not found')
    head = lfs[-1].head
    sends = [(n, c) for n in g.live_nodes() for c in n.calls if isinstance(c.func, ast.Attribute) and c.func.attr == 'send'
             and U(c.func.value) == 'self._gen']
    need(len(sends) >= 2, 'Parser.feed: expected a send in each arm')
    # the persistent buffer alias
    bufnames = {'self._buffer'}
    for n in g.live_nodes():
        if n.kind == 'stmt' and isinstance(n.ast, ast.Assign) and U(n.ast.value) == 'self._buffer' and isinstance(n.ast.targets[0], ast.Name):
            bufnames.add(n.ast.targets[0].id)
    isb = [t for t in g.live_nodes() if t.kind == 'test' and U(t.ast).startswith('isinstance(self._awaiting, _ReadBytes')]
    isu = [t for t in g.live_nodes() if t.kind == 'test' and U(t.ast).startswith('isinstance(self._awaiting, _ReadUntil')]
    need(len(isb) == 1 and len(isu) == 1, 'Parser.feed: awaitable dispatch tests not found')
    # ---------------- P1a: fixed-count arm
    arm = g.reachable(succs(isb[0], 'true'), avoid={head, isu[0]}, skip_edge=nx)
    ext = [n for n in arm for c in n.calls if isinstance(c.func, ast.Attribute) and c.func.attr == 'extend' and U(c.func.value) in bufnames]
    snd = [(n, c) for (n, c) in sends if n in arm]
    need(len(snd) >= 1, 'Parser.feed: send in the fixed-count arm not found')
    for (xn, xc) in snd[1:]:
        arg = xc.args[0]
        okc = isinstance(arg, ast.Subscript) and U(arg.value) in bufnames and U(arg.slice) == ':' or \
            (isinstance(arg, ast.Call) and U(arg.func) in ('bytes', 'bytearray') and U(arg.args[0]) in bufnames)
        R.ob('C02.P1a', 'the coroutine receives a copy of exactly the accumulated bytes', okc,
             'a second resume site sends %s instead of a copy of the accumulation buffer' % U(arg), func=f, node=xc)
    sn, sc = snd[0]
    R.ob('C02.P1a', 'chunk appended to the persistent buffer before the send', bool(ext) and
         all_paths_pass(g, succs(isb[0], 'true'), ext, [sn], skip_edge=nx),
         'the coroutine can be resumed without the chunk having been appended to the persistent buffer', func=f, node=sc)
    chunkdefs = [n for n in arm if n.kind == 'stmt' and isinstance(n.ast, ast.Assign) and isinstance(n.ast.value, ast.Subscript)
                 and U(n.ast.value.value) == data and isinstance(n.ast.value.slice, ast.Slice)]
    need(len(chunkdefs) == 1, 'Parser.feed: chunk slice not found')
    cd = chunkdefs[0]
    chunk = U(cd.ast.targets[0])
    sl = cd.ast.value.slice
    rem = None
    for n in arm:
        if n.kind == 'stmt' and isinstance(n.ast, ast.Assign) and U(n.ast.value) == 'self._awaiting.remaining':
            rem = U(n.ast.targets[0])
    need(rem is not None, 'Parser.feed: outstanding count is not read from the awaitable')
    from .common import otext as _ot
    RA = 'self._awaiting.remaining'
    ok = U(sl.lower) == 'pos' and _ot(R, g, cd, sl.upper) in ('pos + %s' % rem, '%s + pos' % rem, 'pos + ' + RA, RA + ' + pos')
    R.ob('C02.P1a', 'chunk = data[pos:pos + outstanding]', ok, 'chunk = %s' % U(cd.ast.value), func=f, node=cd.ast)
    if ext:
        e = [c for c in ext[0].calls if c.func.attr == 'extend'][0]
        R.ob('C02.P1a', 'the chunk itself is appended', U(e.args[0]) == chunk and rd.defs_at(ext[0], chunk) == {cd},
             '%s appended' % U(e.args[0]), func=f, node=e)
    # outstanding count arithmetic:  size = len(chunk); pos += size; remaining -= size
    sizes = [n for n in arm if n.kind == 'stmt' and isinstance(n.ast, ast.Assign) and U(n.ast.value) == 'len(%s)' % chunk]
    szv = U(sizes[0].ast.targets[0]) if sizes else 'len(%s)' % chunk
    from .common import updates_of, exactly_once
    decs_ = updates_of(arm, rem, ast.Sub)
    adv_ = updates_of(arm, 'pos', ast.Add)
    decs = [n for (n, d) in decs_]
    adv = [n for (n, d) in adv_]
    okd = bool(decs_) and all(d == szv for (n, d) in decs_) and exactly_once(g, normal_succs(cd), decs, [head, g.exit], skip_edge=nx)
    oka = bool(adv_) and all(d == szv for (n, d) in adv_) and exactly_once(g, normal_succs(cd), adv, [head, g.exit], skip_edge=nx)
    R.ob('C02.P1a', 'position and outstanding count advance by the chunk size', okd and oka,
         'pos/remaining updates: %s / %s' % ([n.text() for n in adv], [n.text() for n in decs]), func=f, node=cd.ast,
         construct='pos/remaining arithmetic')
    lits = {(t, p) for (t, p, _) in guards_of(g, sn)}
    R.ob('C02.P1a', 'coroutine resumed only when nothing is outstanding', (rem, False) in lits and bool(decs)
         and all_paths_pass(g, succs(isb[0], 'true'), decs, [sn], skip_edge=nx), 'send under %s' % sorted(lits), func=f, node=sc)
    stores = [n for n in arm if n.kind == 'stmt' and isinstance(n.ast, ast.Assign) and U(n.ast.targets[0]) == 'self._awaiting.remaining'
              and U(n.ast.value) == rem]
    tests = [t for t in arm if t.kind == 'test' and U(t.ast) == rem]
    ok = bool(stores) and bool(tests) and all_paths_pass(g, succs(tests[0], 'true'), stores, [head, g.exit], skip_edge=nx) \
        and bool(decs) and all(all_paths_pass(g, succs(isb[0], 'true'), decs, [s], skip_edge=nx) for s in stores)
    R.ob('C02.P1a', 'outstanding count stored back when the chunk was short', ok,
         'a short read does not store the reduced count into the awaitable: the next feed() would wait for the full count '
         'again', func=f, node=(stores[0].ast if stores else cd.ast), construct='remaining write-back')
    arg = sc.args[0]
    okc = isinstance(arg, ast.Subscript) and U(arg.value) in bufnames and U(arg.slice) == ':' or \
        (isinstance(arg, ast.Call) and U(arg.func) in ('bytes', 'bytearray') and U(arg.args[0]) in bufnames)
    R.ob('C02.P1a', 'the coroutine receives a copy of exactly the accumulated bytes', okc, 'send(%s)' % U(arg), func=f, node=sc)
    # ---------------- P1d: validate the new chunk only
    vals = [(n, c) for n in arm for c in n.calls if isinstance(c.func, ast.Attribute) and c.func.attr == 'validate']
    ok = len(vals) == 1 and U(vals[0][1].args[0]) == chunk and rd.defs_at(vals[0][0], chunk) == {cd}
    R.ob('C02.P1d', 'validate() is given the new chunk', ok, 'validate(%s): bytes validated twice (or not at all) make the '
         'stateful UTF-8 verdict depend on where reads were cut' % (U(vals[0][1].args[0]) if vals else 'missing'), func=f,
         node=(vals[0][1] if vals else cd.ast), construct='validate argument')
    ok = bool(vals) and all_paths_pass(g, succs(isb[0], 'true'), [vals[0][0]], [sn] + stores, skip_edge=nx) if vals else False
    R.ob('C02.P1d', 'every chunk is validated before it is consumed', ok, 'a chunk can bypass validate()', func=f,
         node=(vals[0][1] if vals else cd.ast), construct='validate placement')
    # ---------------- P1b: read-until arm
    arm2 = g.reachable(succs(isu[0], 'true'), avoid={head}, skip_edge=nx)
    finds = [(n, c) for n in arm2 for c in n.calls if isinstance(c.func, ast.Attribute) and c.func.attr == 'find']
    need(len(finds) == 1, 'Parser.feed: separator search not found')
    fn, fc = finds[0]
    R.ob('C02.P1b', 'separator searched in the accumulated buffer', U(fc.func.value) in bufnames,
         'separator searched in %s: a terminator cut across two reads is never found' % U(fc.func.value), func=f, node=fc)
    # the whole accumulated buffer is searched; a resumed search (find(sep, start)) must clamp its start at 0 and keep
    # len(sep) - 1 already-seen bytes: a negative start counts from the end of the buffer
    okw = len(fc.args) == 1 and not fc.keywords
    if not okw and len(fc.args) == 2 and not fc.keywords:
        st_ = rd.origin(fn, fc.args[1])[0]
        if fold(R, st_, g.ctx) == 0:
            okw = True
        elif isinstance(st_, ast.Call) and U(st_.func) == 'max' and len(st_.args) == 2 and any(
                fold(R, a_, g.ctx) == 0 for a_ in st_.args):
            e_ = [a_ for a_ in st_.args if fold(R, a_, g.ctx) != 0]
            sepn = U(fc.args[0])
            txt = U(e_[0]).replace(' ', '') if e_ else ''
            okw = bool(e_) and any(txt.endswith(t_) for t_ in ('-len(%s)+1' % sepn, '-len(%s)' % sepn, '-(len(%s)-1)' % sepn))
    R.ob('C02.P1b', 'the separator search covers every position where the terminator can start', okw,
         'separator searched with %s: a start index that can be negative (counted from the end of the buffer) or past '
         'unsearched bytes makes finding the terminator depend on where the reads were cut' % U(fc), func=f, node=fc,
         construct='separator search range')
    ext2 = [n for n in arm2 for c in n.calls if isinstance(c.func, ast.Attribute) and c.func.attr == 'extend' and U(c.func.value) in bufnames]
    cd2 = [n for n in arm2 if n.kind == 'stmt' and isinstance(n.ast, ast.Assign) and isinstance(n.ast.value, ast.Subscript)
           and U(n.ast.value.value) == data]
    ok = bool(ext2) and all_paths_pass(g, succs(isu[0], 'true'), ext2, [fn], skip_edge=nx) and len(cd2) == 1 \
        and U(cd2[0].ast.value.slice) == 'pos:'
    if ok:
        e = [c for c in ext2[0].calls if c.func.attr == 'extend'][0]
        ok = U(e.args[0]) == U(cd2[0].ast.targets[0])
    R.ob('C02.P1b', 'the rest of the chunk is appended before the search', ok, 'append/search order in the read-until arm', func=f,
         node=fc, construct='read-until append')
    snd2 = [(n, c) for (n, c) in sends if n in arm2]
    need(len(snd2) == 1, 'Parser.feed: send in the read-until arm not found')
    sn2, sc2 = snd2[0]
    idx = U(fn.ast.targets[0])
    from .common import header_end_checker, found_polarity, otext
    is_hdr_end = header_end_checker(R, g, fn, idx)
    arg = sc2.args[0]
    ok = isinstance(arg, ast.Subscript) and U(arg.value) in bufnames and isinstance(arg.slice, ast.Slice) and arg.slice.lower is None \
        and arg.slice.upper is not None and is_hdr_end(sn2, arg.slice.upper)
    R.ob('C02.P1b', 'the coroutine receives the bytes up to and including the terminator', ok, 'send(%s)' % U(arg), func=f, node=sc2)
    # re-entry of the tail: data, pos re-bound from the buffer tail before the buffer is cleared
    reb = [n for n in arm2 if n.kind == 'stmt' and isinstance(n.ast, ast.Assign) and U(n.ast.targets[0]) == data]
    rv, rvn = rd.origin(reb[0], reb[0].ast.value) if len(reb) == 1 else (None, None)     # through a local copy of the tail
    ok = len(reb) == 1 and isinstance(rv, ast.Subscript) and U(rv.value) in bufnames \
        and isinstance(rv.slice, ast.Slice) and rv.slice.upper is None \
        and rv.slice.lower is not None and is_hdr_end(rvn, rv.slice.lower)
    posr = [n for n in arm2 if n.kind == 'stmt' and isinstance(n.ast, ast.Assign) and U(n.ast.targets[0]) == 'pos' and U(n.ast.value) == '0']
    clears = [n for n in g.live_nodes() if n.kind == 'stmt' and ((isinstance(n.ast, ast.Delete) and U(n.ast.targets[0]).split('[')[0] in bufnames)
                                                                   or (isinstance(n.ast, ast.Expr) and U(n.ast.value).split('.clear')[0] in bufnames
                                                                       and U(n.ast.value).endswith('.clear()')))]
    cl2 = [n for n in clears if n in arm2]
    # the tail is sliced off before the buffer is cleared; data / pos are re-bound before the loop continues
    ok = ok and len(posr) == 1 and bool(cl2) and all(all_paths_pass(g, [fn], [rvn], [c], skip_edge=nx) for c in cl2) \
        and all(all_paths_pass(g, normal_succs(c), reb, [head, g.exit], skip_edge=nx) or all_paths_pass(g, [fn], reb, [c], skip_edge=nx)
                for c in cl2) \
        and all(all_paths_pass(g, normal_succs(c), posr, [head, g.exit], skip_edge=nx) or all_paths_pass(g, [fn], posr, [c], skip_edge=nx)
                for c in cl2)
    R.ob('C02.P1b', 'bytes after the terminator re-enter the loop of the same call', ok,
         'after the header terminator the remaining bytes of the read are not re-fed (data/pos not re-bound from the buffer '
         'tail before the buffer is cleared): frames arriving in the same read as the HTTP response are lost or delayed',
         func=f, node=(reb[0].ast if reb else fc), construct='tail re-entry')
    lits = {(t, p) for (t, p, _) in guards_of(g, sn2)}
    R.ob('C02.P1b', 'the coroutine is resumed only when the terminator was found', (idx + ' == -1', False) in lits,
         'send under %s' % sorted(lits)[:6], func=f, node=sc2)
    # the arm taken while the terminator has not arrived rejects nothing that the arm taken when it has arrived accepts:
    # the same header delivered in one read never reaches the first arm, so any verdict (an exception thrown into the
    # coroutine) that only that arm can reach makes the outcome depend on the cut
    tests = [(t, found_polarity(R, g, t, idx)) for t in arm2 if t.kind == 'test']
    tests = [(t, lab) for (t, lab) in tests if lab is not None]
    if tests:
        t0, nf_lab = tests[0]
        f_lab = 'false' if nf_lab == 'true' else 'true'
        nf_arm = g.reachable(succs(t0, nf_lab), avoid={head, t0})       # handlers of the arm's statements included
        f_arm = g.reachable(succs(t0, f_lab), avoid={head, t0})

        def rejections(nodes):
            out = []
            for n_ in nodes:
                for c_ in n_.calls:
                    if isinstance(c_.func, ast.Attribute) and c_.func.attr == 'throw':
                        out.append(U(c_)[:50])
                    else:
                        for t_ in R.types.call_targets(c_, g.ctx):
                            if t_.kind == 'func' and any(isinstance(x, ast.Call) and isinstance(x.func, ast.Attribute)
                                                         and x.func.attr == 'throw' for x in own_nodes(t_.func.node)):
                                out.append(U(c_.func))
            return sorted(out)
        rn, rf = rejections(set(nf_arm) - set(f_arm)), rejections(set(f_arm) - set(nf_arm))
        # compared by number (the found arm of the pinned tree has one: the bound on the header position): spelling and
        # variable names differ between the arms
        extra = rn[len(rf):] if len(rn) > len(rf) else []
        R.ob('C02.P1b', 'nothing is rejected only while the terminator is still missing', not extra,
             'the branch for "terminator not found yet" can reject the input through %s, the branch for "found" cannot: a '
             'header block that arrives whole is accepted, the same bytes cut inside the block are refused' % extra,
             func=f, node=t0.ast, construct='read-until arms reject alike')
    # ---------------- P1c
    for c in clears:
        preds = [p for (p, l) in c.pred if not l.startswith('exc:')]
        ok = len(preds) == 1 and any(p is n for (n, _) in sends for p in preds)
        R.ob('C02.P1c', 'buffer cleared only right after a send', ok,
             '`%s` is not immediately preceded by the send of the accumulated bytes: partial data is discarded' % c.text(),
             func=f, node=c.ast)
    need(len(clears) >= 2, 'Parser.feed: buffer clearing not found in both arms')
    # non-awaitables are yielded in order, all of them
    ys = g.yields()
    ok = len(ys) == 1 and U(ys[0].ast.value) == 'self._awaiting'
    R.ob('C02.P1c', 'parsed objects are yielded as produced', ok, 'yields in Parser.feed: %s' % [y.text() for y in ys], func=f,
         node=(ys[0].ast if ys else None), construct='feed yields')


def nosnapshot(R):
    """Per-connection fields that can change while a generator is suspended must be read when they are used, not
    cached in a local before a yield (the handshake response and the first frames may arrive in one read: compression
    is switched on while WebsocketStream.feed is suspended at `yield Response`)."""
    for fq in ('stream.WebsocketStream.feed', 'websocket.WebSocket.feed'):
        g = R.cfg(fq)
        rd = ReachingDefs(g)
        ys = g.yields()
        bad = []
        for n in g.live_nodes():
            if n.kind != 'stmt' or not isinstance(n.ast, ast.Assign) or len(n.ast.targets) != 1 \
                    or not isinstance(n.ast.targets[0], ast.Name):
                continue
            v = n.ast.value
            if not (isinstance(v, ast.Attribute) and U(v).startswith('self.')):
                continue
            fld = v.attr
            # fields written by other methods of the class (they can change across a suspension)
            cls = g.ctx.recv
            writers = [c for (c, s_, t, val) in stores_in_package(R, fld) if c.func.name != '__init__'
                       and any(x == 'inst:' + cls for x in R.types.expr(t.value, c))]
            if not writers:
                continue
            name = n.ast.targets[0].id
            for u in g.live_nodes():
                if u is n or name not in {x.id for e in (u.exprs or []) for x in walk_no_nested(e) if isinstance(x, ast.Name)
                                           and isinstance(x.ctx, ast.Load)}:
                    continue
                if n not in rd.defs_at(u, name):
                    continue
                # a yield between the snapshot and the use?
                between = [y for y in ys if y in g.succ_reach(n, avoid={u}) and u in g.succ_reach(y)]
                if between:
                    bad.append((n, u, fld))
        R.ob('C02.P3', '%s reads mutable connection fields at the point of use' % fq.rsplit('.', 2)[-2], not bad,
             '`%s` snapshots self.%s before a yield and uses it afterwards (`%s`): the field can change while the generator '
             'is suspended, so behaviour depends on whether later bytes arrived in the same read' % (
                 bad[0][0].text() if bad else '', bad[0][2] if bad else '', bad[0][1].text()[:50] if bad else ''),
             func=fq, node=(bad[0][0].ast if bad else None))


def p3(R):
    for (fq, nxt) in ((WS + '.feed', 'stream.WebsocketStream.feed'), ('stream.WebsocketStream.feed', PF)):
        f = R.func(fq)
        g = R.cfg(fq)
        bad = []
        for n in g.live_nodes():
            exprs = n.exprs or []
            for e in exprs:
                for x in walk_no_nested(e):
                    if isinstance(x, ast.Name) and x.id == 'data' and isinstance(x.ctx, ast.Load):
                        # allowed: sole argument of the call to the next layer / plain truth test
                        ok = False
                        for c in n.calls:
                            if any(a is x for a in c.args) and any(t.kind == 'func' and t.qual == nxt for t in R.types.call_targets(c, g.ctx)):
                                ok = True
                            if any(a is x for a in c.args) and isinstance(c.func, ast.Attribute) and c.func.attr in ('debug', 'info'):
                                ok = True
                        if n.kind == 'test' and n.ast is x:
                            ok = True
                        if not ok:
                            bad.append(n)
        R.ob('C02.P3', '%s treats the chunk as opaque' % fq.rsplit('.', 2)[-2], not bad,
             '%s inspects the received chunk in `%s`: behaviour can depend on where the stream was cut' % (
                 fq, bad[0].text()[:60] if bad else ''), func=f, node=(bad[0].ast if bad else None))
    q = S + '.run'
    g = R.cfg(q)
    rc = calls_to(R, g, S + '._recv')
    need(len(rc) == 1, 'run(): _recv not found')
    var = U(rc[0][0].ast.targets[0])
    bad = []
    for n in g.live_nodes():
        if n is rc[0][0]:
            continue
        for e in (n.exprs or []):
            for x in walk_no_nested(e):
                if isinstance(x, ast.Name) and x.id == var and isinstance(x.ctx, ast.Load):
                    ok = (n.kind == 'test' and n.ast is x) or any(
                        any(a is x for a in c.args) and any(t.kind == 'func' and t.qual == WS + '.feed' for t in R.types.call_targets(c, g.ctx))
                        for c in n.calls)
                    if not ok:
                        bad.append(n)
    R.ob('C02.P3', 'run() uses the chunk only for the EOF test and the hand-off', not bad,
         'run() inspects the received chunk in `%s`' % (bad[0].text()[:60] if bad else ''), func=q, node=(bad[0].ast if bad else None))


def complete(R):
    """The rest of a read is never dropped while the connection lives: the loops that pull the next layer's generator
    are left early only once the WebSocket is closed (after which feed() ignores every later chunk as well), so what is
    delivered cannot depend on which bytes happened to share a read."""
    from .common import guard_atom_sets
    # WebSocket.feed over stream.feed
    q = WS + '.feed'
    g = R.cfg(q)
    loops = [n for n in g.live_nodes() if n.kind == 'for' and any(
        isinstance(t, str) and t.startswith('gen:stream.WebsocketStream.feed') for t in R.types.expr(n.ast.iter, g.ctx))]
    need(len(loops) == 1, 'WebSocket.feed: loop over stream.feed(data) not found')
    lp = loops[0]
    body = [n for n in g.live_nodes() if any(fr.kind == 'loop' and fr.stmt is lp.ast for fr in n.frames)]
    disc = [n for (n, _) in calls_to(R, g, WS + '.on_disconnect')]
    n_exits = 0
    for n in body:
        if n.kind != 'stmt' or not isinstance(n.ast, (ast.Break, ast.Return)):
            continue
        if isinstance(n.ast, ast.Break) and [fr for fr in n.frames if fr.kind == 'loop'][-1].stmt is not lp.ast:
            continue
        n_exits += 1
        lits = set()
        for forms in guard_atom_sets(g, n):
            lits |= set(forms)
        ok = ('self.is_closed', True) in lits or ('self.state.closed', True) in lits or \
            (bool(disc) and all_paths_pass(g, succs(lp, 'body'), disc, [n], skip_edge=nx))
        R.ob('C02.P3', 'message loop left early only when closed', ok,
             'WebSocket.feed abandons the rest of the current read at `%s` while the connection is not closed: bytes that '
             'share a read with what precedes are dropped (and the abandoned parser re-delivers its pending unit), bytes '
             'in a later read are not' % n.text()[:40], func=q, node=n.ast)
    R.ob('C02.P3', 'message loop early exits found', n_exits >= 1, '%d early exits' % n_exits, func=q, node=lp.ast,
         construct='message loop exits')
    # run() over WebSocket.feed: never left early
    q2 = S + '.run'
    g2 = R.cfg(q2)
    loops2 = [n for n in g2.live_nodes() if n.kind == 'for' and any(
        isinstance(t, str) and t.startswith('gen:' + WS + '.feed') for t in R.types.expr(n.ast.iter, g2.ctx))]
    need(len(loops2) == 1, 'run(): loop over websocket.feed(data) not found')
    lp2 = loops2[0]
    bad = [n for n in g2.live_nodes() if n.kind == 'stmt' and isinstance(n.ast, (ast.Break, ast.Return))
           and any(fr.kind == 'loop' and fr.stmt is lp2.ast for fr in n.frames)
           and (isinstance(n.ast, ast.Return) or [fr for fr in n.frames if fr.kind == 'loop'][-1].stmt is lp2.ast)]
    R.ob('C02.P3', 'run() consumes every event of a read', not bad,
         'run() leaves the loop over websocket.feed(data) early at `%s`' % (bad[0].text()[:40] if bad else ''), func=q2,
         node=(bad[0].ast if bad else lp2.ast), construct='event loop early exit')
    # stream.feed over the parser: returns only on exhaustion
    q3 = 'stream.WebsocketStream.feed'
    g3 = R.cfg(q3)
    bad = []
    for n in g3.live_nodes():
        if n.kind == 'stmt' and isinstance(n.ast, (ast.Return, ast.Break)):
            hs = [fr for fr in n.frames if fr.kind == 'handler']
            if not (hs and 'StopIteration' in U(hs[-1].stmt.type if hs[-1].stmt.type is not None else '')):
                bad.append(n)
    R.ob('C02.P3', 'stream.feed stops only when the parser is exhausted', not bad,
         'stream.feed stops at `%s` with frames of the current read still unparsed' % (bad[0].text()[:40] if bad else ''),
         func=q3, node=(bad[0].ast if bad else None), construct='stream.feed early exit')


def geometry(R):
    """Error texts raised by the incremental parser layer do not mention read-geometry quantities (positions, chunk and
    buffer lengths, outstanding counts): they travel into ProtocolError events, whose payload would then depend on
    where the stream was cut.  Allowed operands: constants and fields of self that are written only in __init__; locals
    are followed through their reaching definitions."""
    from .common import stores_in_package, g_rd
    n_sites = 0
    for key, cx in sorted(R.types.ctxs.items(), key=lambda kv: str(kv[0])):
        fi = cx.func
        if fi.module.name != 'parser' or (fi.cls is not None and cx.recv != fi.cls.qual):
            continue
        if not any(isinstance(c, ast.Call) and U(c.func).endswith('Error') for c in own_nodes(fi.node)):
            continue
        g = R.cfg(fi.qual, cx.recv)
        rd = g_rd(g)

        def geo(node, e, depth, seen):
            out = []
            for x in walk_no_nested(e):
                if isinstance(x, ast.Name) and x.id == 'len' and isinstance(x.ctx, ast.Load):
                    out.append('len(...)')
                elif isinstance(x, ast.Name) and isinstance(x.ctx, ast.Load) and x.id != 'self':
                    ds = rd.defs_at(node, x.id)
                    for d in ds:
                        if d is g.entry:
                            out.append('parameter ' + x.id)
                            continue
                        if d.kind in ('handler',):
                            continue
                        if (d.id, x.id) in seen:
                            continue
                        seen.add((d.id, x.id))
                        v = rd.value_of_def(d, x.id)
                        if v is None or depth <= 0:
                            out.append('local ' + x.id)
                        else:
                            out += geo(d, v, depth - 1, seen)
                elif isinstance(x, ast.Attribute) and isinstance(x.value, ast.Name) and x.value.id == 'self' \
                        and isinstance(x.ctx, ast.Load):
                    writers = set(c2.func.name for (c2, s_, t_, v_) in stores_in_package(R, x.attr)
                                  if c2.func.cls is not None and fi.cls is not None and c2.func.cls.qual in R.prog.mro(fi.cls.qual))
                    if writers - {'__init__'}:
                        out.append('self.' + x.attr)
            return out
        for n in g.live_nodes():
            for c in n.calls:
                f = c.func
                nm = f.id if isinstance(f, ast.Name) else f.attr if isinstance(f, ast.Attribute) else ''
                if not nm.endswith('Error'):
                    continue
                n_sites += 1
                bad = []
                for a in list(c.args) + [k.value for k in c.keywords]:
                    bad += geo(n, a, 4, set())
                R.ob('C02.P3', 'error text at %s is cut-independent' % fi.qual, not bad,
                     'the text of the error raised in %s mentions %s, which depends on how the stream was split into reads; '
                     'it is reported in the ProtocolError event' % (fi.qual, sorted(set(bad))), func=fi, node=c,
                     construct='error text mentions %s' % sorted(set(bad)))
    need(n_sites >= 4, 'parser module: expected at least 4 error construction sites, found %d' % n_sites)


def parser_lifetime(R, RID='C02.P3'):
    """An incremental parser lives as long as the byte stream it parses: no Parser (sub)class is instantiated inside a
    loop (a parser re-created per read forgets the bytes of the previous read, so a reply cut in two is lost)."""
    n_sites = 0
    for key, cx in sorted(R.types.ctxs.items(), key=lambda kv: str(kv[0])):
        fi = cx.func
        if fi.module.name.startswith('examples') or (fi.cls is not None and cx.recv != fi.cls.qual):
            continue
        if not any(isinstance(c, ast.Call) and U(c.func).split('.')[-1].endswith('Parser') for c in own_nodes(fi.node)):
            continue
        g = R.cfg(fi.qual, cx.recv)
        for n in g.live_nodes():
            for c in n.calls:
                for t in R.types.call_targets(c, g.ctx):
                    if t.kind == 'ctor' and 'parser.Parser' in R.prog.mro(t.cls):
                        n_sites += 1
                        inloop = any(fr.kind == 'loop' for fr in n.frames) or n.kind in ('forinit',) and any(
                            fr.kind == 'loop' for fr in n.frames)
                        R.ob(RID, 'parser %s created outside loops in %s' % (t.cls.split('.')[-1], fi.qual), not inloop,
                             '%s is constructed inside a loop in %s: each iteration starts with an empty parser and the bytes '
                             'fed so far are forgotten' % (U(c), fi.qual), func=fi, node=c,
                             construct='parser constructed in a loop in %s' % fi.qual)
                        # a parser kept in a field is set up with its owner; replacing it from code that runs while the
                        # stream is being fed orphans the bytes the old parser has buffered (and the rest of the read)
                        stored = n.kind == 'stmt' and isinstance(n.ast, ast.Assign) and any(
                            isinstance(t_, ast.Attribute) for t_ in n.ast.targets)
                        if stored and fi.name != '__init__':
                            seen, work = set(), [fi.qual]
                            while work:
                                q_ = work.pop()
                                if q_ in seen:
                                    continue
                                seen.add(q_)
                                for (cx_, _, _) in R.types.callers.get(q_, []):
                                    work.append(cx_.func.qual)
                            feeding = sorted(q_ for q_ in seen if q_.endswith('.feed') or q_.endswith('WebsocketSession.run'))
                            R.ob(RID, 'parser field %s is not replaced mid-stream' % U(n.ast.targets[0]), not feeding,
                                 '%s stores a new %s in a field and runs below %s: the parser is swapped while the byte stream '
                                 'is being fed - what the old parser had buffered, and the rest of the current read, is lost' % (
                                     fi.qual, t.cls.split('.')[-1], feeding[:2]), func=fi, node=n.ast,
                                 construct='parser field replaced in %s' % fi.qual)
    need(n_sites >= 2, 'parser construction sites not found')
