"""C05 - text is delivered iff it is strictly valid UTF-8; fail-fast for uncompressed text."""
import ast

from ..program import AnalysisError, U, own_nodes, walk_no_nested
from ..dataflow import ReachingDefs
from ..consteval import module_consts, fold
from .common import (need, guards_of, calls_to, all_paths_pass, succs, normal_succs, path_conditions,
                     atom_text, stores_in_package, is_param)

PROPERTY = 'C05'
LEVEL = 'other'
EXPLANATION = (
    'The UTF-8 validator table and transition expression are extracted from the AST of utf8validator.py, '
    'the induced DFA is compared by exhaustive product construction (all reachable state pairs x all 256 '
    'bytes) with a reference DFA built independently from the RFC 3629 grammar; the scanning loop, the '
    'routing of text/continuation payloads through the validating reader, the validator reset / text-tracking '
    'discipline and the strictness of the final decode are decided as shape rules on CFGs. The DFA product is '
    'exhaustive; correctness of CPython\'s bytes.decode is an assumption.'
    ' Also decided: package-wide isolation (objects created once per class or per function definition - class-level attributes, parameter defaults - are only read), so that no buffer, validator, cache, lock or option table is shared between connections by accident.')
NOT_DECIDED = ('correctness of bytes.decode(\'utf-8\') (assumption); the optional wsaccel C validator; '
               'fail-fast timing for compressed text (exempt)')
ASSUMPTIONS = ['CPython bytes.decode("utf-8") in strict mode accepts exactly RFC 3629 well-formed input',
               'wsaccel is not installed (the pure-Python validator is the live one)']

MOD = 'utf8validator'
VAL = 'utf8validator.Utf8Validator'


# ----------------------------------------------------------------------------- reference DFA (RFC 3629)
def ref_step(state, b):
    R = 'reject'
    if state == 'start':
        if b <= 0x7f:
            return 'start'
        if 0xc2 <= b <= 0xdf:
            return 'c1'
        if b == 0xe0:
            return 'e0'
        if 0xe1 <= b <= 0xec or 0xee <= b <= 0xef:
            return 'c2'
        if b == 0xed:
            return 'ed'
        if b == 0xf0:
            return 'f0'
        if 0xf1 <= b <= 0xf3:
            return 'c3'
        if b == 0xf4:
            return 'f4'
        return R
    lohi = {'c1': (0x80, 0xbf, 'start'), 'c2': (0x80, 0xbf, 'c1'), 'c3': (0x80, 0xbf, 'c2'),
            'e0': (0xa0, 0xbf, 'c1'), 'ed': (0x80, 0x9f, 'c1'), 'f0': (0x90, 0xbf, 'c2'),
            'f4': (0x80, 0x8f, 'c2')}
    if state == R:
        return R
    lo, hi, nxt = lohi[state]
    return nxt if lo <= b <= hi else R


class Linear(object):
    """index = c0 + c1*state + c2*T[byte]"""
    def __init__(self, c0=0, cs=0, cc=0):
        self.c0, self.cs, self.cc = c0, cs, cc

    def add(self, o):
        return Linear(self.c0 + o.c0, self.cs + o.cs, self.cc + o.cc)

    def scale(self, k):
        return Linear(self.c0 * k, self.cs * k, self.cc * k)


def check(run):
    R = run
    R.rule('C05.shared', 'objects created once per class / per function definition (class-level attributes, parameter '
           'defaults) are only read: no buffer, validator, poll object, header list or option dict is shared between '
           'connections', 1)
    from .common import shared_state
    shared_state(R, 'C05.shared')
    R.rule('C05.dfa', 'validator table + transition expression induce a DFA equivalent (reject/accept status of '
                      'every reachable state pair under all 256 bytes) to the RFC 3629 reference DFA', 4)
    R.rule('C05.loop', 'validate(): index from 0 step 1 while < len; reject test after every step returning '
                       'False-first; state loaded from and stored back to the object on both exits; '
                       '_ReadUtf8.validate raises ParseError on a False verdict', 8)
    R.rule('C05.route', 'payloads of TEXT frames and of continuations of text messages are read through the '
                        'validating reader (and no other frame is); the reader uses the per-parser validator '
                        'unless compression is on', 4)
    R.rule('C05.track', 'text-message tracking flag set on TEXT, cleared only at the end of a data message; '
                        'validator reset only at the end of a text/continuation message; validator created '
                        'once per parser', 5)
    R.rule('C05.strict', 'Text / Close reason are produced by a strict whole-payload UTF-8 decode whose failure '
                         'raises CriticalProtocolError; Close additionally validates the reason', 5)

    R.rule('C05.exact', 'the decoded bytes are the received bytes: no view of the reused receive buffer reaches the '
                        'parser coroutine / a frame payload (the validator would approve bytes that later change)', 6)
    dfa(R)
    loop(R)
    route(R)
    track(R)
    strict(R)
    from . import C04
    R.rule('C05.lazy', 'frames are pulled from the parser one at a time: valid text that precedes a malformed frame in the '
                       'same read is delivered before the error is reported', 3)
    with R.as_rule('C05.lazy'):
        C04.wire(R)
        C04.order(R)
    from . import C06
    with R.as_rule('C05.route'):
        C06.activate(R)      # the parser is put in compression mode only when the extension was accepted
    from . import C01
    with R.as_rule('C05.exact'):
        C01.alias(R)
    with R.as_rule('C05.strict'):
        C01.join(R)              # the strict decode sees the whole message: the joined (or inflated) payload of every fragment
    R.rule('C05.inflated', 'a compressed text reaches the strict decode as the peer sent it: the inflater is configured from '
                           'the negotiated server window / takeover flag, fed every fragment and the trailer', 10)
    from . import C02 as _C02
    with R.as_rule('C05.inflated'):
        _C02.nosnapshot(R)       # the decompressor installed while feed() is suspended at the handshake is the one used
        C06.wiring(R)
        C06.tail(R)
    from . import C17 as _C17
    with R.as_rule('C05.track'):
        _C17.reset(R)            # the validator / text-tracking state of a connection does not outlive it (new State + stream)
    from .common import event_fields
    event_fields(R, 'C05.exact', ['Text', 'Closed', 'Closing'])     # the delivered string is the decoded string
    awaitables_fresh(R, 'C05.route')         # a read cut across two recv() calls does not change what the next read sees


# ------------------------------------------------------------------------------------------------ dfa
def dfa(R):
    # the class the rest of the package imports under the name Utf8Validator is the class analysed here: the name is bound
    # by its class statement only (not re-bound to a faster stand-in further down the module)
    m_ = R.prog.modules[MOD]
    rebind = [x for x in ast.walk(m_.tree) if isinstance(x, (ast.Assign, ast.AugAssign, ast.AnnAssign)) and any(
        isinstance(t_, ast.Name) and t_.id == 'Utf8Validator'
        for t_ in (x.targets if isinstance(x, ast.Assign) else [x.target]))]
    rebind += [x for x in ast.walk(m_.tree) if isinstance(x, (ast.Import, ast.ImportFrom)) and any(
        (a_.asname or a_.name) == 'Utf8Validator' for a_ in x.names) and not (
            isinstance(x, ast.ImportFrom) and (x.module or '').startswith('wsaccel'))]
    R.ob('C05.dfa', 'Utf8Validator is the class defined (and analysed) here', not rebind,
         'the module re-binds the name Utf8Validator (%s): the validator the parser uses is not the automaton whose table '
         'and loop are checked - an implementation without the fail-fast / exactness guarantees can be swapped in' % (
             [U(x)[:60] for x in rebind][:2]), func=None, node=(rebind[0] if rebind else None),
         construct='Utf8Validator rebinding')
    consts = module_consts(R, MOD)
    table = consts.get('UTF8VALIDATOR_DFA')
    need(isinstance(table, tuple), 'UTF8VALIDATOR_DFA is not a constant tuple')
    acc = consts.get('UTF8_ACCEPT')
    rej = consts.get('UTF8_REJECT')
    need(isinstance(acc, int) and isinstance(rej, int), 'UTF8_ACCEPT / UTF8_REJECT not constant')
    m = R.prog.modules[MOD]
    R.ob('C05.dfa', 'table size', len(table) == 256 + 16 * 9 and all(isinstance(x, int) and 0 <= x < 256 for x in table),
         'UTF8VALIDATOR_DFA has %d entries, expected 400 byte values' % len(table),
         func=VAL + '.validate', node=None, construct='UTF8VALIDATOR_DFA size')
    f = R.func(VAL + '.validate')
    g = R.cfg(VAL + '.validate')
    rd = ReachingDefs(g)
    ctx = g.ctx

    # the table actually indexed: a module global whose value is the tuple itself or bytes(tuple)
    def table_of(e):
        if isinstance(e, ast.Name):
            v = consts.get(e.id)
            if isinstance(v, (tuple, bytes, list)):
                return list(v)
        return None

    ba = f.params[1] if len(f.params) > 1 else None
    need(ba is not None, 'validate() lost its data parameter')

    def strip_ord(e):
        while isinstance(e, ast.Call) and isinstance(e.func, ast.Name) and e.func.id in ('ord', 'int') and len(e.args) == 1:
            e = e.args[0]
        return e

    found = []
    for n in g.live_nodes():
        if n.kind != 'stmt' or not isinstance(n.ast, ast.Assign):
            continue
        v = strip_ord(n.ast.value)
        if isinstance(v, ast.Subscript) and table_of(v.value) is not None and len(n.ast.targets) == 1 \
                and isinstance(n.ast.targets[0], ast.Name):
            found.append((n, v, n.ast.targets[0].id))
    need(len(found) >= 1, 'no table-driven state transition found in Utf8Validator.validate')
    # the transition is the table lookup whose result is the state (the value stored back to self._state)
    stored = set()
    for n in g.live_nodes():
        if n.kind == 'stmt' and isinstance(n.ast, ast.Assign) and U(n.ast.targets[0]) == 'self._state' \
                and isinstance(n.ast.value, ast.Name):
            stored.add(n.ast.value.id)
    cand = [x for x in found if x[2] in stored] or found
    node, sub, statevar = cand[0]
    T = table_of(sub.value)

    state_syms = set()

    def lin(e):
        e = strip_ord(e)
        if isinstance(e, ast.Constant) and isinstance(e.value, int):
            return Linear(c0=e.value)
        if isinstance(e, ast.Name):
            if e.id == statevar:
                return Linear(cs=1)
            v = consts.get(e.id)
            if isinstance(v, int):
                return Linear(c0=v)
            o, on = rd.origin(node, e)
            if o is not e:
                return lin(o)
            raise AnalysisError('C05.dfa: cannot linearise name %s in the transition index' % e.id)
        if isinstance(e, ast.Subscript):
            t2 = table_of(e.value)
            inner = strip_ord(e.slice)
            if isinstance(inner, ast.Name):
                io, ion = rd.origin(node, inner)
                inner = strip_ord(io)
            if t2 is not None and isinstance(inner, ast.Subscript) and isinstance(inner.value, ast.Name) \
                    and inner.value.id == ba:
                if t2 != T:
                    raise AnalysisError('C05.dfa: class lookup and transition lookup use different tables')
                return Linear(cc=1)
            raise AnalysisError('C05.dfa: unrecognised subscript %s in the transition index' % U(e))
        if isinstance(e, ast.BinOp):
            if isinstance(e.op, ast.Add):
                return lin(e.left).add(lin(e.right))
            if isinstance(e.op, ast.LShift):
                k = fold(R, e.right, ctx)
                if isinstance(k, int):
                    return lin(e.left).scale(1 << k)
            if isinstance(e.op, ast.Mult):
                for a, b in ((e.left, e.right), (e.right, e.left)):
                    k = fold(R, a, ctx)
                    if isinstance(k, int):
                        return lin(b).scale(k)
            if isinstance(e.op, ast.BitOr):
                # a | b with disjoint bit ranges is not attempted
                pass
        raise AnalysisError('C05.dfa: cannot linearise %s' % U(e))

    L = lin(sub.slice)
    R.ob('C05.dfa', 'transition index form', L.cc == 1 and L.cs >= 1,
         'transition index is %d + %d*state + %d*class' % (L.c0, L.cs, L.cc),
         func=f, node=node.ast)

    def step(s, b):
        i = L.c0 + L.cs * s + L.cc * T[b]
        if not (0 <= i < len(T)):
            return None
        return T[i]

    # product construction
    start = (acc, 'start')
    seen = {start}
    work = [start]
    trans = 0
    bad = []
    while work:
        (s, r) = work.pop()
        for b in range(256):
            trans += 1
            s2 = step(s, b)
            r2 = ref_step(r, b)
            if s2 is None:
                bad.append('state %d byte 0x%02x indexes outside the table' % (s, b))
                continue
            if (s2 == rej) != (r2 == 'reject') or (s2 == acc) != (r2 == 'start'):
                if len(bad) < 6:
                    bad.append('after a prefix leading to impl state %d / reference %s, byte 0x%02x gives impl %d '
                               '(%s) but RFC 3629 says %s' % (s, r, b, s2,
                                                              'reject' if s2 == rej else 'accept' if s2 == acc else 'pending', r2))
                else:
                    bad.append('...')
                continue
            p = (s2, r2)
            if p not in seen:
                seen.add(p)
                work.append(p)
    R.ob('C05.dfa', 'product with the RFC 3629 DFA', not bad, '; '.join(bad[:6]),
         func=f, node=node.ast, construct='UTF8VALIDATOR_DFA / ' + U(node.ast))
    absorbing = all(step(rej, b) == rej for b in range(256))
    R.ob('C05.dfa', 'reject is absorbing', absorbing, 'REJECT state can be left', func=f, node=node.ast,
         construct='REJECT absorbing')
    R.ob('C05.dfa', 'start state', True, 'reset() start state checked in C05.loop', func=f, node=node.ast)
    R.extra['dfa_product'] = {'states': len(seen), 'transitions': trans, 'exhaustive': True,
                   'dfa_index_form': '%d + %d*state + T[byte]' % (L.c0, L.cs)}
    R._c05 = (node, statevar, acc, rej, consts)


# ----------------------------------------------------------------------------------------------- loop
def loop(R):
    f = R.func(VAL + '.validate')
    g = R.cfg(VAL + '.validate')
    rd = ReachingDefs(g)
    ctx = g.ctx
    step_node, statevar, acc, rej, consts = R._c05
    ba = f.params[1]
    nx = lambda a, b, l: l.startswith('exc:')
    heads = [n for n in g.live_nodes() if n.kind == 'loophead']
    need(len(heads) == 1, 'validate(): expected exactly one loop, found %d' % len(heads))
    head = heads[0]
    tests = [m for m in normal_succs(head) if m.kind == 'test']
    need(len(tests) == 1, 'validate(): loop condition not a single comparison')
    t = tests[0]
    c = t.ast
    ok = isinstance(c, ast.Compare) and len(c.ops) == 1
    idx = None
    if ok:
        l, r = c.left, c.comparators[0]
        if isinstance(c.ops[0], ast.Gt):
            l, r = r, l
            op = ast.Lt()
        else:
            op = c.ops[0]
        ro, _ = rd.origin(t, r)
        ok = isinstance(op, ast.Lt) and isinstance(l, ast.Name) and U(ro) == 'len(%s)' % ba
        idx = l.id if isinstance(l, ast.Name) else None
    R.ob('C05.loop', 'loop bound', ok, 'loop condition %s is not `index < len(%s)`' % (U(c), ba), func=f, node=c)
    need(idx is not None, 'validate(): cannot identify the index variable')
    # the step subscripts ba[idx]
    from .common import oexpr
    step_expr = oexpr(R, g, step_node, step_node.ast.value) if isinstance(step_node.ast, ast.Assign) else step_node.ast
    # through a temporary holding the byte class (char_class = T[ba[i]])
    from .common import subst_locals
    step_expr = subst_locals(R, g, step_node, step_expr, pure_only=False)
    uses = [x for x in ast.walk(step_expr) if isinstance(x, ast.Subscript) and isinstance(x.value, ast.Name)
            and x.value.id == ba]
    R.ob('C05.loop', 'step reads data[index]', len(uses) == 1 and U(uses[0].slice) == idx,
         'transition reads %s, expected %s[%s]' % ([U(u) for u in uses], ba, idx), func=f, node=step_node.ast)
    # index initialised to 0, incremented by one exactly once per iteration
    from ..dataflow import defs_of_node
    idefs = [n for n in g.live_nodes() if idx in defs_of_node(n)]
    inits = [n for n in idefs if head not in g.reachable([g.entry], avoid={n})]
    incs = [n for n in idefs if n not in inits]
    R.ob('C05.loop', 'index starts at 0', len(inits) == 1 and isinstance(inits[0].ast, ast.Assign)
         and U(inits[0].ast.value) == '0', 'index initialisation: %s' % [n.text() for n in inits], func=f,
         node=(inits[0].ast if inits else f.node))
    inc_ok = len(incs) == 1 and ((isinstance(incs[0].ast, ast.AugAssign) and isinstance(incs[0].ast.op, ast.Add)
                                  and U(incs[0].ast.value) == '1')
                                 or U(incs[0].ast) in ('%s = %s + 1' % (idx, idx), '%s = 1 + %s' % (idx, idx)))
    R.ob('C05.loop', 'index step is +1', inc_ok, 'index updates: %s' % [n.text() for n in incs], func=f,
         node=(incs[0].ast if incs else f.node))
    body = succs(t, 'true')
    if incs:
        once = all_paths_pass(g, body, incs, [head], skip_edge=nx)
        R.ob('C05.loop', 'every byte is stepped', once and all_paths_pass(g, body, [step_node], [head], skip_edge=nx),
             'a loop iteration can skip the transition or the index increment', func=f, node=head.ast,
             construct='validate loop body')
        order = all_paths_pass(g, body, [step_node], incs, skip_edge=nx)
        R.ob('C05.loop', 'step before increment', order, 'index incremented before the byte is consumed',
             func=f, node=incs[0].ast)
    # reject test follows the step
    rejtests = []
    for n in g.live_nodes():
        if n.kind == 'test' and isinstance(n.ast, ast.Compare) and len(n.ast.ops) == 1 \
                and isinstance(n.ast.ops[0], ast.Eq):
            sides = [n.ast.left, n.ast.comparators[0]]
            texts = [U(s) for s in sides]
            vals = [fold(R, s, ctx) if not (isinstance(s, ast.Name) and s.id == statevar) else None for s in sides]
            if statevar in texts and rej in [v for v in vals if isinstance(v, int)]:
                rejtests.append(n)
    R.ob('C05.loop', 'reject test exists', len(rejtests) >= 1, 'no `state == UTF8_REJECT` test in the loop',
         func=f, node=head.ast, construct='reject test')
    for rt in rejtests:
        ok = all_paths_pass(g, [step_node], [rt], incs + [head], skip_edge=nx) if incs else False
        R.ob('C05.loop', 'reject tested after every step', ok,
             'a step can be followed by the next byte without testing for REJECT', func=f, node=rt.ast)
        # true edge: return False-first with state stored
        tsucc = succs(rt, 'true')
        rets = [n for n in g.reachable(tsucc, skip_edge=nx) if n.kind == 'stmt' and isinstance(n.ast, ast.Return)
                and n in g.reachable(tsucc, avoid={head}, skip_edge=nx)]
        okr = bool(rets) and all(isinstance(r.ast.value, ast.Tuple) and r.ast.value.elts
                                 and isinstance(r.ast.value.elts[0], ast.Constant)
                                 and r.ast.value.elts[0].value is False for r in rets)
        loops_back = head in g.reachable(tsucc, skip_edge=nx)
        R.ob('C05.loop', 'reject returns False immediately', okr and not loops_back,
             'REJECT branch does not return (False, ...) at once', func=f, node=rt.ast)
        stores = [n for n in g.live_nodes() if n.kind == 'stmt' and isinstance(n.ast, ast.Assign)
                  and U(n.ast.targets[0]) == 'self._state' and U(n.ast.value) == statevar]
        oks = all(all_paths_pass(g, tsucc, stores, [r], skip_edge=nx) for r in rets) if rets else False
        R.ob('C05.loop', 'rejected state is stored', oks, 'REJECT exit does not store the state back (a later chunk '
             'would be accepted)', func=f, node=rt.ast)
    # no exit bypasses the scan: every return is behind the loop test
    for rn in [n for n in g.live_nodes() if n.kind == 'stmt' and isinstance(n.ast, ast.Return)]:
        R.ob('C05.loop', 'no verdict without scanning', all_paths_pass(g, [g.entry], [t], [rn], skip_edge=nx),
             'validate() can return a verdict without stepping the DFA over the chunk (e.g. a fast path that ignores '
             'the pending state)', func=f, node=rn.ast)
    # normal exit
    fsucc = succs(t, 'false')
    rets = [n for n in g.reachable(fsucc, skip_edge=nx) if n.kind == 'stmt' and isinstance(n.ast, ast.Return)]
    okr = bool(rets) and all(isinstance(r.ast.value, ast.Tuple) and U(r.ast.value.elts[0]) == 'True' for r in rets)
    R.ob('C05.loop', 'exhausted chunk returns True-first', okr, 'loop-exhausted exit does not return (True, ...)',
         func=f, node=(rets[0].ast if rets else f.node))
    stores = [n for n in g.live_nodes() if n.kind == 'stmt' and isinstance(n.ast, ast.Assign)
              and U(n.ast.targets[0]) == 'self._state' and U(n.ast.value) == statevar]
    oks = bool(rets) and all(all_paths_pass(g, fsucc, stores, [r], skip_edge=nx) for r in rets)
    R.ob('C05.loop', 'pending state is stored', oks, 'state not stored back at the end of a chunk (state would not '
         'survive a read/fragment boundary)', func=f, node=(rets[0].ast if rets else f.node))
    # state loaded from self._state before the loop
    sdefs = [n for n in g.live_nodes() if statevar in defs_of_node(n) and head not in g.reachable([g.entry], avoid={n})]
    R.ob('C05.loop', 'state loaded from the object', len(sdefs) == 1 and U(sdefs[0].ast.value) == 'self._state',
         'initial state: %s' % [n.text() for n in sdefs], func=f, node=(sdefs[0].ast if sdefs else f.node))
    # reset() sets ACCEPT
    rf = R.func(VAL + '.reset')
    sets = [s for s in own_nodes(rf.node) if isinstance(s, ast.Assign) and U(s.targets[0]) == 'self._state']
    R.ob('C05.loop', 'reset() enters ACCEPT', len(sets) == 1 and fold(R, sets[0].value, R.ctx(VAL + '.reset')) == acc,
         'reset() does not set the state to UTF8_ACCEPT', func=rf, node=(sets[0] if sets else rf.node))

    # _ReadUtf8.validate
    q = 'parser._ReadUtf8.validate'
    f2 = R.func(q)
    g2 = R.cfg(q)
    rd2 = ReachingDefs(g2)
    calls = calls_to(R, g2, VAL + '.validate')
    need(len(calls) == 1, '_ReadUtf8.validate: expected one call of Utf8Validator.validate, found %d' % len(calls))
    cn, call = calls[0]
    arg = call.args[0] if call.args else None
    while isinstance(arg, ast.Call) and isinstance(arg.func, ast.Name) and arg.func.id in ('bytes', 'bytearray', 'memoryview') \
            and len(arg.args) == 1:
        arg = arg.args[0]
    R.ob('C05.loop', '_ReadUtf8 validates the whole chunk', arg is not None and is_param(rd2, cn, arg, f2.params[1]),
         'validator is fed %s instead of the received chunk' % U(call.args[0] if call.args else None), func=f2, node=call)
    R.ob('C05.loop', '_ReadUtf8 uses its own validator field', U(call.func) == 'self.utf8_validator.validate',
         'validator receiver is %s' % U(call.func), func=f2, node=call)
    verdict = None
    if isinstance(cn.ast, ast.Assign) and isinstance(cn.ast.targets[0], ast.Tuple) and cn.ast.value is call:
        e0 = cn.ast.targets[0].elts[0]
        verdict = e0.id if isinstance(e0, ast.Name) else None
    raises = [n for n in g2.live_nodes() if n.kind == 'stmt' and isinstance(n.ast, ast.Raise)]
    ok = False
    for r in raises:
        toks = R.exc.exc_tokens_of_value(r.ast.exc, g2.ctx)
        gs = guards_of(g2, r)
        if 'parser.ParseError' in toks and verdict and any(txt == verdict and pol is False for (txt, pol, _) in gs) \
                and rd2.defs_at(r, verdict) == {cn}:
            ok = True
    # and no path returns normally with a False verdict: the false edge of the verdict test must reach a raise
    tests = [n for n in g2.live_nodes() if n.kind == 'test' and U(n.ast) == (verdict or '')]
    for tn in tests:
        fs = succs(tn, 'false')
        if g2.exit in g2.reachable(fs, skip_edge=lambda a, b, l: l.startswith('exc:')):
            ok = False
    R.ob('C05.loop', '_ReadUtf8 raises on a False verdict', ok,
         'ParseError is not raised exactly when the validator verdict is False', func=f2, node=f2.node,
         construct='_ReadUtf8.validate verdict handling')


# ---------------------------------------------------------------------------------------------- route
def _payload_reads(R, g, rd):
    """Payload reads of parse(): the awaitable whose sent-in value is stored to frame.payload.
    returns [(site node, awaitable call, extra condition literals, yield node)] - the awaitable may be created in
    the yield itself, bound to a local first, or chosen by a conditional expression."""
    from .common import value_cases
    out = []
    for y in g.yields():
        st = y.stmt
        if isinstance(st, ast.Assign) and len(st.targets) == 1 and isinstance(st.targets[0], ast.Attribute) \
                and st.targets[0].attr == 'payload' and st.value is y.ast and y.ast.value is not None:
            for (conds, val, site) in value_cases(R, g, y, y.ast.value):
                if isinstance(val, ast.Call):
                    # conditions collected by value_cases for a *definition* site are its dominating guards: the
                    # path conditions to the site already contain them; keep only conditional-expression literals
                    extra = set(conds) if site is y or isinstance(y.ast.value, ast.IfExp) else set()
                    out.append((site, val, extra, y))
    return out


def awaitables_fresh(R, RID):
    """Every awaitable yielded by parse() is constructed for that read: Parser.feed keeps the outstanding count in
    the awaitable object itself, so an object reused across reads/frames stays shrunk after a partial read."""
    q = 'frame_parser.FrameParser.parse'
    recv = 'frame_parser.ClientFrameParser'
    g = R.cfg(q, recv)
    rd = ReachingDefs(g)
    from .common import value_cases
    n_ = 0
    # the factories really construct: a memoising decorator hands the same (mutable) awaitable out again
    nfac = 0
    facs = set()
    for key, cx in sorted(R.types.ctxs.items(), key=lambda kv: str(kv[0])):
        fi = cx.func
        if fi.module.name.startswith('examples') or fi.qual in facs:
            continue
        makes = False
        for x_ in own_nodes(fi.node):
            if isinstance(x_, ast.Return) and x_.value is not None and any(
                    isinstance(t, str) and t.startswith('inst:parser._Read') for t in R.types.expr(x_.value, cx)):
                makes = True
        if not makes:
            continue
        nfac += 1
        facs.add(fi.qual)
        decs = [U(d_) for d_ in fi.node.decorator_list
                if U(d_).split('(')[0].split('.')[-1] not in ('staticmethod', 'classmethod')]
        R.ob(RID, 'awaitable factory %s builds a new object per call' % fi.qual, not decs,
             '%s is wrapped by %s: calls with equal arguments get the same awaitable object back, whose outstanding byte '
             'count Parser.feed mutates - after a read that was split across two recv() calls the next read of that size is '
             'cut short' % (fi.qual, decs), func=fi, node=fi.node, construct='decorated awaitable factory %s' % fi.qual)
    R.extra['awaitable_factories'] = sorted(facs)
    for y in g.yields():
        if y.ast.value is None:
            continue
        tys = R.types.expr(y.ast.value, g.ctx)
        if not any(isinstance(t, str) and t.startswith('inst:parser._Read') for t in tys):
            continue
        for (conds, val, site) in value_cases(R, g, y, y.ast.value):
            if not isinstance(val, ast.Call):
                # an awaitable that is not constructed in parse() at all: a module constant, a field set up in __init__
                n_ += 1
                R.ob(RID, 'awaitable for `%s` is created for this read' % y.text()[:40], False,
                     'the awaitable yielded here (%s) is a long-lived object, not one constructed for this read: after a '
                     'read that was split across two recv() calls its outstanding byte count stays reduced (also across '
                     'connections) and the next frame is mis-parsed' % U(val), func=q, node=y.ast,
                     construct='shared awaitable %s' % U(val))
                continue
            n_ += 1
            yl = [fr.stmt for fr in y.frames if fr.kind == 'loop']
            sl = [fr.stmt for fr in site.frames if fr.kind == 'loop']
            ok = (yl[-1:] == sl[-1:])
            R.ob(RID, 'awaitable for `%s` is created for this read' % y.text()[:40], ok,
                 'the awaitable yielded here is created outside the frame loop and reused: after a read that was split '
                 'across two recv() calls its outstanding byte count stays reduced and the next frame is mis-parsed',
                 func=q, node=y.ast)
    need(n_ >= 4, 'FrameParser.parse: fewer than 4 awaitable yields found')


def route(R, RID='C05.route'):
    q = 'frame_parser.FrameParser.parse'
    recv = 'frame_parser.ClientFrameParser'
    g = R.cfg(q, recv)
    rd = ReachingDefs(g)
    ctx = g.ctx
    f = R.func(q)
    reads = _payload_reads(R, g, rd)
    need(len(reads) >= 2, 'FrameParser.parse: expected a validating and a raw payload read, found %d' % len(reads))
    text_reads, raw_reads = [], []
    for (site, call, extra, y) in reads:
        ts = R.types.call_targets(call, ctx)
        if any(t.kind == 'func' and t.qual == 'frame_parser.FrameParser.read_text' for t in ts):
            text_reads.append((site, call, extra, y))
        elif any(t.kind == 'ctor' and t.cls == 'parser._ReadUtf8' for t in ts):
            text_reads.append((site, call, extra, y))
        else:
            raw_reads.append((site, call, extra, y))
    need(text_reads, 'FrameParser.parse: no payload read through read_text / read_utf8')
    # frame variable = receiver of the .payload store
    framevar = U(text_reads[0][3].stmt.targets[0].value)
    T_TEXT = '%s.opcode == Opcode.TEXT' % framevar
    T_CONT = '%s.opcode == Opcode.CONTINUATION' % framevar
    T_FLAG = 'self._is_text'
    # start of the per-frame region: the frame construction
    cons = [n for n in g.live_nodes() if n.kind == 'stmt' and isinstance(n.ast, ast.Assign)
            and U(n.ast.targets[0]) == framevar]
    need(len(cons) == 1, 'FrameParser.parse: frame constructed at %d sites' % len(cons))
    start = cons[0]

    def is_text_path(l):
        return (T_TEXT, True) in l or ((T_CONT, True) in l and (T_FLAG, True) in l)

    def not_text_path(l):
        return (T_TEXT, False) in l and ((T_CONT, False) in l or (T_FLAG, False) in l
                                         or ('and(%s)' % ','.join(sorted([T_CONT, T_FLAG])), False) in l)
    for (site, call, extra, y) in text_reads:
        pcs = [set(l) | extra for l in path_conditions(R, g, rd, start, site)]
        bad = [sorted(l) for l in pcs if not is_text_path(l)]
        R.ob(RID, 'validating read only for text', not bad,
             'a non-text frame (e.g. Ping between text fragments, or binary) can be read through the UTF-8 '
             'validating reader; path conditions: %s' % (bad[:1],), func=f, node=y.stmt)
    for (site, call, extra, y) in raw_reads:
        pcs = [set(l) | extra for l in path_conditions(R, g, rd, start, site)]
        bad = [sorted(l) for l in pcs if not not_text_path(l) and ('self._compression', True) not in l]
        R.ob(RID, 'raw read never for text', not bad,
             'a TEXT frame or a continuation of a text message can be read without incremental validation; '
             'path conditions: %s' % (bad[:1],), func=f, node=y.stmt)
    # the flag consulted for the routing decision is the one the previous frames left (plus `is_text -> True` for this
    # frame): nothing between the frame construction and a payload read clears or resets it - the end-of-message
    # bookkeeping (on_frame) runs after the payload
    clearers = set()
    for fq_, fi_ in R.prog.funcs.items():
        if fi_.module.name != 'frame_parser' or fi_.cls is None:
            continue
        for x_ in own_nodes(fi_.node):
            if isinstance(x_, ast.Assign) and any(isinstance(t_, ast.Attribute) and t_.attr == '_is_text' for t_ in x_.targets) \
                    and not (isinstance(x_.value, ast.Constant) and x_.value.value is True):
                clearers.add(fq_)
            if isinstance(x_, ast.Call) and isinstance(x_.func, ast.Attribute) and x_.func.attr == 'reset' \
                    and '_utf8_validator' in U(x_.func.value):
                clearers.add(fq_)
    work_ = list(clearers)
    while work_:                    # ... or call something that does (ClientFrameParser.on_frame -> super().on_frame)
        q_ = work_.pop()
        for (cx_, _, _) in R.types.callers.get(q_, []):
            cq_ = cx_.func.qual
            if cx_.func.module.name == 'frame_parser' and cq_ not in clearers and cq_ != q:
                clearers.add(cq_)
                work_.append(cq_)
    sites_ = [site for (site, call, extra, y) in reads]
    region = set(g.reachable([start], avoid=set(sites_), skip_edge=lambda a, b, l: l.startswith('exc:')))
    early = []
    for n_ in region:
        if n_ is start or not any(s_ in g.reachable([n_], avoid={start}, skip_edge=lambda a, b, l: l.startswith('exc:'))
                                  for s_ in sites_):
            continue                # (reaching a read only through the next frame's construction does not count)
        if any(fr.kind == 'loop' for fr in n_.frames) and n_ in sites_:
            continue
        if n_.kind == 'stmt' and isinstance(n_.ast, ast.Assign) and any(
                isinstance(t_, ast.Attribute) and t_.attr == '_is_text' for t_ in n_.ast.targets) and not (
                    isinstance(n_.ast.value, ast.Constant) and n_.ast.value.value is True):
            early.append(n_.text())
        for c_ in n_.calls:
            for t_ in R.types.call_targets(c_, ctx):
                if t_.kind == 'func' and t_.func.qual in clearers and t_.func.qual != q:
                    early.append(U(c_))
    R.ob(RID, 'text tracking is settled only after the payload was read', not early,
         'between the frame header and the payload read %s clears / resets the text tracking state: the final fragment of '
         'a text message is then read without the incremental validator (invalid bytes are no longer reported as they '
         'arrive)' % sorted(set(early)), func=f, node=None, construct='flag cleared before the payload read')

    # read_text body
    q2 = 'frame_parser.FrameParser.read_text'
    via_helper = any(t.kind == 'func' and t.qual == q2 for (site, call, extra, y) in text_reads
                     for t in R.types.call_targets(call, ctx))
    if not via_helper:
        # the validating reader is constructed in parse() itself: same obligations on those constructor calls
        cf = R.func('parser._ReadUtf8.__init__')
        n_val = 0
        for (site, call, extra, y) in text_reads:
            for t in R.types.call_targets(call, ctx):
                if t.kind == 'ctor' and t.cls == 'parser._ReadUtf8':
                    n_val += 1
                    a = None
                    for kw in call.keywords:
                        if kw.arg == 'utf8_validator':
                            a = kw.value
                    if a is None and len(call.args) >= 2:
                        a = call.args[1]
                    R.ob(RID, 'per-parser validator', a is not None and U(a) == 'self._utf8_validator',
                         'read_utf8 is given %s instead of the parser\'s persistent validator' % U(a), func=f, node=call)
        R.ob(RID, 'read_text has a validating arm', n_val >= 1, 'text is never read through a validating reader',
             func=f, node=f.node, construct='read_text validating arm')
        return
    g2 = R.cfg(q2, recv)
    rd2 = ReachingDefs(g2)
    f2 = R.func(q2)
    rets = [n for n in g2.live_nodes() if n.kind == 'stmt' and isinstance(n.ast, ast.Return)]
    val_rets = []
    from .common import value_cases as _vc
    for r in rets:
        # the returned reader by cases (if/else statements and conditional expressions alike)
        for (conds, v, site) in _vc(R, g2, r, r.ast.value):
            if isinstance(v, ast.Call) and any(t.kind == 'ctor' and t.cls == 'parser._ReadUtf8'
                                               for t in R.types.call_targets(v, g2.ctx)):
                val_rets.append((r, v))
            else:
                gs = {(txt, pol) for (txt, pol, _) in guards_of(g2, r)} | set(conds)
                ok = ('self._compression', True) in gs
                R.ob(RID, 'non-validating text read only under compression', ok,
                     'read_text returns a non-validating reader without compression being enabled', func=f2, node=r.ast)
    R.ob(RID, 'read_text has a validating arm', len(val_rets) >= 1, 'read_text never returns a validating '
         'reader', func=f2, node=f2.node, construct='read_text validating arm')
    for (r, v) in val_rets:
        cf = R.func('parser._ReadUtf8.__init__')
        a = None
        for kw in v.keywords:
            if kw.arg == 'utf8_validator':
                a = kw.value
        if a is None and len(v.args) >= 2:
            a = v.args[1]
        R.ob(RID, 'per-parser validator', a is not None and U(a) == 'self._utf8_validator',
             'read_utf8 is given %s instead of the parser\'s persistent validator' % U(a), func=f2, node=v)
        n_arg = v.args[0] if v.args else None
        R.ob(RID, 'length forwarded', n_arg is not None and is_param(rd2, r, n_arg),
             'read_utf8 length is not the requested length', func=f2, node=v)


# ---------------------------------------------------------------------------------------------- track
def track(R, RID='C05.track'):
    recv = 'frame_parser.ClientFrameParser'
    # validator field: created once per parser, in __init__ only
    st = stores_in_package(R, '_utf8_validator')
    for (c, stmt, tgt, val) in st:
        ok = c.func.name == '__init__' and c.func.cls is not None and c.func.cls.qual == 'frame_parser.FrameParser'
        R.ob(RID, 'validator created once per parser', ok,
             'the UTF-8 validator is (re)created outside FrameParser.__init__ (state would not survive '
             'fragment/read boundaries)', func=c.func, node=stmt)
        fresh = isinstance(val, ast.Call) and any(t.kind == 'ctor' and t.cls == VAL for t in R.types.call_targets(val, c))
        R.ob(RID, 'each parser gets its own validator', fresh,
             'the parser\'s validator is %s, not a Utf8Validator() constructed in __init__: a validator taken from a '
             'parameter default or shared object is shared by every parser (one connection\'s pending state poisons '
             'the next)' % U(val), func=c.func, node=stmt)
    need(st, '_utf8_validator is never assigned')
    # reset() call sites on a parser's validator
    sites = []
    for c in R.types.ctxs.values():
        if c.func.cls is None or c.recv != recv or c.func.parent is not None:
            continue
        if c.func.qual.startswith('utf8validator.'):
            continue
        for n in own_nodes(c.func.node):
            if isinstance(n, ast.Call) and isinstance(n.func, ast.Attribute) and n.func.attr == 'reset':
                if any(t.kind == 'func' and t.qual == VAL + '.reset' for t in R.types.call_targets(n, c)):
                    sites.append((c, n))
    for (c, call) in sites:
        g = R.cfg(c.func.qual, recv)
        rd = ReachingDefs(g)
        nodes = [n for n in g.live_nodes() if call in n.calls]
        for n in nodes:
            framevar = _frame_param(c.func)
            pcs = path_conditions(R, g, rd, g.entry, n)
            T = lambda s: '%s.opcode == Opcode.%s' % (framevar, s)
            bad = []
            for l in pcs:
                fin = ('%s.fin' % framevar, True) in l
                data_end = (T('TEXT'), True) in l or (T('CONTINUATION'), True) in l \
                    or ('or(%s)' % ','.join(sorted([T('TEXT'), T('CONTINUATION')])), True) in l
                if not (fin and data_end):
                    bad.append(sorted(l))
            R.ob(RID, 'validator reset only at end of a text/continuation message', not bad,
                 'validator reset reachable without (FIN and text/continuation frame): %s - a control frame or a '
                 'non-final fragment would reset the validator in mid code point' % (bad[:1],), func=c.func, node=call)
    # ... and nowhere else in the package: an awaitable / helper that resets the validator it was handed (per read, per
    # frame) forgets a code point that straddles two fragments
    mro_ = set(R.prog.mro(recv))
    seenq = set()
    for c in R.types.ctxs.values():
        if c.func.qual in seenq or c.func.module.name.startswith('examples') or c.func.qual.startswith('utf8validator.'):
            continue
        if c.func.cls is not None and c.func.cls.qual in mro_:
            continue
        seenq.add(c.func.qual)
        for n in own_nodes(c.func.node):
            if isinstance(n, ast.Call) and isinstance(n.func, ast.Attribute) and n.func.attr == 'reset' \
                    and not isinstance(n.func.value, ast.Call):
                if any(t.kind == 'func' and t.qual == VAL + '.reset' for t in R.types.call_targets(n, c)) \
                        or ('utf8' in U(n.func.value).lower() and 'valid' in U(n.func.value).lower()):
                    R.ob(RID, 'no validator reset outside the parser\'s end-of-message bookkeeping', False,
                         '%s resets a UTF-8 validator (`%s`): the parser\'s validator carries the state of a code point split '
                         'across fragments / reads - resetting it per read rejects valid text and accepts a dangling '
                         'sequence' % (c.func.qual, U(n)), func=c.func, node=n, construct='validator reset in %s' % c.func.qual)
    R.ob(RID, 'validator is reset at end of message', len(sites) >= 1,
         'the parser never resets its validator: the message after an incomplete one starts in a pending state',
         func='frame_parser.FrameParser.on_frame', node=None, construct='validator reset site')
    # _is_text writers
    st = stores_in_package(R, '_is_text')
    seen = set()
    for (c, stmt, tgt, val) in st:
        if c.func.qual in seen and False:
            continue
        if c.func.name == '__init__':
            R.ob(RID, '_is_text initial value', U(val) == 'False', '_is_text initialised to %s' % U(val),
                 func=c.func, node=stmt)
            continue
        g = R.cfg(c.func.qual, recv if c.func.cls and R.prog.is_subclass(recv, c.func.cls.qual) else None)
        rd = ReachingDefs(g)
        nodes = [n for n in g.live_nodes() if n.ast is stmt]
        need(nodes, 'store to _is_text not found in CFG of %s' % c.func.qual)
        n = nodes[0]
        framevar = _frame_var_in(c.func)
        T = lambda s: '%s.opcode == Opcode.%s' % (framevar, s)
        start = g.entry
        if c.func.name == 'parse':
            cons = [m for m in g.live_nodes() if m.kind == 'stmt' and isinstance(m.ast, ast.Assign)
                    and U(m.ast.targets[0]) == framevar]
            start = cons[0] if cons else g.entry
        pcs = path_conditions(R, g, rd, start, n)
        if U(val) == 'True':
            bad = [sorted(l) for l in pcs if (T('TEXT'), True) not in l]
            R.ob(RID, '_is_text set only on a TEXT frame', not bad,
                 '_is_text set without a TEXT-frame test: %s' % (bad[:1],), func=c.func, node=stmt)
        elif U(val) == 'False':
            bad = []
            for l in pcs:
                fin = ('%s.fin' % framevar, True) in l
                noctl = ('%s.opcode >= 8' % framevar, False) in l or any((T(s), True) in l for s in
                                                                          ('TEXT', 'BINARY', 'CONTINUATION'))
                if not (fin and noctl):
                    bad.append(sorted(l))
            R.ob(RID, '_is_text cleared only at the end of a data message', not bad,
                 '_is_text cleared without (FIN and not a control frame): %s - a Ping/Pong between text fragments '
                 'switches the rest of the message to the non-validating reader' % (bad[:1],), func=c.func, node=stmt)
        else:
            R.ob(RID, '_is_text value', False, '_is_text assigned %s' % U(val), func=c.func, node=stmt)
        seen.add(c.func.qual)
    vals = [U(v) for (_, _, _, v) in st]
    R.ob(RID, '_is_text is set somewhere', 'True' in vals, '_is_text is never set: continuations of text '
         'messages are never validated incrementally', func='frame_parser.FrameParser.parse', node=None,
         construct='_is_text = True')
    R.ob(RID, '_is_text is cleared somewhere', vals.count('False') >= 2, '_is_text is never cleared: '
         'continuations of binary messages would be validated as text', func='frame_parser.FrameParser.on_frame',
         node=None, construct='_is_text = False')
    # completeness of the bookkeeping, decided per path of one frame's processing (parse() from the frame construction
    # to `yield frame`, with on_frame() spliced in): after a final data frame the flag is False; after a non-final TEXT
    # frame it is True; a control frame leaves it alone
    from .common import path_consistent
    qp = 'frame_parser.FrameParser.parse'
    gp = R.cfg(qp, 'frame_parser.FrameParser')      # the base class: on_frame() of the client parser only adds the mask check
    rdp = ReachingDefs(gp)
    fv = _frame_var_in(R.func(qp))
    consn = [m for m in gp.live_nodes() if m.kind == 'stmt' and isinstance(m.ast, ast.Assign) and U(m.ast.targets[0]) == fv]
    yf = [y for y in gp.yields() if isinstance(y.ast.value, ast.Name) and y.ast.value.id == fv]
    if len(consn) == 1 and len(yf) == 1:
        from .common import frame_situation
        cases = [
            ('a final TEXT frame leaves the flag False', frame_situation(R, fv, 1, 1), False),
            ('a final continuation frame leaves the flag False', frame_situation(R, fv, 0, 1), False),
            ('a final BINARY frame leaves the flag False', frame_situation(R, fv, 2, 1), False),
            ('a non-final TEXT frame leaves the flag True', frame_situation(R, fv, 1, 0), True),
        ]
        from . import common as _cm
        _cm.SPLICE_ALSO.add('on_frame')
        _cm._HP_CACHE.clear()
        try:
            pcs = path_conditions(R, gp, rdp, consn[0], yf[0])
        finally:
            _cm.SPLICE_ALSO.discard('on_frame')
            _cm._HP_CACHE.clear()
        for (what, truth, want) in cases:
            bad = []
            n_ok = 0
            for l in pcs:
                if not path_consistent(l, truth):
                    continue
                last = getattr(l, 'assigns', {}).get('self._is_text')
                v = U(last[0]) if last is not None else 'unchanged'
                if v != str(want):
                    bad.append((v, sorted(t for (t, p) in l if p)[:5]))
                else:
                    n_ok += 1
            R.ob(RID, what, not bad and n_ok >= 1,
                 'processing such a frame can end with _is_text %s (path: %s): the text/binary routing of the following '
                 'continuation frames is wrong' % (bad[0] if bad else ('never %s' % want), ''), func=qp, node=yf[0].ast,
                 construct='_is_text after: ' + what)
    # generic: per-message parser state (any field written while parsing frames) is not touched by control frames
    known = {'_is_text'}
    for fq in ('frame_parser.FrameParser.parse', 'frame_parser.FrameParser.on_frame', recv + '.on_frame'):
        fi = R.prog.funcs.get(fq)
        if fi is None:
            continue
        gg = R.cfg(fq, recv)
        rdg = ReachingDefs(gg)
        fvar = _frame_var_in(fi)
        for n in gg.live_nodes():
            if n.kind != 'stmt' or not isinstance(n.ast, (ast.Assign, ast.AugAssign)):
                continue
            tgts = n.ast.targets if isinstance(n.ast, ast.Assign) else [n.ast.target]
            for t in tgts:
                if isinstance(t, ast.Attribute) and U(t.value) == 'self' and t.attr not in known:
                    start = gg.entry
                    if fi.name == 'parse':
                        cons = [m for m in gg.live_nodes() if m.kind == 'stmt' and isinstance(m.ast, ast.Assign)
                                and U(m.ast.targets[0]) == fvar]
                        start = cons[0] if cons else gg.entry
                        if n not in gg.succ_reach(start):
                            continue
                    T = lambda s_: '%s.opcode == Opcode.%s' % (fvar, s_)
                    bad = []
                    for l in path_conditions(R, gg, rdg, start, n):
                        if not (('%s.opcode >= 8' % fvar, False) in l or any((T(s_), True) in l for s_ in ('TEXT', 'BINARY', 'CONTINUATION'))):
                            bad.append(sorted(x[0] for x in l if x[1])[:4])
                    R.ob(RID, 'parser state `%s` is not written while handling a control frame' % t.attr, not bad,
                         'self.%s is written on a path that a Ping/Pong/Close frame takes (%s): a control frame between the '
                         'fragments of a message changes how the rest of the message is read' % (t.attr, bad[:1]),
                         func=fi, node=n.ast)
    # ... and the per-frame bookkeeping refuses no control frame: an unmasked Ping/Pong/Close that passed validation is legal
    # wherever it arrives, also between the fragments of a text message whose last code point is still open
    for fq in ('frame_parser.FrameParser.on_frame', recv + '.on_frame'):
        fi = R.prog.funcs.get(fq)
        if fi is None:
            continue
        gg = R.cfg(fq, recv)
        rdg = ReachingDefs(gg)
        fvar = _frame_var_in(fi)
        T = lambda s_: '%s.opcode == Opcode.%s' % (fvar, s_)
        for n in gg.live_nodes():
            if not (n.kind == 'stmt' and isinstance(n.ast, ast.Raise)):
                continue
            bad = []
            for l in path_conditions(R, gg, rdg, gg.entry, n):
                if ('%s.mask' % fvar, True) in l:
                    continue
                if not (('%s.opcode >= 8' % fvar, False) in l or any((T(s_), True) in l for s_ in ('TEXT', 'BINARY', 'CONTINUATION'))):
                    bad.append(sorted(x[0] for x in l if x[1])[:4])
            R.ob(RID, 'on_frame refuses no control frame', not bad,
                 '%s raises `%s` on a path that an unmasked Ping/Pong/Close frame takes (%s): a control frame interleaved between '
                 'the fragments of a message fails the connection' % (fq, U(n.ast.exc)[:50] if n.ast.exc else 'raise', bad[:1]),
                 func=fi, node=n.ast, construct='on_frame raise %s' % (U(n.ast.exc)[:50] if n.ast.exc else ''))
    # on_frame runs for every frame before it is yielded
    g = R.cfg('frame_parser.FrameParser.parse', recv)
    onf = calls_to(R, g, ['frame_parser.ClientFrameParser.on_frame', 'frame_parser.FrameParser.on_frame'])
    yl = [y for y in g.yields() if isinstance(y.ast.value, ast.Name) and isinstance(y.stmt, ast.Expr)
          and any(isinstance(t, str) and t.startswith('inst:frame.') for t in R.types.expr(y.ast.value, g.ctx))]
    need(yl, 'FrameParser.parse: `yield frame` not found')
    for y in yl:
        ok = bool(onf) and all_paths_pass(g, [g.entry], [n for (n, _) in onf], [y],
                                          skip_edge=lambda a, b, l: l.startswith('exc:'))
        # every loop iteration: from the frame construction to the yield
        cons = [m for m in g.live_nodes() if m.kind == 'stmt' and isinstance(m.ast, ast.Assign)
                and U(m.ast.targets[0]) == U(y.ast.value)]
        if cons:
            ok = ok and all_paths_pass(g, normal_succs(cons[0]), [n for (n, _) in onf], [y],
                                       skip_edge=lambda a, b, l: l.startswith('exc:'))
        R.ob(RID, 'on_frame bookkeeping runs for every frame', ok,
             'a frame can be yielded without on_frame() having run (e.g. empty frames): end-of-message '
             'bookkeeping is skipped', func='frame_parser.FrameParser.parse', node=y.stmt)


def _frame_param(func):
    ps = [p for p in func.params if p not in ('self', 'cls')]
    return ps[0] if ps else 'frame'


def _frame_var_in(func):
    if func.name == 'parse':
        return 'frame'
    return _frame_param(func)


# --------------------------------------------------------------------------------------------- strict
LENIENT_DECODERS = {'codecs.utf_8_decode'}


def _strict_decode_of(R, g, rd, n, e, src_names):
    """Is expression e (at node n) `<src>.decode('utf-8'[, 'strict'])` or an accepted equivalent?
    returns (verdict, reason) verdict in True / False / None(unrecognised)"""
    o, on = rd.origin(n, e)
    if isinstance(o, ast.Name) and rd.tuple_def(on, o.id) is not None:
        td = rd.tuple_def(on, o.id)
        if td[1] == 0 and isinstance(td[0], ast.Call):
            o = td[0]
    if isinstance(o, ast.Name):
        ds = rd.defs_at(on, o.id)
        if len(ds) == 1:
            td = rd.tuple_def(next(iter(ds)), o.id)
            if td is not None and td[1] == 0 and isinstance(td[0], ast.Call):
                o, on = td[0], next(iter(ds))
    if not isinstance(o, ast.Call):
        return None, 'text comes from %s' % U(o)
    fn = o.func
    args = list(o.args)
    kws = {k.arg: k.value for k in o.keywords}
    if isinstance(fn, ast.Attribute) and fn.attr == 'decode':
        base, bn = rd.origin(on, fn.value)
        if not (isinstance(fn.value, ast.Name) and fn.value.id in src_names) and not \
                (isinstance(base, ast.Name) and base.id in src_names) and U(base) not in src_names:
            return False, 'decodes %s, not the payload' % U(fn.value)
    elif isinstance(fn, ast.Name) and fn.id in ('str', 'text_type') or U(fn) == 'six.text_type':
        if not args:
            return None, 'unrecognised decoder call %s' % U(o)
        args = args[1:]
    else:
        ts = R.types.call_targets(o, g.ctx)
        names = [t.name for t in ts if t.kind == 'ext']
        if any(nm in LENIENT_DECODERS for nm in names):
            final = kws.get('final') or (args[2] if len(args) > 2 else None)
            if final is None or U(final) != 'True':
                return False, '%s without final=True silently drops a truncated trailing sequence' % names[0]
            return True, ''
        if isinstance(fn, ast.Attribute) and fn.attr == 'join' and len(args) == 1 and isinstance(
                args[0], (ast.GeneratorExp, ast.ListComp)):
            # pieces decoded one by one with an incremental decoder: strict only when the decoder is told where the
            # message ends (final=True on the last piece) - otherwise a truncated trailing sequence is silently dropped
            inc = False
            for x in ast.walk(g.ctx.func.node):
                if isinstance(x, ast.Call) and U(x.func).split('.')[-1] in ('getincrementaldecoder', 'IncrementalDecoder',
                                                                             'iterdecode'):
                    inc = True
            finals = [x for x in ast.walk(g.ctx.func.node) if isinstance(x, ast.Call) and (
                any(k.arg == 'final' and U(k.value) == 'True' for k in x.keywords)
                or (isinstance(x.func, ast.Attribute) and x.func.attr == 'decode' and len(x.args) == 2
                    and U(x.args[1]) == 'True'))]
            if inc and not finals:
                return False, 'the pieces are decoded with an incremental decoder that is never finalised (final=True): a ' \
                              'message ending inside a multi-byte sequence is accepted and the dangling bytes are dropped'
        return None, 'unrecognised decoder %s' % U(fn)
    enc = args[0] if args else kws.get('encoding')
    err = args[1] if len(args) > 1 else kws.get('errors')
    if enc is None or not isinstance(enc, ast.Constant) or str(enc.value).lower().replace('_', '-') not in ('utf-8', 'utf8'):
        return False, 'encoding argument is %s' % U(enc)
    if err is not None and not (isinstance(err, ast.Constant) and err.value == 'strict'):
        return False, 'errors=%s is not strict' % U(err)
    return True, ''


def strict(R):
    for q, argname in (('message.Text.from_payload', 'text'), ('message.Close.from_payload', 'reason')):
        f = R.func(q)
        g = R.cfg(q)
        rd = ReachingDefs(g)
        ctx = g.ctx
        payload = [p for p in f.params if p not in ('self', 'cls')][0]
        # the constructor call that produces the message
        rets = [n for n in g.live_nodes() if n.kind == 'stmt' and isinstance(n.ast, ast.Return)]
        need(rets, '%s has no return' % q)
        src = {payload}
        if 'Close' in q:
            # reason bytes = payload[2:]
            for n in g.live_nodes():
                if n.kind == 'stmt' and isinstance(n.ast, ast.Assign) and isinstance(n.ast.value, ast.Subscript) \
                        and isinstance(n.ast.value.value, ast.Name) and n.ast.value.value.id == payload \
                        and isinstance(n.ast.value.slice, ast.Slice) and U(n.ast.value.slice) == '2:' \
                        and isinstance(n.ast.targets[0], ast.Name):
                    src = {n.ast.targets[0].id, U(n.ast.value)}
        for r in rets:
            v, vn = rd.origin(r, r.ast.value)
            if not isinstance(v, ast.Call):
                continue
            want = v.args[-1] if v.args else None
            if 'Close' in q:
                want = v.args[1] if len(v.args) > 1 else None
            need(want is not None, '%s: cannot find the %s argument of the constructed message' % (q, argname))
            # the text argument may have several definitions (reason = '' default); check each non-constant one
            for (oe, on) in rd.origins(r, want):
                if isinstance(oe, ast.Constant):
                    continue
                verdict, why = _strict_decode_of(R, g, rd, on, oe, src)
                if verdict is None:
                    raise AnalysisError('C05.strict: %s in %s' % (why, q))
                R.ob('C05.strict', '%s: strict whole-payload decode' % q, verdict, why, func=f, node=oe)
                # the decode sits in a try whose UnicodeDecodeError handler raises CriticalProtocolError
                dn = [n for n in g.live_nodes() if any(c is oe for c in n.calls)]
                okh = False
                for n in dn:
                    hs = [m for (m, l) in n.succ if l == 'exc:UnicodeDecodeError']
                    for h in hs:
                        if h.kind != 'handler':
                            continue
                        reach = g.reachable([h])
                        outs = set(l for x in reach for (m, l) in x.succ if m is g.raise_exit)
                        falls = g.exit in reach
                        if outs and all(o == 'exc:errors.CriticalProtocolError' for o in outs) and not falls:
                            okh = True
                R.ob('C05.strict', '%s: decode failure is a critical protocol error' % q, okh,
                     'UnicodeDecodeError from the decode is not turned into CriticalProtocolError', func=f, node=oe)
        if 'Close' in q:
            calls = calls_to(R, g, VAL + '.validate')
            ok = False
            for (n, c) in calls:
                rcv_ = c.func.value if isinstance(c.func, ast.Attribute) else None
                if isinstance(rcv_, ast.Name):
                    # validator = Utf8Validator() kept in a local that only this call uses
                    ro_, _ = rd.origin(n, rcv_)
                    uses_ = sum(1 for x in own_nodes(f.node) if isinstance(x, ast.Name) and x.id == rcv_.id
                                and isinstance(x.ctx, ast.Load))
                    if isinstance(ro_, ast.Call) and uses_ == 1:
                        rcv_ = ro_
                recv_fresh = isinstance(rcv_, ast.Call) and \
                    any(t.kind == 'ctor' and t.cls == VAL for t in R.types.call_targets(rcv_, ctx))
                arg_ok = c.args and (U(c.args[0]) in src or (isinstance(c.args[0], ast.Name) and c.args[0].id in src))
                v0 = None
                if recv_fresh and arg_ok and isinstance(n.ast, ast.Assign):
                    if isinstance(n.ast.targets[0], ast.Tuple) and n.ast.value is c:
                        v0 = n.ast.targets[0].elts[0]              # valid, _, _, _ = V().validate(b)
                    elif isinstance(n.ast.targets[0], ast.Name) and isinstance(n.ast.value, ast.Subscript) \
                            and n.ast.value.value is c and isinstance(n.ast.value.slice, ast.Constant) \
                            and n.ast.value.slice.value == 0:
                        v0 = n.ast.targets[0]                      # valid = V().validate(b)[0]
                if v0 is None and recv_fresh and arg_ok and isinstance(n.ast, ast.Assign) and n.ast.value is c \
                        and isinstance(n.ast.targets[0], ast.Name):
                    # result = V().validate(b);  valid, _, _, _ = result   /   valid = result[0]
                    rn_ = n.ast.targets[0].id
                    for m_ in g.live_nodes():
                        if m_.kind == 'stmt' and isinstance(m_.ast, ast.Assign) and rd.defs_at(m_, rn_) == {n}:
                            v_ = m_.ast.value
                            if isinstance(v_, ast.Name) and v_.id == rn_ and isinstance(m_.ast.targets[0], ast.Tuple):
                                v0 = m_.ast.targets[0].elts[0]
                            elif isinstance(v_, ast.Subscript) and isinstance(v_.value, ast.Name) and v_.value.id == rn_ \
                                    and isinstance(v_.slice, ast.Constant) and v_.slice.value == 0 \
                                    and isinstance(m_.ast.targets[0], ast.Name):
                                v0 = m_.ast.targets[0]
                if v0 is not None:
                    for rn in g.live_nodes():
                        if rn.kind == 'stmt' and isinstance(rn.ast, ast.Raise):
                            gs = guards_of(g, rn)
                            if any(txt == U(v0) and pol is False for (txt, pol, _) in gs) and \
                                    'errors.CriticalProtocolError' in R.exc.exc_tokens_of_value(rn.ast.exc, ctx):
                                ok = True
            R.ob('C05.strict', 'close reason validated with a fresh validator', ok,
                 'Close.from_payload does not run a fresh Utf8Validator over the reason bytes and raise on failure',
                 func=f, node=f.node, construct='Close reason validation')
