"""C07 - every connection attempt yields a well-formed, finite event sequence."""
import ast

from ..program import AnalysisError, U, own_nodes, walk_no_nested
from ..dataflow import ReachingDefs, defs_of_node
from ..consteval import fold
from .common import (match_exact, guard_atom_sets, path_atom_sets, unmatched, need, guards_of, calls_to, ext_calls, all_paths_pass, succs, normal_succs, path_conditions,
                     is_param, arg_of, default_of, stores_in_package)
from . import C15

PROPERTY = 'C07'
LEVEL = 'other'
EXPLANATION = (
    'Language inclusion of the yield-labelled CFG of WebsocketSession.run (with exception edges under the '
    'arbitrary-fault model) in the monitor  Connecting (ConnectFail | Connected (feed-event | housekeeping)* '
    'Disconnected)  by exhaustive exploration of the (CFG node x monitor state) product; plus the two gates that '
    'order the inner events: housekeeping only behind _ready, and in WebSocket.feed / WebsocketStream.feed the '
    'Response (hence Ready/Rejected) strictly before any message and at most once, nothing after Rejected; the '
    'empty-read arm always leaves the loop; the close-timeout check fires whenever due.')
NOT_DECIDED = 'termination in real time (that selector.wait returns; clock behaviour)'
ASSUMPTIONS = ['selector construction / logging do not raise (outside the external may-raise table)']

S = 'session.WebsocketSession'
WS = 'websocket.WebSocket'
nx = lambda a, b, l: l.startswith('exc:')
FEED_EVENTS = {'Rejected', 'Ready', 'Ping', 'Pong', 'Binary', 'Text', 'ProtocolError', 'Closing', 'Closed'}
REG_EVENTS = {'Poll', 'Unresponsive'}


def check(run):
    R = run
    R.rule('C07.shared', 'objects created once per class / per function definition (class-level attributes, parameter '
           'defaults) are only read: no buffer, validator, poll object, header list or option dict is shared between '
           'connections', 1)
    from .common import shared_state
    shared_state(R, 'C07.shared')
    R.rule('C07.labels', 'every yield of run() is labelled with the event classes it can carry', 8)
    R.rule('C07.monitor', 'product of run()\'s CFG with the monitor automaton: no forbidden label in any reachable '
                          'state, generator ends only after ConnectFail or Disconnected, no exception escapes', 4)
    from .common import event_fields as _evf
    _evf(R, 'C07.monitor', ['Connecting', 'Connected', 'ConnectFail', 'Disconnected', 'Ready', 'Rejected'])   # constructing an
    # event in run() cannot fail: plain stores of the arguments
    from .common import exception_text_total as _ett
    _ett(R, 'C07.monitor')        # '{}'.format(error) in the failure handlers cannot itself fail
    R.rule('C07.gate', 'Poll/Unresponsive only through the _ready-gated closure', 2)
    R.rule('C07.ready', 'Response (Ready/Rejected) strictly before messages and at most once; nothing after Rejected; '
                        'feed stops when closed', 9)
    R.rule('C07.eof', 'an empty read always leaves the receive loop; the loop re-tests is_closed', 2)
    R.rule('C07.timeout', 'the close timeout fires whenever it is due (so iteration terminates)', 5)
    from . import C17 as _C17
    with R.as_rule('C07.gate'):
        _C17.session(R)          # the _ready gate starts closed: every connect() runs on a newly built session
    from . import C11 as _C11
    _C11.no_self_deadlock(R, 'C07.timeout')      # a failing write cannot block the loop thread on its own lock
    from . import C15 as _C15, C18 as _C18
    with R.as_rule('C07.timeout'):
        _C15.units(R)            # the loop wakes up every `poll` seconds (a number): the timeouts are looked at
        _C15.poll(R)
        _C18.count(R)            # ... and it reads only what the selector announced (no blocking read with a timeout pending)
        _C18.pending(R)
    from .common import event_names
    event_names(R, 'C07.timeout')        # a Ping is not taken for a Pong: the ping timeout can fire
    from .common import maybe_unbound
    maybe_unbound(R, 'C07.monitor')       # no UnboundLocalError can escape in place of an event
    labels = label_yields(R)
    monitor(R, labels)
    gate(R)
    ready(R)
    eof(R)
    C15.close(R, RID='C07.timeout')
    with R.as_rule('C07.timeout'):
        C15.pong(R)          # the ping timeout fires whenever due (Unresponsive -> Disconnected: iteration ends)
        C15.cadence(R)
        C15.params(R)        # the timeouts the application asked for (and the documented defaults) reach the checks


def _event_names(R, g, rd, y):
    """Event classes a yield can carry; a loop variable is typed by the loop(s) that define it at this point."""
    v = y.ast.value
    tys = set()
    if isinstance(v, ast.Name):
        ds = rd.defs_at(y, v.id)
        if ds and all(d.kind == 'for' for d in ds):
            for d in ds:
                tys |= R.types.elem(R.types.expr(d.ast.iter, g.ctx))
        else:
            tys = R.types.expr(v, g.ctx)
    elif v is not None:
        tys = R.types.expr(v, g.ctx)
    return {t[len('inst:events.'):] for t in tys if isinstance(t, str) and t.startswith('inst:events.')}


def label_yields(R):
    q = S + '.run'
    g = R.cfg(q, fault='arbitrary')
    out = {}
    rd = ReachingDefs(g)
    for y in g.yields():
        names = _event_names(R, g, rd, y)
        if not names:
            raise AnalysisError('C07.labels: yield `%s` in run() cannot be labelled with event classes' % y.text())
        out[y] = names
        R.ob('C07.labels', 'yield %s' % y.text()[:40], True, 'labels %s' % sorted(names), func=q, node=y.ast)
    # group labels must be pure
    for y, names in out.items():
        pure = len(names) == 1 or names <= FEED_EVENTS or names <= REG_EVENTS
        R.ob('C07.labels', 'label group of %s' % y.text()[:30], pure,
             'one yield mixes event groups %s' % sorted(names), func=q, node=y.ast)
    return out


def monitor(R, labels):
    q = S + '.run'
    g = R.cfg(q, fault='arbitrary')

    def step(state, names):
        """returns (next states, error text or None)"""
        nxt = set()
        for nme in names:
            if state == 'start':
                if nme == 'Connecting':
                    nxt.add('connecting')
                else:
                    return None, '%s before Connecting' % nme
            elif state == 'connecting':
                if nme == 'ConnectFail':
                    nxt.add('done')
                elif nme == 'Connected':
                    nxt.add('open')
                else:
                    return None, '%s between Connecting and Connected' % nme
            elif state == 'open':
                if nme in FEED_EVENTS or nme in REG_EVENTS:
                    nxt.add('open')
                elif nme == 'Disconnected':
                    nxt.add('done')
                else:
                    return None, '%s after Connected' % nme
            elif state == 'done':
                return None, '%s after the terminal event' % nme
        return nxt, None
    seen = set()
    work = [(g.entry, 'start')]
    errors = []
    ends = []
    while work:
        n, st = work.pop()
        if (n, st) in seen:
            continue
        seen.add((n, st))
        if n is g.exit:
            if st != 'done':
                ends.append(st)
            continue
        if n is g.raise_exit:
            errors.append((n, st, 'an exception escapes the generator in state %s' % st))
            continue
        states = {st}
        for (m, l) in n.succ:
            if n.kind == 'yield' and not l.startswith('exc:'):
                ns, err = step(st, labels[n])
                if err:
                    errors.append((n, st, err))
                    continue
                for s2 in ns:
                    work.append((m, s2))
            else:
                # an exception edge out of a yield node leaves *before* the yield completes (value evaluation)
                work.append((m, st))
    bad_labels = [(n, st, e) for (n, st, e) in errors if n is not g.raise_exit]
    R.ob('C07.monitor', 'no event out of order', not bad_labels,
         '; '.join('`%s`: %s' % (n.text()[:50], e) for (n, st, e) in bad_labels[:3]), func=q,
         node=(bad_labels[0][0].ast if bad_labels else None),
         construct=('out of order: %s' % bad_labels[0][2]) if bad_labels else 'in order')
    R.ob('C07.monitor', 'iteration ends only after a terminal event', not ends,
         'run() can finish in monitor state(s) %s without ConnectFail/Disconnected' % sorted(set(ends)), func=q, node=None,
         construct='end states %s' % sorted(set(ends)))
    esc = [(n, st, e) for (n, st, e) in errors if n is g.raise_exit]
    toks = sorted(set(l[4:] for (m, l) in g.raise_exit.pred))
    R.ob('C07.monitor', 'no exception escapes run()', not esc, 'exceptions %s can propagate out of the event iterator' % toks,
         func=q, node=None, construct='run escapes %s' % toks)
    nd = sum(1 for y, ns in labels.items() if ns == {'Disconnected'})
    R.ob('C07.monitor', 'product explored', True, '%d product states, %d Disconnected sites' % (len(seen), nd), func=q, node=None)
    R.extra['monitor_product'] = {'states': len(seen), 'transitions': sum(len(n.succ) for (n, s) in seen), 'exhaustive': True}
    # exactly one Connected / one Connecting site
    for nm in ('Connecting', 'Connected'):
        k = sum(1 for y, ns in labels.items() if ns == {nm})
        R.ob('C07.monitor', 'single %s site' % nm, k == 1, '%d yields of %s' % (k, nm), func=q, node=None, construct='%s sites' % nm)


def gate(R):
    q = S + '.run'
    g = R.cfg(q)
    rd = ReachingDefs(g)
    from .common import hk_iters
    its = hk_iters(R, g)
    need(its, 'run(): no loop over the housekeeping generator found')
    fornodes = set()
    for (n, ok, desc, calls) in its:
        fornodes |= set(m for (m, l) in n.succ if m.kind == 'for') | {n}
    for y in g.yields():
        if _event_names(R, g, rd, y) & REG_EVENTS:
            # must be `yield x` for x in <gated housekeeping generator>
            ds = rd.defs_at(y, U(y.ast.value)) if isinstance(y.ast.value, ast.Name) else set()
            ok = bool(ds) and all(d.kind == 'for' and d.stmt in [n.stmt for (n, _, _, _) in its] for d in ds)
            R.ob('C07.gate', 'housekeeping events come from the gated closure', ok,
                 'Poll/Unresponsive yielded from %s' % [d.text() for d in ds], func=q, node=y.ast)
    for (n, ok, desc, calls) in its:
        R.ob('C07.gate', 'closure gated on _ready', ok, 'self._regular() not gated on self._ready alone (%s)' % desc,
             func=calls[0][0].ctx.func.qual if calls else q, node=(calls[0][2] if calls else None), construct='_ready gate')


def ready(R):
    # stream: Response first, once
    q = 'stream.WebsocketStream.feed'
    g = R.cfg(q)
    rd = ReachingDefs(g)
    resp, msgs = [], []
    for y in g.yields():
        tys = R.types.expr(y.ast.value, g.ctx)
        if 'inst:response.Response' in tys:
            resp.append(y)
        else:
            msgs.append(y)
    need(resp and msgs, 'WebsocketStream.feed: Response / message yields not found')
    F = 'self._parsed_response'
    for y in resp:
        lits = {(t, p) for (t, p, _) in guards_of(g, y)}
        R.ob('C07.ready', 'Response only while not yet parsed', (F, False) in lits, 'Response yielded under %s' % sorted(lits),
             func=q, node=y.ast)
    stores = [n for n in g.live_nodes() if n.kind == 'stmt' and isinstance(n.ast, ast.Assign) and U(n.ast.targets[0]) == F
              and U(n.ast.value) == 'True']
    for y in resp:
        ok = bool(stores) and all_paths_pass(g, normal_succs(y), stores, msgs + resp + [g.exit], skip_edge=nx)
        R.ob('C07.ready', 'Response marked as parsed before anything else is yielded', ok,
             'after the Response the stream can yield again without having set _parsed_response', func=q, node=y.ast)
    w = stores_in_package(R, '_parsed_response')
    quals = sorted(set((c.func.qual, U(v)) for (c, s, t, v) in w))
    R.ob('C07.ready', 'writers of _parsed_response', quals == [('stream.WebsocketStream.__init__', 'False'), (q, 'True')],
         '_parsed_response writers %s' % quals, func=q, node=None, construct='_parsed_response writers %s' % quals)
    tests = [t for t in g.live_nodes() if t.kind == 'test' and U(t.ast) == F]
    for y in msgs:
        bad = []
        # every path to a message either saw the flag set or passed the Response yield (+ store)
        reach = g.reachable([g.entry], avoid=set(resp) | set(stores), skip_edge=lambda a, b, l: l.startswith('exc:') or
                            (a in tests and l == 'true'))
        ok = y not in reach
        R.ob('C07.ready', 'messages only after the Response', ok,
             'a message can be yielded before the HTTP response has been delivered', func=q, node=y.ast)
    # websocket.feed
    q2 = WS + '.feed'
    g2 = R.cfg(q2)
    rd2 = ReachingDefs(g2)
    for y in g2.yields():
        names = {t[len('inst:events.'):] for t in R.types.expr(y.ast.value, g2.ctx) if isinstance(t, str) and t.startswith('inst:events.')}
        if not names:
            continue
        lits = {(t, p) for (t, p, _) in guards_of(g2, y)}
        is_resp = any(t.startswith('isinstance(message, Response') and p for (t, p) in lits)
        not_resp = any(t.startswith('isinstance(message, Response') and not p for (t, p) in lits)
        inhandler = any(fr.kind == 'handler' and 'errors.HandshakeError' not in R.exc.handler_tokens(fr.stmt, g2.ctx)
                        for fr in y.frames)
        if names & {'Ready', 'Rejected'}:
            R.ob('C07.ready', '%s only for the Response' % '/'.join(sorted(names)), is_resp,
                 '%s yielded outside the Response arm' % sorted(names), func=q2, node=y.ast)
        elif names & {'Text', 'Binary', 'Ping', 'Pong', 'Closing', 'Closed'}:
            R.ob('C07.ready', '%s only for a non-Response message' % '/'.join(sorted(names)), not_resp,
                 '%s yielded without excluding the Response object' % sorted(names), func=q2, node=y.ast)
    rej = [y for y in g2.yields() if 'inst:events.Rejected' in R.types.expr(y.ast.value, g2.ctx)]
    for y in rej:
        later = [n for n in g2.succ_reach(y, skip_edge=nx) if n.kind == 'yield']
        R.ob('C07.ready', 'nothing after Rejected', not later,
             'after Rejected the generator can still yield `%s`' % (later[0].text() if later else ''), func=q2, node=y.ast)
    # feed stops when closed: top-of-function test and after each message
    top = [r for r in g2.live_nodes() if r.kind == 'stmt' and isinstance(r.ast, ast.Return)
           and {('self.state.closed', True), ('self.is_closed', True)} & {(t, p) for (t, p, _) in guards_of(g2, r)}]
    R.ob('C07.ready', 'feed ignores data once closed', bool(top), 'feed() does not return immediately when closed', func=q2,
         node=None, construct='feed closed guard')


def eof(R):
    q = S + '.run'
    g = R.cfg(q)
    rd = ReachingDefs(g)
    rc = calls_to(R, g, S + '._recv')
    need(len(rc) == 1, 'run(): _recv call not found')
    rn = rc[0][0]
    dvar = U(rn.ast.targets[0])
    tests = [t for t in g.live_nodes() if t.kind == 'test' and U(t.ast) == dvar]
    need(len(tests) == 1, 'run(): data test not found')
    t = tests[0]
    heads = [h for h in g.live_nodes() if h.kind == 'loophead']
    back = g.reachable(succs(t, 'false'), skip_edge=nx)
    R.ob('C07.eof', 'empty read leaves the loop', not any(h in back for h in heads),
         'after an empty read (EOF) the loop can iterate again: it would spin on a closed transport', func=q, node=t.ast)
    # ... and whatever a read returned is fed to the protocol layer before the next wait: a result that sends the loop back
    # to the selector untouched ("nothing yet", None after a swallowed transport error) is a loop that spins on a dead socket
    fd = [n for (n, _) in calls_to(R, g, 'websocket.WebSocket.feed')]
    need(fd, 'run(): websocket.feed call not found')
    okf = all_paths_pass(g, normal_succs(rn), fd, heads, skip_edge=nx)
    R.ob('C07.eof', 'every read result is fed or ends the loop', okf,
         'after _recv() the loop can return to selector.wait() without feeding the result to the websocket and without leaving '
         'the loop: a read that reports nothing (an error swallowed in _recv) repeats for ever on a transport that has ended',
         func=q, node=rn.ast, construct='read result skipped')
    conds = [m for h in heads for m in normal_succs(h) if m.kind == 'test']
    ok = any(U(c.ast) in ('websocket.is_closed', 'self.websocket.is_closed') for c in conds)
    R.ob('C07.eof', 'loop re-tests is_closed', ok, 'loop condition %s' % [U(c.ast) for c in conds], func=q, node=None,
         construct='loop condition')
