"""C10 - Ready is granted only for a correct upgrade reply to a well-formed request."""
import ast

from ..program import AnalysisError, U, own_nodes, walk_no_nested
from ..dataflow import ReachingDefs, defs_of_node
from ..consteval import fold, module_consts
from .common import (deep_origin, cond_forms, otext, need, guards_of, calls_to, ext_calls, all_paths_pass, succs, normal_succs, path_conditions,
                     is_param, interval_of, arg_of, default_of, INF, stores_in_package, g_rd)

PROPERTY = 'C10'
LEVEL = 'other'
EXPLANATION = (
    'Must-pass-through analysis of WebSocket.on_response (status 101, Upgrade: websocket, Accept present, Accept == '
    'challenge, each with a HandshakeError on the failing side; escape set within HandshakeError), provenance of the '
    'challenge (b64(sha1(State.key + RFC GUID))) and of the key sent in the request (same storage, single per-State '
    'writer from os.urandom(16)), exactness of the Accept comparison (no case/content normalisation), the request '
    'header table, the 16 KiB bound enforced in both arms of the read-until loop, Ready construction only in the '
    'else-arm with unswapped protocol/extension results, and nothing yielded after Rejected.'
    ' Also decided: package-wide isolation (objects created once per class or per function definition - class-level attributes, parameter defaults - are only read), so that no buffer, validator, cache, lock or option table is shared between connections by accident.')
NOT_DECIDED = 'header-syntax corner cases as values; URL parsing by urlparse'
ASSUMPTIONS = ['hashlib.sha1 / base64.b64encode are correct', 'os.urandom is random']

WS = 'websocket.WebSocket'
GUID = b'258EAFA5-E914-47DA-95CA-C5AB0DC85B11'
nx = lambda a, b, l: l.startswith('exc:')
NORMALISERS = {'lower', 'upper', 'casefold', 'swapcase', 'title', 'capitalize', 'replace', 'translate', 'strip',
               'lstrip', 'rstrip'}


def check(run):
    R = run
    R.rule('C10.shared', 'objects created once per class / per function definition (class-level attributes, parameter '
           'defaults) are only read: no buffer, validator, poll object, header list or option dict is shared between '
           'connections', 1)
    from .common import shared_state
    shared_state(R, 'C10.shared')
    R.rule('C10.gate', 'every normal return of on_response passed the status/Upgrade/Accept-present/Accept-equal '
                       'tests; failures are HandshakeErrors; Ready only in the else-arm with on_response\'s results '
                       'unswapped; nothing is yielded after Rejected', 8)
    from .common import event_fields as _event_fields
    _event_fields(R, 'C10.gate', ['Ready', 'Rejected'])      # Ready / Rejected report what they were given
    R.rule('C10.challenge', 'challenge = b64encode(sha1(State.key + GUID).digest()); the request carries the same key', 3)
    R.rule('C10.exact', 'the Accept comparison applies no case- or content-normalising call to either side', 1)
    R.rule('C10.key', 'State.key has one writer, per instance, from b64encode(os.urandom(16)); WebSocket.key reads it', 3)
    R.rule('C10.request', 'request line, Host, Upgrade, Connection, Version 13, key, custom headers, optional '
                          'protocols/extensions under their option tests, CRLF CRLF terminator; sent once per run', 10)
    R.rule('C10.limit', '16 KiB bound on the header block, enforced in both arms of the read-until loop on the right '
                        'quantity', 5)
    R.rule('C10.headers', 'header names are lower-cased at insert and at lookup', 2)
    gate(R)
    from .common import message_templates
    message_templates(R, 'C10.gate')
    challenge(R)
    key(R)
    request(R)
    limit(R)
    from . import C02 as _C02
    with R.as_rule('C10.limit'):
        _C02.geometry(R)         # the parser's error texts carry no received bytes: they are used as message templates of
                                 # the ProtocolError that reports the oversized header
    headers(R)
    R.rule('C10.negotiated', 'Ready reports what the reply negotiated: extension tokens, option names and values are '
                             'compared without surrounding white space', 3)
    from . import C06
    C06.parse_ext(R, RID='C10.negotiated')


def _eq_lit(l):
    """yield (frozenset(side texts), equal?) for equality literals in a literal set"""
    for (t, p) in l:
        try:
            e = ast.parse(t, mode='eval').body
        except SyntaxError:
            continue
        if isinstance(e, ast.Compare) and len(e.ops) == 1 and isinstance(e.ops[0], (ast.Eq, ast.NotEq, ast.Is, ast.IsNot)):
            eq = isinstance(e.ops[0], (ast.Eq, ast.Is)) == p
            yield (e.left, e.comparators[0], eq, t)


def gate(R):
    q = WS + '.on_response'
    g = R.cfg(q)
    rd = ReachingDefs(g)
    f = R.func(q)
    resp = f.params[1]
    rets = [n for n in g.live_nodes() if n.kind == 'stmt' and isinstance(n.ast, ast.Return)]
    need(rets, 'on_response has no return')
    R._c10_cmp = None
    outer_methods = {}
    R._c10_outer = outer_methods
    def chase(x, at):
        methods = []
        for _ in range(6):
            methods += _methods(x)
            inner = _strip_methods(x)
            o = deep_origin(R, g, at, inner)
            if U(o) == U(inner):
                return inner, methods
            x = o
        return x, methods

    def flags_of(l):
            status = upgrade = present = equal = False
            for (tn, pol, forms) in l.groups:
                e = tn.ast
                neg = False
                while isinstance(e, ast.UnaryOp) and isinstance(e.op, ast.Not):
                    e = e.operand
                    neg = not neg
                if not (isinstance(e, ast.Compare) and len(e.ops) == 1 and isinstance(e.ops[0], (ast.Eq, ast.NotEq, ast.Is, ast.IsNot))):
                    continue
                eq = (isinstance(e.ops[0], (ast.Eq, ast.Is)) == pol) != neg
                sides = [e.left, e.comparators[0]]
                chased = [chase(x, tn) for x in sides]
                origins = [c[0] for c in chased]
                meths = [c[1] for c in chased]
                vals = [fold(R, o, g.ctx) for o in origins]
                txt = U(tn.ast)
                if eq and 101 in vals and any(U(o) == '%s.status_code' % resp for o in origins):
                    status = True
                if eq and 'websocket' in vals:
                    i = 1 - vals.index('websocket')
                    if _is_header_get(origins[i], resp, 'upgrade') and 'lower' in meths[i]:
                        upgrade = True
                if (not eq) and None in vals and any(_is_header_get(o, resp, 'sec-websocket-accept') for o in origins):
                    present = True
                if eq and any(_is_header_get(o, resp, 'sec-websocket-accept') for o in origins) \
                        and any(_is_challenge(R, g, o) for o in origins):
                    equal = True
                    R._c10_cmp = (sides, origins, txt)
                    outer_methods[txt] = meths[0] + meths[1]
            return status, upgrade, present, equal

    # the converse: a reply that passes all four tests is never refused by on_response itself
    for rn in g.live_nodes():
        if rn.kind == 'stmt' and isinstance(rn.ast, ast.Raise):
            bad = [sorted(x[0] for x in l if x[1])[:8] for l in path_conditions(R, g, rd, g.entry, rn) if all(flags_of(l))]
            R.ob('C10.gate', 'a correct upgrade reply is not refused', not bad,
                 'on_response raises `%s` on a path on which status, Upgrade and Sec-WebSocket-Accept have all been found '
                 'correct (%s): a correct reply yields Rejected instead of Ready' % (U(rn.ast.exc)[:60], bad[:1]), func=f,
                 node=rn.ast, construct='raise after the upgrade reply was accepted')
    for r in rets:
        for l in path_conditions(R, g, rd, g.entry, r):
            status, upgrade, present, equal = flags_of(l)
            for name, okk in (('status == 101', status), ('Upgrade == websocket (case-folded)', upgrade),
                              ('Accept present', present), ('Accept == challenge', equal)):
                R.ob('C10.gate', 'on_response returns only after: ' + name, okk,
                     'a path returns normally without the test `%s`: %s' % (name, sorted(x[0] for x in l if x[1])[:6]), func=f, node=r.ast,
                     construct='on_response return without ' + name)
        # return value: (protocol, extensions)
        v = r.ast.value
        okr = isinstance(v, ast.Tuple) and len(v.elts) == 2
        if okr:
            p0 = rd.origin(r, v.elts[0])[0]
            p1, p1n = rd.origin(r, v.elts[1])
            a0 = deep_origin(R, g, p1n, p1.args[0]) if isinstance(p1, ast.Call) and p1.args else None
            okr = _is_header_get(p0, resp, 'sec-websocket-protocol') and isinstance(p1, ast.Call) \
                and R.types.resolves_to(p1, g.ctx, WS + '.process_extensions') and a0 is not None \
                and isinstance(a0, ast.Call) and U(a0.func) == '%s.get_list' % resp \
                and fold(R, a0.args[0], g.ctx) == 'sec-websocket-extensions'
        R.ob('C10.gate', 'on_response returns (protocol header, enabled extensions)', okr,
             'on_response returns %s' % U(v), func=f, node=r.ast)
    esc = R.exc.escapes(g.ctx)
    bad = sorted(t for t in esc if 'errors.HandshakeError' not in R.exc.supers(t))
    R.ob('C10.gate', 'on_response fails only with HandshakeError', not bad,
         'on_response can raise %s: the reply would not be reported as Rejected' % bad, func=f, node=None,
         construct='on_response escapes %s' % bad)
    # feed(): Ready only in the else arm of the try around on_response, args unswapped
    q2 = WS + '.feed'
    g2 = R.cfg(q2)
    rd2 = ReachingDefs(g2)
    f2 = R.func(q2)
    oc = calls_to(R, g2, q)
    need(len(oc) == 1, 'feed(): expected one on_response call')
    on, ocall = oc[0]
    readys = [y for y in g2.yields() if isinstance(y.ast.value, ast.Call)
              and any(t.kind == 'ctor' and t.cls == 'events.Ready' for t in R.types.call_targets(y.ast.value, g2.ctx))]
    R.ob('C10.gate', 'single Ready construction site', len(readys) == 1, '%d Ready yields in feed()' % len(readys),
         func=f2, node=(readys[0].ast if readys else None), construct='Ready sites')
    for y in readys:
        ok = all_paths_pass(g2, [g2.entry], [on], [y], skip_edge=None) and \
            y in g2.reachable(normal_succs(on), skip_edge=nx) and \
            y not in g2.reachable([m for (m, l) in on.succ if l.startswith('exc:')], avoid={on})
        R.ob('C10.gate', 'Ready only after on_response returned normally', ok,
             'Ready is reachable without a normal return of on_response', func=f2, node=y.ast)
        ev = y.ast.value
        init = R.func('events.Ready.__init__')
        pa, ea, ra = arg_of(ev, init, 'protocol'), arg_of(ev, init, 'extensions'), arg_of(ev, init, 'response')
        okp = False
        if isinstance(on.ast, ast.Assign) and isinstance(on.ast.targets[0], ast.Tuple) and len(on.ast.targets[0].elts) == 2:
            t0, t1 = [U(e) for e in on.ast.targets[0].elts]
            okp = pa is not None and ea is not None and U(pa) == t0 and U(ea) == t1 \
                and rd2.defs_at(y, t0) == {on} and rd2.defs_at(y, t1) == {on}
        R.ob('C10.gate', 'Ready reports on_response\'s protocol and extensions, unswapped', okp,
             'Ready(%s)' % ', '.join(U(a) for a in ev.args), func=f2, node=ev)
        okr = ra is not None and ocall.args and U(rd2.origin(y, ra)[0]) == U(rd2.origin(on, ocall.args[0])[0])
        R.ob('C10.gate', 'Ready carries the response that was checked', bool(okr), 'Ready response arg %s' % U(ra),
             func=f2, node=ev)
    rej = [y for y in g2.yields() if isinstance(y.ast.value, ast.Call)
           and any(t.kind == 'ctor' and t.cls == 'events.Rejected' for t in R.types.call_targets(y.ast.value, g2.ctx))]
    R.ob('C10.gate', 'Rejected on HandshakeError', len(rej) == 1 and any(fr.kind == 'handler' and
         'errors.HandshakeError' in R.exc.handler_tokens(fr.stmt, g2.ctx) for fr in rej[0].frames),
         'Rejected yields: %d' % len(rej), func=f2, node=(rej[0].ast if rej else None), construct='Rejected site')
    for y in rej:
        after = g2.succ_reach(y, skip_edge=nx)
        later = [n for n in after if n.kind == 'yield']
        R.ob('C10.gate', 'nothing is yielded after Rejected', not later,
             'after Rejected the generator can still yield `%s` (message events without Ready)' % (
                 later[0].text() if later else ''), func=f2, node=y.ast)
        dis = [n for (n, c) in calls_to(R, g2, WS + '.on_disconnect')]
        okd = any(all_paths_pass(g2, [m for (m, l) in on.succ if l.startswith('exc:')], [d], [y]) for d in dis)
        R.ob('C10.gate', 'socket closed before Rejected is reported', okd,
             'on_disconnect() does not precede the Rejected event', func=f2, node=y.ast)
    # exactness
    if R._c10_cmp is not None:
        sides, origins, txt = R._c10_cmp
        norm = []
        for x in list(sides) + list(origins):
            for m in _methods(x):
                if m in NORMALISERS:
                    norm.append(m)
        for m in R._c10_outer.get(txt, []):
            if m in NORMALISERS:
                norm.append(m)
        R.ob('C10.exact', 'Accept compared exactly', not norm,
             'the Sec-WebSocket-Accept comparison `%s` normalises its operands with %s(): base64 is case-sensitive, '
             'so digests differing only in letter case are accepted' % (txt, '/'.join(sorted(set(norm)))), func=f,
             node=None, construct='accept comparison normalised with ' + '/'.join(sorted(set(norm))))
    else:
        R.ob('C10.exact', 'Accept compared exactly', False, 'no Accept == challenge comparison found', func=f, node=None,
             construct='accept comparison missing')


def _methods(e):
    out = []
    while isinstance(e, ast.Call) and isinstance(e.func, ast.Attribute):
        out.append(e.func.attr)
        e = e.func.value
    return out


def _has_method(e, m):
    return m in _methods(e)


def _strip_methods(e):
    while isinstance(e, ast.Call) and isinstance(e.func, ast.Attribute) and e.func.attr in (NORMALISERS | {'decode', 'encode'}):
        e = e.func.value
    return e


def _is_header_get(e, resp, name):
    e = _strip_methods(e)
    return isinstance(e, ast.Call) and U(e.func) == '%s.get' % resp and e.args \
        and isinstance(e.args[0], ast.Constant) and e.args[0].value == name


def _node_of(g, e):
    for n in g.live_nodes():
        for root in (n.exprs or ([n.ast] if n.ast is not None else [])):
            if root is not None and any(x is e for x in walk_no_nested(root)):
                return n
    return None


def _is_challenge(R, g, e):
    """b64encode(sha1(self.key + constants.WS_KEY).digest())"""
    if not (isinstance(e, ast.Call) and any(t.kind == 'ext' and t.name == 'base64.b64encode'
                                            for t in R.types.call_targets(e, g.ctx)) and e.args):
        return False
    d = e.args[0]
    at = _node_of(g, e)
    if isinstance(d, ast.Name) and at is not None:
        d, at = g_rd(g).origin(at, d)
    if not (isinstance(d, ast.Call) and isinstance(d.func, ast.Attribute) and d.func.attr == 'digest'):
        return False
    h = d.func.value
    if isinstance(h, ast.Name) and at is not None:
        h, at = g_rd(g).origin(at, h)
    if not (isinstance(h, ast.Call) and any(t.kind == 'ext' and t.name == 'hashlib.sha1'
                                            for t in R.types.call_targets(h, g.ctx)) and h.args):
        return False
    s = h.args[0]
    R._c10_hash_input = s
    return True


def challenge(R):
    q = WS + '.on_response'
    g = R.cfg(q)
    f = R.func(q)
    s = getattr(R, '_c10_hash_input', None)
    from .common import pfold
    ok = isinstance(s, ast.BinOp) and isinstance(s.op, ast.Add) and 'self.key' in (U(s.left), pfold(R, g.ctx, s.left)) \
        and fold(R, s.right, g.ctx) == GUID
    R.ob('C10.challenge', 'digest input is key + RFC 6455 GUID', ok, 'sha1 input is %s (GUID folds to %r)' % (
        U(s), fold(R, s.right, g.ctx) if isinstance(s, ast.BinOp) else None), func=f, node=s)
    # self.key -> property -> self.state.key
    kp = R.func(WS + '.key')
    body = [x for x in kp.node.body if not (isinstance(x, ast.Expr) and isinstance(x.value, ast.Constant))]
    okk = kp.is_property and len(body) == 1 and isinstance(body[0], ast.Return) and U(body[0].value) == 'self.state.key'
    R.ob('C10.key', 'WebSocket.key reads the per-connection State', okk,
         'WebSocket.key is not `return self.state.key` (key would survive reconnects / differ between request and '
         'challenge)', func=kp, node=kp.node, construct='WebSocket.key getter')
    # request uses self.key
    q2 = WS + '.build_request'
    hdrs = _header_pairs(R, q2)
    v = hdrs.get(b'Sec-WebSocket-Key')
    R.ob('C10.challenge', 'request carries the same key', v is not None and 'self.key' in (U(v), pfold(R, R.ctx(q2), v)),
         'Sec-WebSocket-Key value is %s' % U(v), func=q2, node=v, construct='request key %s' % U(v))
    R.ob('C10.challenge', 'GUID constant', module_consts(R, 'constants').get('WS_KEY') == GUID,
         'constants.WS_KEY = %r' % module_consts(R, 'constants').get('WS_KEY'), func=q, node=None, construct='WS_KEY')


def key(R):
    st = [(c, s, t, v) for (c, s, t, v) in stores_in_package(R, 'key')
          if any(x == 'inst:websocket.WebSocket.State' for x in R.types.expr(t.value, c))]
    quals = sorted(set(c.func.qual for (c, s, t, v) in st))
    R.ob('C10.key', 'single writer of State.key', quals == ['websocket.WebSocket.State.__init__'] and len(st) == 1,
         'State.key written in %s' % quals, func=(st[0][0].func if st else None), node=(st[0][1] if st else None),
         construct='State.key writers %s' % quals)
    if st:
        c, s, t, v = st[0]
        ok = isinstance(v, ast.Call) and any(tt.kind == 'ext' and tt.name == 'base64.b64encode'
                                             for tt in R.types.call_targets(v, c)) and v.args \
            and isinstance(v.args[0], ast.Call) and any(tt.kind == 'ext' and tt.name == 'os.urandom'
                                                        for tt in R.types.call_targets(v.args[0], c)) \
            and fold(R, v.args[0].args[0], c) == 16
        R.ob('C10.key', 'key = b64encode(os.urandom(16)) evaluated per State', ok, 'State.key = %s' % U(v), func=c.func, node=s)
    sc = R.prog.cls('websocket.WebSocket.State')
    R.ob('C10.key', 'no class-level key', 'key' not in sc.attrs, 'State.key bound at class level (one key per process)',
         func='websocket.WebSocket.State.__init__', node=None, construct='class-level State.key')


def _header_pairs(R, q):
    f = R.func(q)
    out = {}
    for n in own_nodes(f.node):
        if isinstance(n, ast.Tuple) and len(n.elts) == 2 and isinstance(n.elts[0], ast.Constant) \
                and isinstance(n.elts[0].value, bytes):
            out[n.elts[0].value] = n.elts[1]
    return out


def request(R):
    q = WS + '.build_request'
    f = R.func(q)
    g = R.cfg(q)
    rd = ReachingDefs(g)
    hd = _header_pairs(R, q)

    def val(name):
        return hd.get(name)
    R.ob('C10.request', 'Upgrade: websocket', val(b'Upgrade') is not None and fold(R, val(b'Upgrade'), g.ctx) == b'websocket',
         'Upgrade header %s' % U(val(b'Upgrade')), func=f, node=val(b'Upgrade'), construct='Upgrade header')
    R.ob('C10.request', 'Connection: Upgrade', val(b'Connection') is not None and
         (fold(R, val(b'Connection'), g.ctx) or b'').lower() == b'upgrade', 'Connection header %s' % U(val(b'Connection')),
         func=f, node=val(b'Connection'), construct='Connection header')
    h = val(b'Host')
    R.ob('C10.request', 'Host: host:port', h is not None and U(h).startswith('self._host_port.encode('),
         'Host header %s' % U(h), func=f, node=h, construct='Host header')
    init = R.func(WS + '.__init__')
    hp = [s for s in own_nodes(init.node) if isinstance(s, ast.Assign) and U(s.targets[0]) == 'self._host_port']
    okhp = len(hp) == 1 and isinstance(hp[0].value, ast.Call) and U(hp[0].value.func) in ("'{}:{}'.format",) \
        and [U(a) for a in hp[0].value.args] == ['self.host', 'self.port']
    R.ob('C10.request', '_host_port = "host:port"', okhp, '_host_port = %s' % (U(hp[0].value) if hp else None),
         func=init, node=(hp[0] if hp else None), construct='_host_port')
    ver = val(b'Sec-WebSocket-Version')
    okv = False
    if ver is not None:
        inner = ver.func.value if isinstance(ver, ast.Call) and isinstance(ver.func, ast.Attribute) and ver.func.attr == 'encode' else ver
        n_ = [n for n in g.live_nodes() if n.kind == 'stmt' and any(x is ver for x in walk_no_nested(n.ast))]
        o = rd.origin(n_[0], inner)[0] if n_ else inner
        okv = isinstance(o, ast.Call) and U(o.func) == "'{}'.format" and fold(R, o.args[0], g.ctx) == 13
        if not okv:
            okv = fold(R, o, g.ctx) in ('13', b'13')
    R.ob('C10.request', 'Sec-WebSocket-Version: 13', okv, 'version header %s' % U(ver), func=f, node=ver,
         construct='version header')
    # optional headers under their option tests
    for name, opt in ((b'Sec-WebSocket-Protocol', 'self.protocols'), (b'Sec-WebSocket-Extensions', 'self.compress')):
        v = val(name)
        ok = v is not None
        if ok:
            n_ = [n for n in g.live_nodes() if any(x is v for e in (n.exprs or [n.ast]) if e is not None for x in walk_no_nested(e))]
            lits = {(t, p) for (t, p, _) in guards_of(g, n_[0])} if n_ else set()
            ok = (opt, True) in lits
        R.ob('C10.request', '%s only when offered' % name.decode(), ok,
             '%s header is not controlled by `%s`' % (name.decode(), opt), func=f, node=v, construct='optional header ' + name.decode())
    ext = val(b'Sec-WebSocket-Extensions')
    R.ob('C10.request', 'offers permessage-deflate', ext is not None and b'permessage-deflate' in (fold(R, ext, g.ctx) or b''),
         'extension offer %s' % U(ext), func=f, node=ext, construct='extension offer')
    # request line and terminator
    req_defs = [n for n in g.live_nodes() if n.kind == 'stmt' and isinstance(n.ast, ast.Assign)
                and isinstance(n.ast.value, ast.List) and len(n.ast.value.elts) == 1]
    okl = False
    for n in req_defs:
        e = n.ast.value.elts[0]
        if isinstance(e, ast.Name):
            e = rd.origin(n, e)[0]            # request line kept in a local first
        inner = e.func.value if isinstance(e, ast.Call) and isinstance(e.func, ast.Attribute) and e.func.attr == 'encode' else None
        if isinstance(inner, ast.Call) and U(inner.func) == "'GET {} HTTP/1.1'.format" and U(inner.args[0]) == 'self.resource':
            okl = True
            reqvar = U(n.ast.targets[0])
    R.ob('C10.request', 'request line GET <resource> HTTP/1.1', okl, 'request line not found in its expected form',
         func=f, node=None, construct='request line')
    rets = [n for n in g.live_nodes() if n.kind == 'stmt' and isinstance(n.ast, ast.Return)]
    okt = False
    for r in rets:
        o, on = rd.origin(r, r.ast.value)
        if isinstance(o, ast.Call) and U(o.func) == "b'\\r\\n'.join" and okl and U(o.args[0]) == reqvar:
            apps = [n for n in g.live_nodes() for c in n.calls if U(c.func) == reqvar + '.append']
            last = [n for n in apps if on in g.succ_reach(n, skip_edge=nx) and not any(
                a2 in g.succ_reach(n, skip_edge=nx) for a2 in apps if a2 is not n)]
            okt = bool(last) and any(fold(R, c.args[0], g.ctx) == b'\r\n' for c in last[0].calls if U(c.func) == reqvar + '.append')
    R.ob('C10.request', 'CRLF CRLF terminator', okt, 'the request does not provably end with an empty line', func=f,
         node=None, construct='request terminator')
    # custom headers included
    okc = any(isinstance(n.ast, ast.Assign) and U(n.ast.value) in ('self._headers[:]', 'list(self._headers)', 'self._headers.copy()')
              for n in g.live_nodes() if n.kind == 'stmt')
    R.ob('C10.request', 'custom headers included (copied, so the request headers are not appended to the persistent list)',
         okc, 'self._headers is not copied into the request: the standard headers (and the key) of every attempt '
         'accumulate and are re-sent on the next attempt', func=f, node=None, construct='custom headers')
    # sent once per run
    gr = R.cfg('session.WebsocketSession.run')
    sr = calls_to(R, gr, 'session.WebsocketSession._send_request')
    oks = len(sr) == 1 and not any(fr.kind == 'loop' for fr in sr[0][0].frames)
    R.ob('C10.request', 'request sent once per connection', oks, '%d _send_request call sites in run()' % len(sr),
         func='session.WebsocketSession.run', node=(sr[0][1] if sr else None), construct='_send_request sites')
    gs = R.cfg('session.WebsocketSession._send_request')
    w = calls_to(R, gs, 'session.WebsocketSession.write')
    okw = len(w) == 1 and w[0][1].args and isinstance(w[0][1].args[0], ast.Call) and \
        R.types.resolves_to(w[0][1].args[0], gs.ctx, q)
    R.ob('C10.request', '_send_request writes build_request()', okw, '_send_request body', func='session.WebsocketSession._send_request',
         node=None, construct='_send_request')
    # URL pieces: resource = (path or '/') [+ '?' + query]
    gi = R.cfg(WS + '.__init__')
    rdi = ReachingDefs(gi)
    rs = [n for n in gi.live_nodes() if n.kind == 'stmt' and isinstance(n.ast, ast.Assign) and U(n.ast.targets[0]) == 'self.resource']
    base = [n for n in rs if U(n.ast.value) in ("_url.path or '/'",)]
    withq = [n for n in rs if n not in base]
    okq = len(base) == 1 and len(withq) <= 1
    for n in withq:
        v = n.ast.value
        okq = okq and isinstance(v, ast.Call) and U(v.func) == "'{}?{}'.format" and len(v.args) == 2 \
            and U(v.args[0]) == 'self.resource' and U(v.args[1]) == '_url.query' \
            and ('_url.query', True) in {(t, p) for (t, p, _) in guards_of(gi, n)} \
            and all_paths_pass(gi, [gi.entry], base, [n], skip_edge=nx)
    R.ob('C10.request', 'resource = (path or "/") plus the optional query', okq,
         'self.resource is built as %s' % [U(n.ast.value) for n in rs], func=init, node=(withq[0].ast if withq else None),
         construct='resource construction')
    target_port(R, 'C10.request')


def target_port(R, RID):
    """self.port: the URL's explicit port whenever it has one, else 443 for wss and 80 for ws - decided by cases, whatever the
    spelling (nested conditional expressions, `or`, if statements)."""
    from .common import value_cases
    init = R.func(WS + '.__init__')
    gi = R.cfg(WS + '.__init__')
    port = [n for n in gi.live_nodes() if n.kind == 'stmt' and isinstance(n.ast, ast.Assign) and any(
        U(t) == 'self.port' for t in n.ast.targets)]
    need(port, 'WebSocket.__init__: self.port is not assigned')
    seen = set()
    okp = True
    detail = []
    for pn in port:
        gl = {(t, p) for (t, p, _) in guards_of(gi, pn)}
        for (conds, val, site) in value_cases(R, gi, pn, pn.ast.value):
            c = set(conds) | gl
            v = fold(R, val, gi.ctx)
            has = ('_url.port', True) in c or ('_url.port is None', False) in c or ('_url.port is not None', True) in c
            hasnt = ('_url.port', False) in c or ('_url.port is None', True) in c or ('_url.port is not None', False) in c
            wss = any(("'wss'" in t and '==' in t and p) or ("'ws'" in t and "'wss'" not in t and '==' in t and not p)
                      or (t.endswith('is_secure') and p) for (t, p) in c)
            ws = any(("'wss'" in t and '==' in t and not p) or ("'ws'" in t and "'wss'" not in t and '==' in t and p)
                     or (t.endswith('is_secure') and not p) for (t, p) in c)
            detail.append((sorted(c)[:4], U(val)))
            if U(val) in ('_url.port', 'int(_url.port)') and has:
                seen.add('explicit')
            elif v == 443 and hasnt and wss and not ws:
                seen.add('wss')
            elif v == 80 and hasnt and ws and not wss:
                seen.add('ws')
            else:
                okp = False
    R.ob(RID, 'port: the explicit one, else 443 (wss) / 80 (ws)', okp and seen == {'explicit', 'wss', 'ws'},
         'self.port by cases: %s - an explicit port must win for both schemes' % detail[:4], func=init, node=port[0].ast,
         construct='target port')


def limit(R, RID='C10.limit', recv='frame_parser.ClientFrameParser'):
    # the header read in the frame parser
    q = R.prog.find_method(recv, 'parse').qual
    g = R.cfg(q, recv)
    ru = [(n, c) for n in g.live_nodes() for c in n.calls
          if any(t.kind == 'ctor' and t.cls == 'parser._ReadUntil' for t in R.types.call_targets(c, g.ctx))]
    need(len(ru) >= 1, '%s: expected one read_until' % q)
    # the bound is on the header block as a whole: a block read in several bounded pieces (line by line, in a loop) has no
    # bound at all - 40 lines of 500 bytes pass a 16 KiB per-line limit
    inloop = [(n, c_) for (n, c_) in ru if any(fr.kind == 'loop' for fr in n.frames) and
              not any(o is not n and g.dominates(n, o) for (o, _) in ru)]
    if len(ru) > 1:
        need(inloop, '%s: expected one read_until' % q)          # (several reads outside a loop: not analysed)
        R.ob(RID, 'the header block is read with one bounded read', False,
             '%s reads the header block in %d read_until pieces (%s): each piece is bounded, the block as a whole is not - an '
             'oversized answer made of many moderate lines is accepted' % (q, len(ru), ', '.join(U(c_)[:40] for (_, c_) in ru[:3])),
             func=q, node=ru[0][1], construct='header block read in pieces')
        return
    c = ru[0][1]
    init = R.func('parser._ReadUntil.__init__')
    mb = arg_of(c, init, 'max_bytes')
    sep = arg_of(c, init, 'sep')
    R.ob(RID, 'header read bounded by 16 KiB', mb is not None and fold(R, mb, g.ctx) == 16 * 1024
         and fold(R, sep, g.ctx) == b'\r\n\r\n', 'read_until(%s, max_bytes=%s)' % (U(sep), U(mb)), func=q, node=c)
    # check_length semantics
    q2 = 'parser._ReadUntil.check_length'
    g2 = R.cfg(q2)
    rd2 = ReachingDefs(g2)
    pos = R.func(q2).params[1]
    ok = False
    for rn in [n for n in g2.live_nodes() if n.kind == 'stmt' and isinstance(n.ast, ast.Raise)]:
        for l in path_conditions(R, g2, rd2, g2.entry, rn):
            if ('self.max_bytes is not None', True) in l and ('%s > self.max_bytes' % pos, True) in l:
                ok = True
    bad = [sorted(l) for l in path_conditions(R, g2, rd2, g2.entry, g2.exit)
           if ('%s > self.max_bytes' % pos, False) not in l and ('self.max_bytes is not None', False) not in l]
    R.ob(RID, 'check_length raises iff pos > max_bytes', ok and not bad, 'check_length paths: %s' % bad[:1], func=q2,
         node=None, construct='check_length')
    # Parser.feed: both sub-arms of the read-until arm
    q3 = 'parser.Parser.feed'
    g3 = R.cfg(q3, recv)
    rd3 = ReachingDefs(g3)
    f3 = R.func(q3)
    finds = [(n, c_) for n in g3.live_nodes() for c_ in n.calls if isinstance(c_.func, ast.Attribute) and c_.func.attr == 'find']
    need(len(finds) == 1, 'Parser.feed: separator search not found')
    fn, fc = finds[0]
    idx = U(fn.ast.targets[0]) if isinstance(fn.ast, ast.Assign) else None
    need(idx is not None, 'Parser.feed: separator index not assigned')
    sends = [(n, c_) for n in g3.live_nodes() for c_ in n.calls
             if isinstance(c_.func, ast.Attribute) and c_.func.attr == 'send' and n in g3.succ_reach(fn, skip_edge=nx)
             and fn in g3.reachable([g3.entry], avoid=set())]
    from .common import header_end_checker, length_check_calls, found_polarity
    lcc = length_check_calls(R, g3)
    checks = [(n, c_) for (n, c_, t_) in lcc]
    helpers = [t_ for (n, c_, t_) in lcc if t_ is not None]
    tests = [(t, found_polarity(R, g3, t, idx)) for t in g3.live_nodes() if t.kind == 'test']
    tests = [(t, lab) for (t, lab) in tests if lab is not None and idx in U(t.ast)]
    need(len(tests) == 1, 'Parser.feed: test of the separator search result not found')
    t, nflab = tests[0]
    nf = succs(t, nflab)
    fo = succs(t, 'false' if nflab == 'true' else 'true')
    is_hdr_end = header_end_checker(R, g3, fn, idx)
    heads = [n for n in g3.live_nodes() if n.kind == 'loophead']
    cn = [n for (n, _) in checks]
    ok_nf = all_paths_pass(g3, nf, cn, heads + [g3.exit], skip_edge=nx)
    R.ob(RID, 'bound checked when the terminator is not yet seen', ok_nf and bool(cn),
         'an unterminated header block can grow without the 16 KiB check', func=f3, node=t.ast,
         construct='length check, separator-not-found arm')
    sn = [n for (n, c_) in sends if n in g3.reachable(fo, skip_edge=nx)]
    ok_fo = bool(sn) and all_paths_pass(g3, fo, cn, sn, skip_edge=nx)
    R.ob(RID, 'bound checked when the terminator is found', ok_fo and bool(cn),
         'a terminated header block larger than 16 KiB is accepted when its terminator arrives in the same read',
         func=f3, node=t.ast, construct='length check, separator-found arm')
    # right quantity: found arm checks the header end position (derived from the find result), not the buffer size
    for (n, c_) in checks:
        a = c_.args[0]
        if n in g3.reachable(fo, skip_edge=nx) and n not in g3.reachable(nf, avoid={t}, skip_edge=nx):
            R.ob(RID, 'found arm checks the header length', is_hdr_end(n, a),
                 'with the terminator found the check is applied to %s (frame bytes after the header in the same read '
                 'would count against the header limit)' % U(a), func=f3, node=c_)
        elif n in g3.reachable(nf, skip_edge=nx):
            R.ob(RID, 'not-found arm checks the accumulated length', (U(a) in ('len(_buffer)', 'len(self._buffer)') or otext(R, g3, n, a) in ('len(_buffer)', 'len(self._buffer)')),
                 'without terminator the check is applied to %s' % U(a), func=f3, node=c_)
        else:
            R.ob(RID, 'length check placement', n in g3.succ_reach(fn, skip_edge=nx) and
                 g3.dominates(fn, n), 'the length check runs before the separator search on %s: bytes that follow a '
                 'complete header in the same read are counted against the header limit' % U(a), func=f3, node=c_)
    # closure: ParseError from check_length is thrown into the coroutine
    if helpers:
        q4 = helpers[0].func.qual
        g4 = R.cfg(q4, helpers[0].recv)
    else:
        q4, g4 = q3, g3
    thr = [(n, c_) for n in g4.live_nodes() for c_ in n.calls if isinstance(c_.func, ast.Attribute) and c_.func.attr == 'throw'
           and any(fr.kind == 'handler' for fr in n.frames)]
    okt = len(thr) >= 1
    esc = R.exc.escapes(g4.ctx)
    R.ob(RID, 'length failure reaches the caller as ParseError', okt and 'parser.ParseError' in esc,
         'length-check escapes: %s' % sorted(esc), func=q4, node=None, construct='_check_length throw')


def headers(R):
    q = 'response.Response.__init__'
    f = R.func(q)
    low = False
    for s in own_nodes(f.node):
        if isinstance(s, ast.Assign) and isinstance(s.value, ast.Call) and 'lower' in _methods(s.value) \
                and any(U(t) == 'header' for t in s.targets):
            low = True
    R.ob('C10.headers', 'names lower-cased at insert', low, 'header names are not lower-cased when stored', func=f, node=None,
         construct='Response header insert')
    # header bytes are never silently dropped when decoding (a corrupted digest must not compare equal)
    bad = []
    for c in own_nodes(f.node):
        if isinstance(c, ast.Call) and isinstance(c.func, ast.Attribute) and c.func.attr == 'decode':
            errs = [k.value for k in c.keywords if k.arg == 'errors'] + list(c.args[1:2])
            for e in errs:
                if isinstance(e, ast.Constant) and e.value == 'ignore':
                    bad.append(c)
    R.ob('C10.headers', 'undecodable header bytes are not dropped', not bad,
         'Response decodes header bytes with errors="ignore": bytes >= 0x80 inserted into a header value vanish, so a '
         'wrong Sec-WebSocket-Accept can compare equal', func=f, node=(bad[0] if bad else None), construct='header decode errors=ignore')
    # the status line is the first CRLF line of the header block exactly as received: transforming the block before it is
    # split into lines (unfolding continuation lines with a regular expression ...) can glue other text onto the status
    # line, e.g. a status code that only appears on a continuation line
    gi = R.cfg(q)
    rdi = ReachingDefs(gi)
    hp = [p_ for p_ in f.params if p_ != 'self'][0]
    splits = [(n, c) for n in gi.live_nodes() for c in n.calls if isinstance(c.func, ast.Attribute) and c.func.attr == 'split'
              and c.args and isinstance(c.args[0], ast.Constant) and c.args[0].value == b'\r\n']
    # ... and a header line ends at CRLF only: splitlines() / split(b'\n') also cut at a bare LF or CR, so text inside another
    # header's value counts as a header of its own
    loose = []
    for n_ in gi.live_nodes():
        for c_ in n_.calls:
            if not isinstance(c_.func, ast.Attribute) or c_.func.attr not in ('splitlines', 'split'):
                continue
            if c_.func.attr == 'split' and not (c_.args and isinstance(c_.args[0], ast.Constant)
                                                and c_.args[0].value in (b'\n', b'\r', '\n', '\r')):
                continue
            r_ = c_.func.value
            o_, on_ = rdi.origin(n_, r_) if isinstance(r_, ast.Name) else (r_, n_)
            while isinstance(o_, ast.Call) and isinstance(o_.func, (ast.Name, ast.Attribute)) and (
                    (isinstance(o_.func, ast.Name) and o_.func.id in ('bytes', 'bytearray') and len(o_.args) == 1)
                    or (isinstance(o_.func, ast.Attribute) and o_.func.attr in ('decode', 'strip', 'rstrip'))):
                o_ = o_.args[0] if isinstance(o_.func, ast.Name) else o_.func.value
                if isinstance(o_, ast.Name):
                    o_, on_ = rdi.origin(on_, o_)
            if isinstance(o_, ast.Name) and o_.id == hp:
                loose.append(c_)
    R.ob('C10.headers', 'header lines end at CRLF only', not loose,
         'the header block is cut into lines with %s, which also breaks at a bare LF / CR: text inside another header\'s value '
         '(X-Note: a\\nSec-WebSocket-Accept: ...) is taken for a header line and a reply without a real Accept header is '
         'granted Ready' % [U(c_) for c_ in loose][:1], func=f, node=(loose[0] if loose else None),
         construct='header block line split')
    need(len(splits) >= 1, 'Response.__init__: split of the header block into lines not found')
    # a continuation line starts with SP or HTAB (RFC 7230 obs-fold): both are recognised, so that parameters folded with a
    # tab are not dropped from the value
    folds = []
    for t_ in gi.live_nodes():
        if t_.kind != 'test':
            continue
        e_ = t_.ast
        chars = None
        if isinstance(e_, ast.Call) and isinstance(e_.func, ast.Attribute) and e_.func.attr == 'startswith' and e_.args:
            v_ = fold(R, e_.args[0], gi.ctx)
            if isinstance(v_, (tuple, list, set, frozenset)):
                chars = set(v_)
            elif isinstance(v_, str):
                chars = {v_}
        elif isinstance(e_, ast.Compare) and len(e_.ops) == 1 and isinstance(e_.left, ast.Subscript) \
                and isinstance(e_.left.slice, ast.Constant) and e_.left.slice.value == 0:
            v_ = fold(R, e_.comparators[0], gi.ctx)
            if isinstance(e_.ops[0], ast.In) and isinstance(v_, (str, tuple, list, set, frozenset)):
                chars = set(v_)
            elif isinstance(e_.ops[0], ast.Eq) and isinstance(v_, str):
                chars = {v_}
        if chars is not None and (' ' in chars or '\t' in chars):
            folds.append((t_, chars))
    R.ob('C10.headers', 'folded header lines start with SP or HTAB', bool(folds) and all(
        {' ', '\t'} <= c_ for (_, c_) in folds),
         'continuation lines are recognised by %s only: a header folded with the other white-space character loses its '
         'continuation (negotiated extension parameters on a tab-folded line are dropped)' % [sorted(c_) for (_, c_) in folds],
         func=f, node=(folds[0][0].ast if folds else None), construct='header folding test')
    for (n, c) in splits:
        recv_ = c.func.value
        o, on = rdi.origin(n, recv_) if isinstance(recv_, ast.Name) else (recv_, n)
        while isinstance(o, ast.Call) and isinstance(o.func, ast.Name) and o.func.id in ('bytes', 'bytearray') and len(o.args) == 1:
            o = o.args[0]
        okr = isinstance(o, ast.Name) and o.id == hp and is_param(rdi, on, o)
        R.ob('C10.headers', 'lines are cut from the header block as received', okr,
             'the header block is transformed (%s) before it is split into lines: text from a continuation line can end up '
             'on the status line (a reply whose status line has no 101 is accepted)' % U(c.func.value), func=f, node=c,
             construct='header block transformed before line split')
    # a folded value is trimmed as a whole: pieces are joined (with the single blank that folding inserts) and only
    # then stripped - trimming pieces alone leaves that blank in front when the first piece is empty
    vals = []
    for s_ in own_nodes(f.node):
        if isinstance(s_, ast.Assign) and any(U(t) == 'self.headers' for t in s_.targets):
            v = s_.value
            if isinstance(v, ast.DictComp):
                vals.append(v.value)
            elif isinstance(v, ast.Call) and v.args and isinstance(v.args[0], (ast.GeneratorExp, ast.ListComp)) \
                    and isinstance(v.args[0].elt, ast.Tuple) and len(v.args[0].elt.elts) == 2:
                vals.append(v.args[0].elt.elts[1])
            elif isinstance(v, ast.Name):
                # a dict filled item by item
                items = [s2.value for s2 in own_nodes(f.node) if isinstance(s2, ast.Assign) and any(
                    isinstance(t, ast.Subscript) and isinstance(t.value, ast.Name) and t.value.id == v.id for t in s2.targets)]
                need(items, 'Response.__init__: cannot see how %s is filled' % v.id)
                vals.extend(items)
            else:
                vals.append(v)
    need(vals, 'Response.__init__: self.headers assignment not found')
    for v in vals:
        ms = _methods(v)
        R.ob('C10.headers', 'header value trimmed after joining its pieces', bool(ms) and ms[0] == 'strip' and 'join' in ms,
             'the stored header value `%s` is not the whole joined value stripped: a value that starts on a continuation '
             'line keeps the blank inserted by unfolding (" websocket", " <digest>") and a correct reply is rejected' % U(v),
             func=f, node=v, construct='header value trimming')
    q2 = 'response.Response.get'
    f2 = R.func(q2)
    rets = [s for s in own_nodes(f2.node) if isinstance(s, ast.Return)]
    ok = len(rets) == 1 and isinstance(rets[0].value, ast.Call) and U(rets[0].value.func) == 'self.headers.get' \
        and 'lower' in _methods(rets[0].value.args[0])
    R.ob('C10.headers', 'names lower-cased at lookup', ok, 'Response.get returns %s' % (U(rets[0].value) if rets else None),
         func=f2, node=(rets[0] if rets else None))
