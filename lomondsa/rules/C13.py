"""C13 - abandoning the event loop at any event releases the socket (and the selector)."""
import ast

from ..program import AnalysisError, U, own_nodes, walk_no_nested
from ..dataflow import ReachingDefs, defs_of_node
from .common import (match_exact, guard_atom_sets, path_atom_sets, unmatched, need, guards_of, calls_to, ext_calls, all_paths_pass, succs, normal_succs, path_conditions,
                     is_param, arg_of, stores_in_package, cond_forms)
from .C04 import _paths_avoiding

PROPERTY = 'C13'
LEVEL = 'other'
EXPLANATION = (
    'Break, handler exception, gen.close() and leaving a with-block all reduce to GeneratorExit raised at the yield '
    'where run() is suspended. The CFG of run() is built with a GeneratorExit edge at every yield; for every yield at '
    'which the published socket may still be open, every path of that edge out of the generator must pass '
    '_close_socket() (outer frame), or - for yields made while WebSocket.feed is suspended - every suspension point of '
    'feed/_on_close must reach on_disconnect()/session.close() on its own GeneratorExit path (inner frame). Likewise '
    'every yield at which the selector exists must reach selector.close(). __exit__ closes the session whenever one '
    'exists, and _close_socket closes the descriptor on every path on which a socket is present.')
NOT_DECIDED = 'promptness of generator finalisation on non-refcounting interpreters'
ASSUMPTIONS = ['CPython finalises an abandoned generator promptly (refcounting), raising GeneratorExit at its yield']

S = 'session.WebsocketSession'
WS = 'websocket.WebSocket'
nx = lambda a, b, l: l.startswith('exc:')


def check(run):
    R = run
    R.rule('C13.shared', 'objects created once per class / per function definition (class-level attributes, parameter '
           'defaults) are only read: no buffer, validator, poll object, header list or option dict is shared between '
           'connections', 1)
    from .common import shared_state
    shared_state(R, 'C13.shared')
    R.rule('C13.yields', 'every yield of run() at which the socket may be open: its GeneratorExit path closes the '
                         'socket before the generator frame is left (outer frame, or every paired feed suspension)', 4)
    R.rule('C13.selector', 'every yield at which the selector exists: its GeneratorExit path closes the selector', 4)
    R.rule('C13.exit', '__exit__ closes the session whenever one exists; session.close -> _close_socket', 3)
    R.rule('C13.closes', '_close_socket closes the descriptor on every path on which a socket is present, and takes the '
                         'write lock only by `with`', 3)
    R.rule('C13.owned', 'the socket stays reachable for cleanup: self._sock is nulled only after close; a socket is '
                        'closed on every exceptional exit of the function holding it before publication', 6)
    from . import C09
    with R.as_rule('C13.owned'):
        C09.socknull(R)
        C09.release(R)
    yields(R)
    selector(R)
    selector_owned(R)
    from . import C17 as _C17
    with R.as_rule('C13.owned'):
        _C17.session(R)          # one session (one _sock slot) per connect(): an older iterator cannot close / hide a newer socket
    exit_(R)
    closes(R)


def _gx_targets(y):
    return [m for (m, l) in y.succ if l == 'exc:GeneratorExit']


def yields(R):
    q = S + '.run'
    g = R.cfg(q, genexit=True)
    rd = ReachingDefs(g)
    from .common import sock_publications
    pub = sock_publications(g)
    need(len(pub) == 1, 'run(): publication of the socket not found')
    cs = [n for (n, c_) in calls_to(R, g, S + '._close_socket') if U(c_.func) == 'self._close_socket']
    # (cleanup routed through websocket.on_disconnect() / websocket.session acts on the WebSocket's *current* session,
    #  which is another one after a reconnect - only calls on self count)
    # yields at which the socket may be open: reachable from publication avoiding _close_socket calls
    open_region = g.reachable(normal_succs(pub[0]), avoid=set(cs))
    ys = [y for y in g.yields() if y in open_region]
    need(len(ys) >= 4, 'run(): fewer than 4 yields with the socket possibly open (%d)' % len(ys))
    feed_loops = [n for n in g.live_nodes() if n.kind == 'for' and isinstance(rd.origin(n, n.ast.iter)[0], ast.Call)
                  and R.types.resolves_to(rd.origin(n, n.ast.iter)[0], g.ctx, WS + '.feed')]
    inner_ok = None
    pairs = 0
    for y in ys:
        tg = _gx_targets(y)
        outer = bool(tg) and all_paths_pass(g, tg, cs, [g.raise_exit, g.exit])
        detail = 'outer frame closes'
        ok = outer
        if not outer:
            infeed = any(fr.kind == 'loop' and any(fr.stmt is fl.ast for fl in feed_loops) for fr in y.frames)
            if infeed:
                if inner_ok is None:
                    inner_ok = _feed_suspensions(R)
                bad = [s for (s, good) in inner_ok if not good]
                pairs += len(inner_ok)
                ok = not bad
                detail = 'relies on WebSocket.feed; unprotected suspension points: %s' % bad[:3]
            else:
                detail = 'no _close_socket() on the GeneratorExit path and no inner generator to finalise'
        R.ob('C13.yields', 'abandon at `%s`' % y.text()[:48], ok,
             'closing the generator while it is suspended at this yield leaves the TCP socket open (%s)' % detail,
             func=q, node=y.ast)
    R.extra['c13'] = {'run_yields_with_open_socket': len(ys), 'feed_suspension_pairs_checked': pairs}
    # on the way from a GeneratorExit handler to _close_socket() nothing is evaluated that can fail (the exception model has
    # no TypeError for arithmetic on fields that are still None before Ready): only logging of plain names / attributes
    nh = 0
    for h in g.live_nodes():
        if h.kind != 'handler' or 'GeneratorExit' not in U(h.ast.type if h.ast.type is not None else ast.Name(id='', ctx=ast.Load())):
            continue
        nh += 1
        region = g.reachable(normal_succs(h), avoid=set(cs), skip_edge=lambda a, b, l: l.startswith('exc:'))
        risky = []
        for m in region:
            if m in cs or m.kind not in ('stmt', 'test'):
                continue
            plain = isinstance(m.ast, ast.Expr) and isinstance(m.ast.value, ast.Call) and U(m.ast.value.func).startswith('log.') \
                and all(isinstance(a_, (ast.Constant, ast.Name, ast.Attribute)) for a_ in m.ast.value.args) \
                and not m.ast.value.keywords
            if isinstance(m.ast, (ast.Raise, ast.Pass)) or plain:
                continue
            risky.append(m.text()[:70])
        R.ob('C13.yields', 'nothing that can fail runs before _close_socket() in the GeneratorExit handler', not risky,
             'the GeneratorExit handler evaluates %s before closing the socket: if that raises (a timer field is None before '
             'Ready ...) the socket is never closed' % risky[:2], func=q, node=h.ast,
             construct='GeneratorExit handler prologue')
    need(nh >= 2, 'run(): GeneratorExit handlers not found')


def _feed_suspensions(R):
    """[(description, protected?)] for every yield of WebSocket.feed (incl. _on_close via the delegating yield)."""
    out = []
    q = WS + '.feed'
    g = R.cfg(q, genexit=True)
    closers = [n for (n, _) in calls_to(R, g, [WS + '.on_disconnect', S + '.close', S + '._close_socket'])]
    for y in g.yields():
        tg = _gx_targets(y)
        ok = bool(tg) and all_paths_pass(g, tg, closers, [g.raise_exit, g.exit])
        out.append(('feed: ' + y.text()[:50], ok))
    return out


def selector(R):
    q = S + '.run'
    g = R.cfg(q, genexit=True)
    mk = [n for n in g.live_nodes() if n.kind == 'stmt' and isinstance(n.ast, ast.Assign) and isinstance(n.ast.value, ast.Call)
          and U(n.ast.value.func) == 'self._selector_cls']
    need(len(mk) == 1, 'run(): selector construction not found')
    sv = U(mk[0].ast.targets[0])
    cl = [n for n in g.live_nodes() for c in n.calls if U(c.func) == sv + '.close']
    after = g.succ_reach(mk[0])
    ys = [y for y in g.yields() if y in after]
    need(len(ys) >= 4, 'run(): fewer than 4 yields after the selector was created')
    for y in ys:
        tg = _gx_targets(y)
        ok = bool(tg) and all_paths_pass(g, tg, cl, [g.raise_exit, g.exit])
        R.ob('C13.selector', 'selector closed when abandoned at `%s`' % y.text()[:40], ok,
             'closing the generator at this yield leaves the selector (kernel object) open', func=q, node=y.ast)
    # and on every other way out
    ok = all_paths_pass(g, normal_succs(mk[0]), cl, [g.exit, g.raise_exit])
    R.ob('C13.selector', 'selector closed on every exit of run()', ok, 'a path leaves run() without selector.close()', func=q,
         node=mk[0].ast)


def _releases(R, fq, recv, attr, depth=2):
    """CFG nodes of method fq (receiver class recv) that close the kernel object held in self.<attr> whenever they run:
    a direct self.<attr>.close() call, or a call of a method of the same object every path of which does."""
    g = R.cfg(fq, recv)
    out = []
    for n in g.live_nodes():
        for c in n.calls:
            if isinstance(c.func, ast.Attribute) and c.func.attr == 'close' and U(c.func.value) == 'self.' + attr:
                out.append(n)
            elif depth > 0 and isinstance(c.func, ast.Attribute) and U(c.func.value) == 'self':
                for t in R.types.call_targets(c, g.ctx):
                    if t.kind == 'func' and t.func.cls is not None and not t.func.is_generator:
                        g2, inner = _releases(R, t.func.qual, recv, attr, depth - 1)
                        if inner and all_paths_pass(g2, [g2.entry], inner, [g2.exit]):
                            out.append(n)
    return g, out


def selector_owned(R, RID='C13.selector'):
    """What selector.close() does: a selector class that creates a kernel object in __init__ (select.kqueue() ...) closes
    it in close() on every path - at most behind an idempotence flag that only close() itself sets, not behind the
    state of the socket (which run() closes first)."""
    from .common import path_conditions
    n_owned = 0
    for cq in sorted(R.prog.subclasses('selectors.SelectorBase')):
        init = R.prog.find_method(cq, '__init__')
        if init is None:
            continue
        owned = []
        for x in own_nodes(init.node):
            if isinstance(x, ast.Assign) and isinstance(x.value, ast.Call) and U(x.value.func) in ('select.kqueue', 'select.epoll',
                                                                                                   'select.devpoll'):
                for t in x.targets:
                    if isinstance(t, ast.Attribute) and U(t.value) == 'self':
                        owned.append(t.attr)
        for attr in owned:
            n_owned += 1
            cm = R.prog.find_method(cq, 'close')
            need(cm is not None, '%s has no close()' % cq)
            g, rel = _releases(R, cm.qual, cq, attr)
            rd = ReachingDefs(g)
            bad = []
            if not rel:
                bad.append('no path closes self.%s' % attr)
            else:
                # the flags that may excuse a path: fields written with constants only, set true in close() only
                for l in path_conditions(R, g, rd, g.entry, g.exit, avoid=tuple(rel)):
                    excused = False
                    for (t_, p_) in l:
                        if not (t_.startswith('self.') and p_ and t_[5:].isidentifier()):
                            continue
                        fld = t_[5:]
                        st = [(c_, s_, v_) for (c_, s_, tt, v_) in stores_in_package(R, fld)
                              if c_.func.cls is not None and c_.func.cls.qual in R.prog.mro(cq)]
                        if st and all(isinstance(v_, ast.Constant) and isinstance(v_.value, bool) for (_, _, v_) in st) and all(
                                c_.func.name in ('close', '_release') for (c_, _, v_) in st if v_.value is True):
                            excused = True
                    if not excused:
                        bad.append(sorted(l))
            R.ob(RID, '%s.close() releases self.%s' % (cq.split('.')[-1], attr), not bad,
                 '%s.close() can return without closing the kernel object in self.%s: %s - run() closes the socket before the '
                 'selector, so a test on the socket\'s state skips the release and the descriptor stays open' % (
                     cq, attr, bad[:1]), func=cm, node=None, construct='%s.close releases %s' % (cq, attr))
    need(n_owned >= 1, 'no selector class owning a kernel object found (KQueueSelector expected)')


def exit_(R):
    q = WS + '.__exit__'
    g = R.cfg(q)
    rd = ReachingDefs(g)
    cl = calls_to(R, g, S + '.close')
    ok = len(cl) == 1
    if ok:
        lits = {(t, p) for (t, p, _) in guards_of(g, cl[0][0])}
        ok = match_exact(guard_atom_sets(g, cl[0][0]), [{('self.session is None', False), ('self.state.session is None', False)}])
    R.ob('C13.exit', '__exit__ closes the session whenever one exists', ok,
         '__exit__ calls session.close() under %s (required: only `session is not None`)' % (
             sorted({(t, p) for (t, p, _) in guards_of(g, cl[0][0])}) if cl else 'no call'), func=q,
         node=(cl[0][1] if cl else None), construct='__exit__ guard')
    q2 = S + '.close'
    g2 = R.cfg(q2)
    cs = [n for (n, _) in calls_to(R, g2, S + '._close_socket')]
    ok = bool(cs) and all_paths_pass(g2, [g2.entry], cs, [g2.exit])
    R.ob('C13.exit', 'session.close() -> _close_socket()', ok, 'session.close() does not always call _close_socket()', func=q2,
         node=None, construct='session.close body')
    q3 = WS + '.on_disconnect'
    g3 = R.cfg(q3)
    c3 = calls_to(R, g3, S + '.close')
    ok = len(c3) == 1 and match_exact(guard_atom_sets(g3, c3[0][0]), [{('self.state.session is None', False), ('self.session is None', False)}])
    R.ob('C13.exit', 'on_disconnect closes the session whenever one exists', ok, 'on_disconnect guard', func=q3,
         node=(c3[0][1] if c3 else None), construct='on_disconnect guard')


def closes(R, RID='C13.closes'):
    q = S + '._close_socket'
    g = R.cfg(q)
    rd = ReachingDefs(g)
    cl = [n for (n, _) in ext_calls(R, g, {'socket.close'})]
    need(cl, '_close_socket: socket close() call not found')
    bad = []
    for l in _paths_avoiding(R, g, rd, g.entry, g.exit, set(cl)):
        if ('self._sock is None', True) not in l:
            bad.append(sorted(l))
    R.ob(RID, 'descriptor closed whenever a socket is present', not bad,
         '_close_socket() can return without calling close() although a socket is present: %s' % bad[:1], func=q,
         node=None, construct='_close_socket skip path %s' % bad[:1])
    # ... also when an operation on the socket that precedes close() fails (shutdown() on a connection the peer has
    # reset raises ENOTCONN; a TLS unwrap() fails when the peer is gone): socket-error model, exception edges followed
    gf = R.cfg(q, fault='oserror')
    clf = [n for (n, _) in ext_calls(R, gf, {'socket.close'})]
    tests = [t for t in gf.live_nodes() if t.kind == 'test' and 'self._sock' in U(t.ast)]
    starts = []
    for t in tests:
        for lab in ('true', 'false'):
            lits = cond_forms(R, gf, t, t.ast, lab == 'true') or set()
            if ('self._sock is None', False) in lits:
                starts += succs(t, lab)
    need(starts, '_close_socket: test for an absent socket not found')
    reach = gf.reachable(starts, avoid=set(clf))
    leaks = [n for n in reach if any((m is gf.exit or m is gf.raise_exit) for (m, l) in n.succ)]
    via = [n for n in reach if any(l.startswith('exc:') for (m, l) in n.succ) and n.calls]
    R.ob(RID, 'descriptor closed even when an earlier socket operation fails', not leaks,
         '_close_socket() can finish without close() when `%s` raises a socket error: the handler swallows it and the '
         'socket is forgotten open' % (via[0].text()[:60] if via else ''), func=q, node=(via[0].ast if via else None),
         construct='_close_socket: close skipped after a failing socket operation')
    acq = [c for n in g.live_nodes() for c in n.calls if any(t.kind == 'ext' and t.name in ('lock.acquire', 'lock.release', 'lock.locked')
                                                            for t in R.types.call_targets(c, g.ctx))]
    R.ob(RID, 'write lock taken only by `with`', not acq, '_close_socket uses %s' % [U(c) for c in acq], func=q,
         node=(acq[0] if acq else None))
    withs = [n for n in g.live_nodes() if n.kind == 'with' and any('x:lock' in R.types.expr(i.context_expr, g.ctx) for i in n.ast.items)]
    inlock = all(any(fr.kind == 'with' and fr.node in withs for fr in n.frames) for n in cl)
    R.ob(RID, 'close happens under the write lock', bool(withs) and inlock, 'close() outside `with self._lock`', func=q,
         node=None, construct='close under lock')
