"""C15 - keep-alive, timeouts and polling: enabling/disabling clauses, directions, timer writers, wiring, units."""
import ast

from ..program import AnalysisError, U, own_nodes, walk_no_nested
from ..dataflow import ReachingDefs, defs_of_node
from ..consteval import fold
from .common import (match_exact, guard_atom_sets, path_atom_sets, unmatched, need, guards_of, calls_to, ext_calls, all_paths_pass, succs, normal_succs, path_conditions,
                     is_param, interval_of, arg_of, default_of, INF, stores_in_package, lin_cmp)
from .C04 import _paths_avoiding

PROPERTY = 'C15'
LEVEL = 'other'
EXPLANATION = (
    'The numeric cadence bounds of C15 (>= p, <= 2p, within p of every multiple of r, [c, c+p]) are arithmetic over '
    'runtime clock readings and are NOT decided. Decided are their structural necessary conditions: timers run only '
    'after Ready; each _check_* function fires exactly under its enabling condition and comparison direction (both '
    'directions: no extra guard, no missing guard), normalised as linear comparisons; each timer field has only its '
    'intended writers and is written with the current time on the firing path; Unresponsive is always followed by a '
    'forced disconnect; every timing parameter is forwarded to the same-named slot from connect()/persist() down to '
    'the _check_* functions; the selector timeout is unit-correct (seconds; poll() gets milliseconds).')
NOT_DECIDED = 'every numeric cadence bound over clock readings; monotonicity of time.time'
ASSUMPTIONS = ['the clock is monotone', 'selector wait returns within its timeout']

S = 'session.WebsocketSession'
nx = lambda a, b, l: l.startswith('exc:')


def check(run):
    R = run
    R.rule('C15.shared', 'objects created once per class / per function definition (class-level attributes, parameter '
           'defaults) are only read: no buffer, validator, poll object, header list or option dict is shared between '
           'connections', 1)
    from .common import shared_state
    shared_state(R, 'C15.shared')
    R.rule('C15.gate', 'housekeeping only after Ready: _regular arm gated on _ready; _ready set under '
                       'event.name == "ready" after _on_ready() and before the event is yielded', 5)
    R.rule('C15.poll', '_check_poll fires iff never polled or elapsed >= poll, and then records the current time; '
                       'no other writer of _poll_start', 4)
    R.rule('C15.ping', 'auto ping iff ping_rate truthy and time > _next_ping; _next_ping moved to a future grid point '
                       'before the send; writers confined', 5)
    R.rule('C15.pong', '_last_pong writers confined; pong events recorded regardless of auto_pong; ping timeout iff '
                       'ping_timeout truthy and elapsed > timeout; Unresponsive always followed by _ForceDisconnect', 7)
    R.rule('C15.close', 'close timeout iff close_timeout truthy, a close time recorded (is not None) and time >= sent + '
                        'timeout; sent_close_time written only by close() when not already closing', 5)
    R.rule('C15.params', 'poll / ping_rate / ping_timeout / close_timeout / auto_pong forwarded to same-named slots '
                         'connect -> run -> _regular -> _check_*; persist forwards likewise', 14)
    R.rule('C15.units', 'selector timeout in seconds; poll() gets milliseconds; run() passes poll as the timeout', 4)
    R.rule('C15.cadence', 'the housekeeping checks run on every iteration of the receive loop (after every wake-up of '
                          'the selector, readable or not)', 1)
    gate(R)
    cadence(R)
    poll(R)
    ping(R)
    from . import C09
    with R.as_rule('C15.ping'):
        C09.swallow(R)      # an automatic ping (or pong / close) that write() refuses does not end the session
    pong(R)
    close(R)
    params(R)
    units(R)


def _writers(R, attr, cls):
    out = []
    for (c, s, t, v) in stores_in_package(R, attr):
        if any(x == 'inst:' + cls for x in R.types.expr(t.value, c)):
            out.append((c, s, t, v))
    return out


def gate(R):
    from .common import hk_iters
    gr = R.cfg(S + '.run')
    its = hk_iters(R, gr)
    need(its, 'run(): no loop over the housekeeping generator found')
    sites = set()
    for (n, ok, desc, calls) in its:
        R.ob('C15.gate', 'housekeeping generator only when ready', ok,
             'self._regular(...) is not created under `self._ready` alone (%s)' % desc,
             func=(calls[0][0].ctx.func.qual if calls else S + '.run'), node=(calls[0][2] if calls else n.ast))
        for (cg, cn, cc) in calls:
            sites.add(id(cc))
    # all uses of the housekeeping generator go through such a gated loop
    allc = [(c_, call) for (c_, call, t) in R.types.callers.get(S + '._regular', [])]
    direct = sorted(set(c_.func.qual for (c_, call) in allc if id(call) not in sites))
    R.ob('C15.gate', 'no ungated housekeeping', not direct, '_regular called from %s' % direct,
         func=S + '._regular', node=None, construct='_regular callers %s' % direct)
    ws = _writers(R, '_start_time', S)
    wq = sorted(set(c_.func.qual for (c_, s, t, v) in ws if U(v) != 'None'))
    R.ob('C15.gate', 'the session clock is started by _on_ready only', wq == [S + '._on_ready'],
         '_start_time is set in %s: session time would not count from Ready, while _on_ready still initialises _last_pong / '
         '_next_ping as if it did' % wq, func=S + '._on_ready', node=None, construct='_start_time writers %s' % wq)
    w = _writers(R, '_ready', S)
    tw = [(c_, s) for (c_, s, t, v) in w if U(v) == 'True']
    R.ob('C15.gate', 'single True writer of _ready', len(tw) == 1 and tw[0][0].func.qual == S + '._on_event',
         '_ready = True in %s' % [c_.func.qual for (c_, _) in tw], func=S + '._on_event', node=(tw[0][1] if tw else None),
         construct='_ready writers')
    other = [(c_, s, v) for (c_, s, t, v) in w if U(v) != 'True' and c_.func.name != '__init__']
    R.ob('C15.gate', '_ready never cleared mid-connection', not other, '_ready written in %s' % [c_.func.qual for (c_, _, _) in other],
         func=S + '._on_event', node=(other[0][1] if other else None), construct='_ready other writers')
    q2 = S + '._on_event'
    g2 = R.cfg(q2)
    ev = R.func(q2).params[1]
    if tw:
        sn = [m for m in g2.live_nodes() if m.ast is tw[0][1]]
        lits = {(t, p) for (t, p, _) in guards_of(g2, sn[0])} if sn else set()
        orc = [m for (m, _) in calls_to(R, g2, S + '._on_ready')]
        ok = bool(sn) and match_exact(guard_atom_sets(g2, sn[0]), [{("%s.name == 'ready'" % ev, True)}]) and bool(orc) and all_paths_pass(g2, [g2.entry], orc, sn, skip_edge=nx)
        R.ob('C15.gate', '_ready set on the ready event, after _on_ready()', ok, '_ready = True under %s' % sorted(lits),
             func=q2, node=tw[0][1])
    q3 = S + '._on_ready'
    f3 = R.func(q3)
    vals = {U(t_): s.value for s in own_nodes(f3.node) if isinstance(s, ast.Assign) for t_ in s.targets}
    ok = fold(R, vals.get('self._last_pong'), None) == 0.0 and fold(R, vals.get('self._next_ping'), None) == 0.0 \
        and vals.get('self._start_time') is not None and U(vals['self._start_time']) == 'time.time()'
    R.ob('C15.gate', '_on_ready starts the clocks', ok, '_on_ready assigns %s' % {k: U(v) for k, v in vals.items()}, func=f3,
         node=None, construct='_on_ready body')
    st = R.func(S + '.session_time')
    body = [s for s in st.node.body if isinstance(s, ast.Return)]
    ok = len(body) == 1 and isinstance(body[0].value, ast.IfExp) and U(body[0].value.test) == 'self._start_time is None' \
        and fold(R, body[0].value.body, None) == 0.0 and U(body[0].value.orelse) == 'time.time() - self._start_time'
    R.ob('C15.gate', 'session_time = time since Ready', ok, 'session_time returns %s' % (U(body[0].value) if body else None),
         func=st, node=None, construct='session_time')


def cadence(R):
    q = S + '.run'
    g = R.cfg(q)
    rd = ReachingDefs(g)
    heads = [h for h in g.live_nodes() if h.kind == 'loophead']
    need(heads, 'run(): receive loop not found')
    from .common import hk_iters
    hk = [n for (n, _ok, _d, _c) in hk_iters(R, g)]
    waits = [n for (n, _) in calls_to(R, g, 'selectors.SelectorBase.wait')]
    ok = bool(hk) and bool(waits)
    for w in waits:
        # from the selector wake-up, every way to the next wait (or out of the loop normally) runs the housekeeping
        ok = ok and all_paths_pass(g, normal_succs(w), hk, waits, skip_edge=nx)
    R.ob('C15.cadence', 'housekeeping after every selector wake-up', ok,
         'a loop iteration can return to selector.wait() without running the poll / ping / timeout checks (e.g. only when '
         'the wait timed out): while data trickles in, Poll, auto-ping and both timeouts stop', func=q,
         node=(waits[0].ast if waits else None), construct='housekeeping per iteration')


def _check_fn(R, name):
    q = S + '.' + name
    g = R.cfg(q)
    return q, g, ReachingDefs(g), R.func(q)


def _lits_lin(l, alias):
    out = []
    for (t, p) in l:
        r = lin_cmp(t, p, alias)
        if r is not None:
            out.append(r)
    return out


def poll(R):
    q, g, rd, f = _check_fn(R, '_check_poll')
    pl, tm = f.params[1], f.params[2]
    alias = {}
    for n in g.live_nodes():
        if n.kind == 'stmt' and isinstance(n.ast, ast.Assign) and isinstance(n.ast.targets[0], ast.Name) \
                and isinstance(n.ast.value, ast.Name) and n.ast.value.id == tm:
            alias[n.ast.targets[0].id] = tm
    want = ({tm: 1, 'self._poll_start': -1, pl: -1}, '>=')
    rets_t = [n for n in g.live_nodes() if n.kind == 'stmt' and isinstance(n.ast, ast.Return) and U(n.ast.value) == 'True']
    rets_f = [n for n in g.live_nodes() if n.kind == 'stmt' and isinstance(n.ast, ast.Return) and U(n.ast.value) != 'True']
    need(rets_t, '_check_poll never returns True')
    for r in rets_t:
        bad = []
        for l in path_conditions(R, g, rd, g.entry, r):
            first = ('self._poll_start is None', True) in l
            el = any(x == want or x == (want[0], '>') for x in _lits_lin(l, alias))
            extra = unmatched(path_atom_sets(l), lambda f: any(t == 'self._poll_start is None' for (t, p_) in f) or any(
                lin_cmp(t, p_, alias) in (want, (want[0], '>')) for (t, p_) in f))
            if not (first or el) or extra:
                bad.append(sorted(l))
        R.ob('C15.poll', 'Poll only when first or elapsed >= poll', not bad, 'Poll fires under %s' % bad[:1], func=f, node=r.ast)
        st = [n for n in g.live_nodes() if n.kind == 'stmt' and isinstance(n.ast, ast.Assign)
              and U(n.ast.targets[0]) == 'self._poll_start']
        ok = bool(st) and all_paths_pass(g, [g.entry], st, [r], skip_edge=nx) and \
            all(alias.get(U(s.ast.value), U(s.ast.value)) == tm for s in st)
        R.ob('C15.poll', 'firing records the current time', ok,
             '_poll_start is assigned %s on the firing path (must be the current session time, or intervals between '
             'Polls can shrink below poll)' % [U(s.ast.value) for s in st], func=f, node=(st[0].ast if st else r.ast))
    for r in rets_f:
        bad = []
        for l in path_conditions(R, g, rd, g.entry, r):
            notfirst = ('self._poll_start is None', False) in l
            neg = ({k: -v for k, v in want[0].items()}, '>')
            el = any(x == neg for x in _lits_lin(l, alias))
            if not (notfirst and el):
                bad.append(sorted(l))
        R.ob('C15.poll', 'no Poll only when polled before and elapsed < poll', not bad,
             'Poll is withheld under %s' % bad[:1], func=f, node=r.ast)
    w = _writers(R, '_poll_start', S)
    quals = sorted(set(c.func.qual for (c, s, t, v) in w))
    R.ob('C15.poll', 'writers of _poll_start', quals == [S + '.__init__', q], '_poll_start written in %s' % quals, func=f,
         node=None, construct='_poll_start writers %s' % quals)


def ping(R):
    q, g, rd, f = _check_fn(R, '_check_auto_ping')
    rate, tm = f.params[1], f.params[2]
    sp = calls_to(R, g, 'websocket.WebSocket.send_ping')
    need(len(sp) == 1, '_check_auto_ping: expected one send_ping call')
    n, c = sp[0]
    want = ({tm: 1, 'self._next_ping': -1}, '>')
    bad = []
    for l in path_conditions(R, g, rd, g.entry, n):
        en = (rate, True) in l
        due = any(x == want for x in _lits_lin(l, {}))
        extra = unmatched(path_atom_sets(l), lambda f: (rate, True) in f or any(lin_cmp(t, p_, {}) == want for (t, p_) in f))
        if not (en and due) or extra:
            bad.append(sorted(l))
    R.ob('C15.ping', 'ping iff enabled and due', not bad, 'automatic Ping sent under %s' % bad[:1], func=f, node=c)
    bad = []
    for l in _paths_avoiding(R, g, rd, g.entry, g.exit, {n}):
        neg = ({k: -v for k, v in want[0].items()}, '>=')
        if (rate, False) not in l and not any(x == neg for x in _lits_lin(l, {})):
            bad.append(sorted(l))
    R.ob('C15.ping', 'a due ping is always sent', not bad, 'a due Ping can be skipped: %s' % bad[:1], func=f, node=c,
         construct='skipped ping')
    st = [m for m in g.live_nodes() if m.kind == 'stmt' and isinstance(m.ast, ast.Assign)
          and U(m.ast.targets[0]) == 'self._next_ping']
    ok = len(st) == 1 and all_paths_pass(g, [g.entry], st, [n], skip_edge=nx)
    R.ob('C15.ping', '_next_ping advanced before the send', ok, '_next_ping not re-armed before send_ping()', func=f,
         node=(st[0].ast if st else c))
    if st:
        v = st[0].ast.value
        ok = isinstance(v, ast.BinOp) and isinstance(v.op, ast.Mult)
        if ok:
            a, b = v.left, v.right
            if U(a) == rate:
                a, b = b, a
            ok = U(b) == rate and isinstance(a, ast.Call) and U(a.func) == 'math.ceil' \
                and U(a.args[0]) == '%s / %s' % (tm, rate)
        R.ob('C15.ping', 'next ping on the ping_rate grid', ok, '_next_ping = %s' % U(v), func=f, node=st[0].ast)
    w = _writers(R, '_next_ping', S)
    quals = sorted(set(c_.func.qual for (c_, s, t, v) in w))
    R.ob('C15.ping', 'writers of _next_ping', quals == [S + '.__init__', q, S + '._on_ready'], '_next_ping written in %s' % quals,
         func=f, node=None, construct='_next_ping writers %s' % quals)
    a = c.args or c.keywords
    R.ob('C15.ping', 'ping without payload surprises', not a, 'send_ping(%s)' % U(c), func=f, node=c)


def pong(R):
    w = _writers(R, '_last_pong', S)
    quals = sorted(set(c_.func.qual for (c_, s, t, v) in w))
    R.ob('C15.pong', 'writers of _last_pong', quals == [S + '.__init__', S + '._on_pong', S + '._on_ready'],
         '_last_pong written in %s' % quals, func=S + '._on_pong', node=None, construct='_last_pong writers %s' % quals)
    f = R.func(S + '._on_pong')
    st = [s for s in own_nodes(f.node) if isinstance(s, ast.Assign) and U(s.targets[0]) == 'self._last_pong']
    R.ob('C15.pong', '_on_pong records the current session time', len(st) == 1 and U(st[0].value) == 'self.session_time',
         '_last_pong = %s' % [U(s.value) for s in st], func=f, node=(st[0] if st else None))
    # ... for every Pong: RFC 6455 lets a server send unsolicited Pongs as a heartbeat, and the ping timeout is about the most
    # recent Pong whoever asked for it - a path through _on_pong that leaves _last_pong alone makes Unresponsive fire although
    # a Pong arrived within the timeout
    gp_ = R.cfg(S + '._on_pong')
    stn = [n for n in gp_.live_nodes() if n.kind == 'stmt' and isinstance(n.ast, ast.Assign) and U(n.ast.targets[0]) == 'self._last_pong']
    R.ob('C15.pong', '_on_pong records every Pong', bool(stn) and all_paths_pass(gp_, [gp_.entry], stn, [gp_.exit], skip_edge=nx),
         '_on_pong can return without storing _last_pong (a Pong taken for "unsolicited" is not counted): Unresponsive fires '
         'although a Pong was received within the ping timeout', func=f, node=(st[0] if st else None),
         construct='_on_pong path without _last_pong store')
    q2 = S + '._on_event'
    g2 = R.cfg(q2)
    rd2 = ReachingDefs(g2)
    ev = R.func(q2).params[1]
    oc = calls_to(R, g2, S + '._on_pong')
    ok = len(oc) == 1
    if ok:
        ls = path_conditions(R, g2, rd2, g2.entry, oc[0][0])
        ok = all(("%s.name == 'pong'" % ev, True) in l and not any(t == 'auto_pong' for (t, p) in l) for l in ls)
    R.ob('C15.pong', 'pong events recorded irrespective of auto_pong', ok,
         '_on_pong is not reached for every pong event', func=q2, node=(oc[0][1] if oc else None), construct='_on_pong dispatch')
    from . import C01 as _C01
    with R.as_rule('C15.pong'):
        _C01.conserve(R)         # a Pong is handed on when it arrives - not held back behind a data message still being assembled
    from .common import event_names
    event_names(R, 'C15.pong')        # only Pongs are named 'pong'
    q, g, rd, f = _check_fn(R, '_check_ping_timeout')
    to, tm = f.params[1], f.params[2]
    alias = {}
    for n in g.live_nodes():
        if n.kind == 'stmt' and isinstance(n.ast, ast.Assign) and isinstance(n.ast.targets[0], ast.Name) \
                and isinstance(n.ast.value, ast.BinOp):
            alias[n.ast.targets[0].id] = n.ast.value
    want = ({tm: 1, 'self._last_pong': -1, to: -1}, '>')
    for r in [n for n in g.live_nodes() if n.kind == 'stmt' and isinstance(n.ast, ast.Return)]:
        isT = U(r.ast.value) == 'True'
        bad = []
        for l in path_conditions(R, g, rd, g.entry, r):
            lins = _lits_lin(l, alias)
            if isT:
                extra = unmatched(path_atom_sets(l), lambda f: (to, True) in f or any(lin_cmp(t, p_, alias) == want for (t, p_) in f))
                if (to, True) not in l or want not in lins or extra:
                    bad.append(sorted(l))
            else:
                neg = ({k: -v for k, v in want[0].items()}, '>=')
                if (to, False) not in l and neg not in lins:
                    bad.append(sorted(l))
        R.ob('C15.pong', 'ping timeout %s exactly under its condition' % ('fires' if isT else 'is withheld'), not bad,
             '_check_ping_timeout returns %s under %s (required: ping_timeout truthy and time - last pong > ping_timeout, '
             'nothing else)' % (U(r.ast.value), bad[:1]), func=f, node=r.ast)
    # _regular: Unresponsive followed by a raise of _ForceDisconnect
    q3 = S + '._regular'
    g3 = R.cfg(q3)
    ys = [y for y in g3.yields() if isinstance(y.ast.value, ast.Call)
          and any(t.kind == 'ctor' and t.cls == 'events.Unresponsive' for t in R.types.call_targets(y.ast.value, g3.ctx))]
    R.ob('C15.pong', 'Unresponsive yield exists', len(ys) == 1, '%d Unresponsive yields' % len(ys), func=q3, node=None,
         construct='Unresponsive yield')
    for y in ys:
        reach = g3.succ_reach(y, skip_edge=lambda a, b, l: l.startswith('exc:') and not l.endswith('_ForceDisconnect'))
        ok = g3.exit not in reach and g3.raise_exit in reach and not any(m.kind == 'yield' for m in reach)
        R.ob('C15.pong', 'Unresponsive is followed by a forced disconnect', ok,
             'after Unresponsive the generator can continue without raising _ForceDisconnect', func=q3, node=y.ast)
        lits = {(t, p) for (t, p, _) in guards_of(g3, y)}
        pc = [c for n in g3.live_nodes() for c in n.calls if R.types.resolves_to(c, g3.ctx, q)]
        ok = len(pc) == 1 and match_exact(guard_atom_sets(g3, y), [{(U(pc[0]), True)}])
        R.ob('C15.pong', 'Unresponsive exactly when the timeout check fires', ok, 'Unresponsive under %s' % sorted(lits),
             func=q3, node=y.ast)
        # nothing that can end the pass by raising comes before the ping-timeout test: a close timeout found expired in
        # the same pass must not swallow the Unresponsive event
        pn = [n for n in g3.live_nodes() if any(c is pc[0] for c in n.calls)] if pc else []
        raisers = [n for (n, c_) in calls_to(R, g3, S + '._check_close_timeout')]
        okp = bool(pn) and all(all_paths_pass(g3, [g3.entry], pn, [r_], skip_edge=nx) for r_ in raisers)
        R.ob('C15.pong', 'the ping-timeout test is not pre-empted by the close-timeout check', okp,
             '_check_close_timeout() (which raises _ForceDisconnect) runs before the ping-timeout test: when both are due '
             'in one pass the session ends without the Unresponsive event', func=q3, node=(raisers[0].ast if raisers else None),
             construct='close-timeout check before ping-timeout test')


def close(R, RID='C15.close', rearm=True):
    q, g, rd, f = _check_fn(R, '_check_close_timeout')
    to, tm = f.params[1], f.params[2]
    sent = None
    alias = {}
    for n in g.live_nodes():
        if n.kind == 'stmt' and isinstance(n.ast, ast.Assign) and isinstance(n.ast.targets[0], ast.Name) \
                and U(n.ast.value) == 'self.websocket.sent_close_time':
            sent = n.ast.targets[0].id
    need(sent is not None, '_check_close_timeout does not read websocket.sent_close_time')
    SA = 'self.websocket.sent_close_time'
    wants = [({tm: 1, sent: -1, to: -1}, '>='), ({tm: 1, SA: -1, to: -1}, '>=')]
    want = wants[0]
    nonnull = {('%s is None' % sent, False), ('%s is None' % SA, False)}
    raises = [n for n in g.live_nodes() if n.kind == 'stmt' and isinstance(n.ast, ast.Raise)]
    need(raises, '_check_close_timeout never raises')
    for r in raises:
        toks = R.exc.exc_tokens_of_value(r.ast.exc, g.ctx)
        bad = []
        for l in path_conditions(R, g, rd, g.entry, r):
            lins = _lits_lin(l, alias)
            extra = unmatched(path_atom_sets(l), lambda f: (to, True) in f or bool(nonnull & f) or any(
                lin_cmp(t, p_, alias) in wants for (t, p_) in f))
            if (to, True) not in l or not (nonnull & l) or not any(w in lins for w in wants) or extra:
                bad.append(sorted(l))
        R.ob(RID, 'forced disconnect exactly under the close-timeout condition', not bad and toks == {'session._ForceDisconnect'},
             'close timeout raises %s under %s' % (sorted(toks), bad[:1]), func=f, node=r.ast)
    bad = []
    negs = [({k: -v for k, v in w[0].items()}, '>') for w in wants]
    for l in path_conditions(R, g, rd, g.entry, g.exit):
        lins = _lits_lin(l, alias)
        if (to, False) not in l and not ({('%s is None' % sent, True), ('%s is None' % SA, True)} & l) \
                and not any(ng in lins for ng in negs):
            bad.append(sorted(l))
    R.ob(RID, 'close timeout withheld only when disabled / no close sent / not yet due', not bad,
         '_check_close_timeout returns without raising under %s (a close sent at session time 0.0 must still count as '
         'sent)' % bad[:1], func=f, node=None, construct='close timeout withheld: %s' % bad[:1])
    # sent_close_time
    w = [(c, s, t, v) for (c, s, t, v) in stores_in_package(R, 'sent_close_time')
         if any(x == 'inst:websocket.WebSocket.State' for x in R.types.expr(t.value, c))]
    quals = sorted(set(c.func.qual for (c, s, t, v) in w))
    R.ob(RID, 'writers of sent_close_time', quals == ['websocket.WebSocket.State.__init__', 'websocket.WebSocket.close'],
         'sent_close_time written in %s' % quals, func='websocket.WebSocket.close', node=None,
         construct='sent_close_time writers %s' % quals)
    gq = 'websocket.WebSocket.close'
    gc = R.cfg(gq)
    rdc = ReachingDefs(gc)
    for (c, s, t, v) in w:
        if c.func.qual != gq:
            R.ob(RID, 'initial close time is None', U(v) == 'None', 'sent_close_time initialised to %s' % U(v),
                 func=c.func, node=s)
            continue
        n = [m for m in gc.live_nodes() if m.ast is s][0]
        from .common import otext_full
        from .common import pfold, subst_locals
        R.ob(RID, 'close time is the session time', 'self.session.session_time' in (
            U(v), otext_full(R, gc, n, v), pfold(R, gc.ctx, v), pfold(R, gc.ctx, subst_locals(R, gc, n, v, pure_only=False))),
             'sent_close_time = %s' % U(v),
             func=gq, node=s)
        lits = {(t_, p) for (t_, p, _) in guards_of(gc, n)}
        ok = ('self.state.closing', False) in lits or ('self.is_closing', False) in lits
        if rearm:
            R.ob(RID, 'close time recorded only by the first close()', ok,
                 'every repeated close() re-arms the close timeout (guards: %s): the forced disconnect can be postponed '
                 'indefinitely' % sorted(lits), func=gq, node=s)
        sc = [m for (m, _) in calls_to(R, gc, 'websocket.WebSocket._send_close')]
        ok = bool(sc) and all_paths_pass(gc, [gc.entry], sc, [n], skip_edge=nx)
        R.ob(RID, 'close time recorded after the Close frame was sent', ok, 'sent_close_time stored before the send',
             func=gq, node=s)
        # ... and on every path that attempted the send (also when the write failed): otherwise the close timeout is
        # never armed and the loop waits for a reply for ever
        ok = bool(sc) and all(all_paths_pass(gc, normal_succs(m), [n], [gc.exit], skip_edge=nx) for m in sc)
        R.ob(RID, 'close time recorded whenever a Close was attempted', ok,
             'close() can return after attempting the Close send without recording sent_close_time (e.g. only when the '
             'send succeeded): the close timeout is then never armed', func=gq, node=s)
    # every Close goes through close(): _send_close has no other caller (an echo that bypasses close() never arms the timeout)
    cs = sorted(set(c.func.qual for (c, call, t) in R.types.callers.get('websocket.WebSocket._send_close', [])))
    R.ob(RID, 'every Close frame is sent through close()', cs == [gq],
         '_send_close is called from %s: a Close sent outside close() does not record sent_close_time' % cs,
         func='websocket.WebSocket._send_close', node=None, construct='_send_close callers %s' % cs)
    for _ in []:
        pass


def params(R):
    from .common import hk_iters
    chain = [('websocket.WebSocket.connect', S + '.run', ['poll', 'ping_rate', 'ping_timeout', 'auto_pong', 'close_timeout'], None),
             ('persist.persist', 'websocket.WebSocket.connect', ['poll', 'ping_rate', 'ping_timeout'], None)]
    for (n_, ok_, d_, calls) in hk_iters(R, R.cfg(S + '.run')):
        for (cg, cn, cc) in calls:
            chain.append((cg.ctx.func.qual, S + '._regular', ['poll', 'ping_rate', 'ping_timeout', 'close_timeout'], (cg, cn, cc)))
    chain2 = []
    for (src, dst, names, site) in chain:
        if site is None:
            g = R.cfg(src)
            cs = calls_to(R, g, dst)
            need(len(cs) >= 1, '%s: expected a call of %s' % (src, dst))
            for (n, c) in cs:            # every call site forwards every parameter
                chain2.append((src, dst, names, (g, n, c)))
        else:
            chain2.append((src, dst, names, site))
    for (src, dst, names, site) in chain2:
        g, n, c = site
        rd = ReachingDefs(g)
        df = R.func(dst)
        for name in names:
            a = arg_of(c, df, name)
            ok = a is not None and isinstance(a, ast.Name) and a.id == name
            if ok:
                # the name is an unmodified parameter of the enclosing (or closure-parent) function
                ds = rd.defs_at(n, name)
                ok = ds in (set(), {g.entry})
            R.ob('C15.params', '%s -> %s: %s' % (src.rsplit('.', 1)[1], dst.rsplit('.', 1)[1], name), ok,
                 '%s receives %s for parameter %s' % (dst, U(a), name), func=src, node=c,
                 construct='%s->%s %s=%s' % (src, dst, name, U(a)))
    # run(): the closure's free variables are run's own parameters, unmodified
    g = R.cfg(S + '.run')
    from ..dataflow import defs_of_node
    for name in ('poll', 'ping_rate', 'ping_timeout', 'close_timeout', 'auto_pong'):
        reb = [n for n in g.live_nodes() if name in defs_of_node(n)]
        R.ob('C15.params', 'run() does not rebind %s' % name, not reb, '%s re-assigned in run()' % name, func=S + '.run',
             node=(reb[0].ast if reb else None), construct='run rebinding ' + name)
    # _regular -> _check_*
    g = R.cfg(S + '._regular')
    rd = ReachingDefs(g)
    for meth, pname in (('_check_poll', 'poll'), ('_check_auto_ping', 'ping_rate'), ('_check_ping_timeout', 'ping_timeout'),
                        ('_check_close_timeout', 'close_timeout')):
        cs = calls_to(R, g, S + '.' + meth)
        ok = len(cs) == 1
        if ok:
            n, c = cs[0]
            a0 = c.args[0] if c.args else None
            a1 = c.args[1] if len(c.args) > 1 else None
            ok = a0 is not None and is_param(rd, n, a0, pname) and a1 is not None and U(a1) == 'self.session_time'
        R.ob('C15.params', '_regular -> %s(%s, session_time)' % (meth, pname), ok,
             '%s called as %s' % (meth, [U(c_) for (_, c_) in cs]), func=S + '._regular', node=(cs[0][1] if cs else None),
             construct='_regular->%s' % meth)
    # every check runs on every housekeeping pass (unless a forced disconnect intervened)
    order = ['_check_poll', '_check_auto_ping', '_check_ping_timeout', '_check_close_timeout']
    for meth in order:
        cs = [n for (n, _) in calls_to(R, g, S + '.' + meth)]
        ok = bool(cs) and all_paths_pass(g, [g.entry], cs, [g.exit], skip_edge=nx)
        R.ob('C15.params', '%s runs on every housekeeping pass' % meth, ok, '%s can be skipped' % meth, func=S + '._regular',
             node=None, construct='%s unconditional' % meth)


def units(R):
    q = S + '.run'
    g = R.cfg(q)
    rd = ReachingDefs(g)
    wc = calls_to(R, g, 'selectors.SelectorBase.wait')
    need(len(wc) == 1, 'run(): expected one selector.wait call')
    n, c = wc[0]
    a = arg_of(c, R.func('selectors.SelectorBase.wait'), 'timeout')
    R.ob('C15.units', 'selector wait bounded by poll', a is not None and is_param(rd, n, a, 'poll'),
         'selector.wait(timeout=%s)' % U(a), func=q, node=c)
    q2 = 'selectors.SelectorBase.wait'
    g2 = R.cfg(q2, 'selectors.PollSelector')
    rd2 = ReachingDefs(g2)
    wr = calls_to(R, g2, 'selectors.PollSelector.wait_readable')
    ok = len(wr) == 1
    if ok:
        a = arg_of(wr[0][1], R.func('selectors.PollSelector.wait_readable'), 'timeout')
        ok = a is not None and is_param(rd2, wr[0][0], a, 'timeout')
    R.ob('C15.units', 'wait forwards the timeout unchanged', ok, 'wait_readable called as %s' % [U(x) for (_, x) in wr],
         func=q2, node=(wr[0][1] if wr else None), construct='wait->wait_readable timeout')
    for cls, ext, factor, argi in (('selectors.PollSelector', 'poll.poll', 1000, 0),
                                   ('selectors.SelectSelector', 'select.select', 1, 3),
                                   ('selectors.KQueueSelector', 'kqueue.control', 1, 2)):
        qq = cls + '.wait_readable'
        gg = R.cfg(qq, cls)
        cs = ext_calls(R, gg, {ext})
        if not cs:
            if cls == 'selectors.PollSelector':
                raise AnalysisError('PollSelector.wait_readable: poll() call not found')
            continue
        c = cs[0][1]
        a = c.args[argi] if len(c.args) > argi else None
        ok = False
        if a is not None:
            from .common import oexpr
            a = oexpr(R, gg, cs[0][0], a)
            if factor == 1:
                ok = U(a) == 'timeout'
            else:
                ok = isinstance(a, ast.BinOp) and isinstance(a.op, ast.Mult) and \
                    {U(a.left), str(fold(R, a.right, gg.ctx) if U(a.left) == 'timeout' else fold(R, a.left, gg.ctx))} >= {'timeout'} \
                    and (fold(R, a.right, gg.ctx) == factor or fold(R, a.left, gg.ctx) == factor)
        R.ob('C15.units', '%s timeout unit' % ext, ok, '%s receives %s (seconds x %d expected)' % (ext, U(a), factor), func=qq,
             node=c)
