"""C08 - the closing handshake completes correctly in both directions (single-threaded histories)."""
import ast

from ..program import AnalysisError, U, own_nodes, walk_no_nested
from ..dataflow import ReachingDefs, defs_of_node
from ..consteval import fold
from .common import (need, guards_of, calls_to, ext_calls, all_paths_pass, succs, normal_succs, path_conditions,
                     is_param, arg_of, default_of, stores_in_package, interval_of, INF)
from . import C14

PROPERTY = 'C08'
LEVEL = 'other'
EXPLANATION = (
    'Typestate over the two flags (closing, closed): every store is enumerated and placed (closing=True only after the '
    'Close send attempt / after the echo; closed=True only after the Closed event or on disconnect; closing=False only '
    'together with closed=True and never before the Closed event); CLOSE frames have a single producer whose every '
    'path enters the closing state; write() refuses under either flag before sendall and is the only writer of the '
    'session socket; the server-initiated arm yields Closing before echoing the message\'s own code and reason; '
    'the graceful Disconnected is the try-else path only; EOF while active is a failure; feed keeps delivering while '
    'closing; the Close length guard accepts every legal payload; a Pong refused while closing is swallowed.')
NOT_DECIDED = 'wire bytes (C03), timing (C15), thread races (C12)'
ASSUMPTIONS = ['single-threaded history: program order is execution order']

WS = 'websocket.WebSocket'
S = 'session.WebsocketSession'
ST = WS + '.State'
nx = lambda a, b, l: l.startswith('exc:')


def check(run):
    R = run
    R.rule('C08.shared', 'objects created once per class / per function definition (class-level attributes, parameter '
           'defaults) are only read: no buffer, validator, poll object, header list or option dict is shared between '
           'connections', 1)
    from .common import shared_state
    shared_state(R, 'C08.shared')
    R.rule('C08.writers', 'stores to State.closing / State.closed: writer set and placement', 8)
    R.rule('C08.onlyclose', 'CLOSE opcode sent only by _send_close, called only by close(); every path of close() that '
                            'attempts the send enters the closing state', 4)
    R.rule('C08.refuse', 'write(): is_closed / is_closing tests raising WebSocketError dominate sendall; only write() '
                         'writes to the session socket', 3)
    R.rule('C08.server', 'server-initiated close: Closing yielded before the echo; echo carries the message\'s code and '
                         'reason; no flag store before the event', 4)
    from .common import event_fields as _event_fields
    _event_fields(R, 'C08.server', ['Closed', 'Closing', 'Disconnected'])      # code / reason / graceful as constructed
    R.rule('C08.client', 'client-initiated close: Closed then closed=True; loop exits on is_closed; try-else closes the '
                         'socket and yields the only graceful Disconnected', 5)
    R.rule('C08.eof', 'EOF while not active leaves the loop gracefully; EOF while active fails the connection', 2)
    R.rule('C08.keepreading', 'feed() stops only on is_closed, never on is_closing', 1)
    R.rule('C08.echobound', 'the Close payload guard is exactly 125 bytes (every legal Close can be sent/echoed)', 1)
    R.rule('C08.pongclosing', 'a Pong refused while closing is swallowed (no error Disconnected)', 2)
    R.rule('C08.codes', 'every valid close code is accepted (reserved ones rejected): a valid server Close leads to '
                        'Closing/Closed, not to a protocol error', 2)
    R.rule('C08.route', 'a Close (or any control frame) between the fragments of a text message is not run through the '
                        'text validator', 4)
    R.rule('C08.echoswallow', 'write failures while echoing / sending the Close are absorbed (no error Disconnected)', 3)
    from . import C04, C05, C09
    with R.as_rule('C08.codes'):
        C04.closecodes(R)
        C05.strict(R)        # ... and a valid reason is judged on its own bytes (fresh validator, strict decode)
    with R.as_rule('C08.route'):
        C05.route(R)
    with R.as_rule('C08.echoswallow'):
        C09.swallow(R)
    server(R)
    writers(R)
    onlyclose(R)
    from . import C03
    C03.rsv1gate(R, RID='C08.onlyclose')      # the Close frame is written as built (never through the compressor)
    refuse(R)
    client(R)
    eof(R)
    keepreading(R)
    echobound(R)
    C14.swallow(R, RID='C08.pongclosing')
    from . import C15
    R.rule('C08.timeout', 'a client-initiated close that gets no reply ends through the close timeout (time recorded '
                          'when the Close is sent, tested on every loop iteration)', 3)
    C15.close(R, RID='C08.timeout', rearm=False)    # a postponed timeout is C15's / C07's business, not this property's
    from . import C13
    R.rule('C08.sockclosed', 'the handshake ends with the descriptor closed: _close_socket closes the socket on every path '
                             'on which one is present (a failing shutdown() included)', 2)
    C13.closes(R, RID='C08.sockclosed')
    from . import C11 as _C11
    with R.as_rule('C08.onlyclose'):
        _C11.once(R)             # the Close frame close() builds is written then and there (send() -> exactly one write())
    R.rule('C08.close', 'the Close payload is the code and the reason (text encoded leniently: close() cannot fail on it)', 3)
    with R.as_rule('C08.close'):
        C03.closep(R)
    C09.request_first(R, 'C08.onlyclose')      # a close() at Connected cannot put its Close frame in front of the request
    with R.as_rule('C08.timeout'):
        C15.units(R)             # the loop's wait is computed from poll alone: close_timeout=None / 0 cannot break it
    from . import C01 as _C01
    _C01.accept(R, RID='C08.route')             # a Close is a control frame wherever it arrives (between fragments too)


def _flag_stores(R, flag):
    out = []
    for (c, s, t, v) in stores_in_package(R, flag):
        if any(x == 'inst:' + ST for x in R.types.expr(t.value, c)):
            out.append((c, s, t, v))
    return out


def writers(R):
    allowed = {ST + '.__init__', WS + '.close', WS + '._on_close', WS + '.on_disconnect'}
    allst = []
    for flag in ('closing', 'closed'):
        for (c, s, t, v) in _flag_stores(R, flag):
            allst.append((flag, c, s, v))
            R.ob('C08.writers', 'writer of %s: %s' % (flag, c.func.name), c.func.qual in allowed,
                 'State.%s is written in %s (allowed: State.__init__, close, _on_close, on_disconnect)' % (flag, c.func.qual),
                 func=c.func, node=s)
            val = fold(R, v, c)
            R.ob('C08.writers', '%s value in %s' % (flag, c.func.name), val in (True, False), 'State.%s = %s' % (flag, U(v)),
                 func=c.func, node=s)
    # close(): closing=True after the send attempt
    q = WS + '.close'
    g = R.cfg(q)
    sc = [n for (n, _) in calls_to(R, g, WS + '._send_close')]
    for (flag, c, s, v) in allst:
        if c.func.qual != q:
            continue
        n = [m for m in g.live_nodes() if m.ast is s][0]
        ok = flag == 'closing' and fold(R, v, c) is True and bool(sc) and all_paths_pass(g, [g.entry], sc, [n], skip_edge=nx)
        if ok:
            # ... and directly after it: nothing that can raise sits between the write of the Close frame and the store
            # (an exception there leaves the frame on the wire with the state still open - later sends go through)
            between = [m for m in g.live_nodes() if any(m in g.succ_reach(s_, skip_edge=nx) for s_ in sc)
                       and n in g.succ_reach(m, skip_edge=nx) and m is not n and m not in sc]
            risky = [m.text()[:60] for m in between if m.calls and not all(U(c_.func).startswith('log.') for c_ in m.calls)]
            R.ob('C08.writers', 'close(): nothing can fail between the Close write and closing=True', not risky,
                 'close() evaluates %s after _send_close() and before state.closing = True: if that raises, the Close frame is '
                 'on the wire but the websocket is not closing - other sends (and a second Close) are still written' % risky[:2],
                 func=q, node=s, construct='close(): calls between the Close write and the closing store')
        R.ob('C08.writers', 'close(): closing=True only after the Close send attempt', ok,
             'close() stores %s=%s before _send_close(): write() would refuse the Close frame itself' % (flag, U(v)),
             func=q, node=s)
    # _on_close
    q = WS + '._on_close'
    g = R.cfg(q)
    ys = {}
    for y in g.yields():
        for t in R.types.expr(y.ast.value, g.ctx):
            if isinstance(t, str) and t.startswith('inst:events.'):
                ys[t[len('inst:events.'):]] = y
    need('Closed' in ys and 'Closing' in ys, '_on_close: Closed/Closing yields not found')
    echo = [n for (n, _) in calls_to(R, g, WS + '.close')]
    for (flag, c, s, v) in allst:
        if c.func.qual != q:
            continue
        n = [m for m in g.live_nodes() if m.ast is s][0]
        val = fold(R, v, c)
        afterClosed = all_paths_pass(g, [g.entry], [ys['Closed']], [n], skip_edge=nx)
        afterEcho = bool(echo) and all_paths_pass(g, [g.entry], echo, [n], skip_edge=nx)
        if flag == 'closed':
            ok = val is True and afterClosed
            why = 'closed=%s not placed after the Closed event' % U(v)
        elif val is False:
            # closed is set *first*: cleared the other way round there is a moment with both flags unset, in which a send
            # on another thread passes both tests of write() and is written after the completed handshake
            first = [m for m in g.live_nodes() if any(m.ast is s2 and fold(R, v2, c2) is True for (f2, c2, s2, v2) in allst
                                                      if f2 == 'closed' and c2.func.qual == q)]
            tog = bool(first) and all_paths_pass(g, [ys['Closed']], first, [n], skip_edge=nx) and \
                not any(m.kind == 'yield' for f_ in first for m in g.reachable(normal_succs(f_), avoid={n}, skip_edge=nx)
                        if n in g.reachable([m], skip_edge=nx))
            ok = afterClosed and tog
            why = 'closing=False before the Closed event, or not preceded (after Closed, with no yield between) by closed=True: ' \
                  'there is a moment at which neither flag is set - a send on another thread (or the application handling ' \
                  'Closed) is written after the completed closing handshake'
        else:
            ok = afterEcho
            why = 'closing=True in _on_close not placed after the echo'
        R.ob('C08.writers', '_on_close: placement of %s=%s' % (flag, U(v)), ok, why, func=q, node=s)
    # on_disconnect
    q = WS + '.on_disconnect'
    vals = {(flag, fold(R, v, c)) for (flag, c, s, v) in allst if c.func.qual == q}
    R.ob('C08.writers', 'on_disconnect leaves (closing=False, closed=True)', vals == {('closing', False), ('closed', True)},
         'on_disconnect stores %s' % sorted(vals), func=q, node=None, construct='on_disconnect flags %s' % sorted(vals))
    # ... closed before closing here too (while session.close() is still closing the descriptor on this thread the socket
    # object is visible to senders), and write() reads the two flags in the opposite order of the stores: is_closing first
    gd0 = R.cfg(q)
    sc_ = [m for m in gd0.live_nodes() if any(m.ast is s2 and fold(R, v2, c2) is True for (f2, c2, s2, v2) in allst if f2 == 'closed' and c2.func.qual == q)]
    so_ = [m for m in gd0.live_nodes() if any(m.ast is s2 and fold(R, v2, c2) is False for (f2, c2, s2, v2) in allst if f2 == 'closing' and c2.func.qual == q)]
    R.ob('C08.writers', 'on_disconnect sets closed before it clears closing', bool(sc_) and bool(so_) and all(
        all_paths_pass(gd0, [gd0.entry], sc_, [o_], skip_edge=nx) for o_ in so_),
        'on_disconnect() clears State.closing before State.closed is set: between the two stores neither flag is set and a send '
        'from another thread is not refused', func=q, node=(so_[0].ast if so_ else None), construct='on_disconnect: closing cleared first')
    gw = R.cfg(S + '.write')
    tc_ = [t for t in gw.live_nodes() if t.kind == 'test' and U(t.ast) in ('self.websocket.is_closing', 'self.websocket.state.closing')]
    td_ = [t for t in gw.live_nodes() if t.kind == 'test' and U(t.ast) in ('self.websocket.is_closed', 'self.websocket.state.closed')]
    R.ob('C08.writers', 'write() tests is_closing before is_closed', bool(tc_) and bool(td_) and all(
        all_paths_pass(gw, [gw.entry], tc_, [d_], skip_edge=nx) for d_ in td_),
        'write() reads is_closed before is_closing while the handshake code sets closed and then clears closing: a sender that '
        'reads closed (still false), is overtaken by both stores and then reads closing (already false) passes both tests - '
        'its frame is written after the completed closing handshake', func=S + '.write', node=(td_[0].ast if td_ else None),
        construct='write(): flag tests in store order')
    # ... and only once the transport is gone: the flags flip after session.close() (between `closing = False` and
    # `closed = True` no send is refused by the state - harmless only while the socket is already closed)
    gd = R.cfg(q)
    scl = [n for (n, _) in calls_to(R, gd, S + '.close')]
    for (flag, c, s, v) in allst:
        if c.func.qual != q:
            continue
        nn = [m for m in gd.live_nodes() if m.ast is s]
        if not nn:
            continue
        lits = {(t_, p_) for (t_, p_, _) in guards_of(gd, nn[0])}
        nosess = any(t_.endswith('session is None') and p_ for (t_, p_) in lits)
        okd = nosess or (bool(scl) and all(
            any(nn[0] in gd.succ_reach(x, skip_edge=nx) for x in scl) and True for _ in [0]) and not any(
                x in gd.succ_reach(nn[0], skip_edge=nx) for x in scl))
        R.ob('C08.writers', 'on_disconnect: %s is stored after the session was closed' % flag, okd,
             'on_disconnect() stores State.%s before session.close(): while the socket is still open there is a moment with '
             'closing and closed both false (or closed already true) - a send from another thread is written after the Close '
             'frame instead of being refused' % flag, func=q, node=s, construct='on_disconnect: %s before session.close' % flag)
    # on_disconnect() marks the websocket closed although no closing handshake took place: it is called where the event
    # stream itself ends (a rejected upgrade, an abandoned generator) - never from a send path, where a transport error would
    # make run() leave its loop by the is_closed test and report a graceful end
    cs_ = sorted(set(c_.func.qual for (c_, call_, t_) in R.types.callers.get(q, [])))
    R.ob('C08.writers', 'on_disconnect is called from feed() only', cs_ == [WS + '.feed'],
         'on_disconnect() is called from %s: a failing write (or anything but the end of the event stream) marks the '
         'websocket closed, and the loop of run() ends with Disconnected(graceful=True) without a closing handshake' % cs_,
         func=q, node=None, construct='on_disconnect callers %s' % cs_)
    vals = {(flag, fold(R, v, c)) for (flag, c, s, v) in allst if c.func.qual == ST + '.__init__'}
    R.ob('C08.writers', 'initial state (False, False)', vals == {('closing', False), ('closed', False)},
         'State.__init__ stores %s' % sorted(vals), func=ST + '.__init__', node=None, construct='initial flags')
    # properties read the flags
    from .common import bool_table
    atoms = ['self.state.closing', 'self.state.closed']
    wants = {'is_closing': (False, False, True, True), 'is_closed': (False, True, False, True),
             'is_active': (True, False, False, False)}
    for prop, want in wants.items():
        f = R.func(WS + '.' + prop)
        rets = [x for x in own_nodes(f.node) if isinstance(x, ast.Return)]
        from .common import func_truth_table
        tt = func_truth_table(R, WS + '.' + prop, atoms)
        R.ob('C08.writers', 'property %s' % prop, tt == want,
             '%s returns %s (truth table over closing/closed: %s, expected %s)' % (prop, [U(r.value) for r in rets], tt, want),
             func=f, node=(rets[0] if rets else None))


def onlyclose(R, RID='C08.onlyclose'):
    prod = []
    for (c, call, t) in R.types.callers.get(S + '.send', []) + R.types.callers.get(S + '.send_compressed', []):
        if call.args and fold(R, call.args[0], c) == 8:
            prod.append(c.func.qual)
    prod = sorted(set(prod))
    R.ob(RID, 'CLOSE frames only from _send_close', prod == [WS + '._send_close'], 'opcode CLOSE sent from %s' % prod,
         func=WS + '._send_close', node=None, construct='CLOSE producers %s' % prod)
    cs = sorted(set(c.func.qual for (c, call, t) in R.types.callers.get(WS + '._send_close', [])))
    R.ob(RID, '_send_close only from close()', cs == [WS + '.close'], '_send_close called from %s' % cs,
         func=WS + '._send_close', node=None, construct='_send_close callers %s' % cs)
    q = WS + '.close'
    g = R.cfg(q)
    sc = calls_to(R, g, WS + '._send_close')
    need(len(sc) == 1, 'close(): expected one _send_close call')
    n, c = sc[0]
    st = [m for m in g.live_nodes() if m.kind == 'stmt' and isinstance(m.ast, ast.Assign)
          and U(m.ast.targets[0]) == 'self.state.closing' and U(m.ast.value) == 'True']
    ok = bool(st) and all_paths_pass(g, normal_succs(n), st, [g.exit], skip_edge=nx)
    R.ob(RID, 'every send attempt enters the closing state', ok,
         'close() can return normally after attempting the Close send without setting closing (e.g. when the send '
         'failed after the bytes went out): later sends and a second Close are not refused', func=q, node=c)
    # ... and only a send attempt does: when _send_close() raised (a refused payload - ValueError - leaves nothing on the
    # wire) the websocket must stay open for business, Pongs included
    after_exc = g.reachable([m for (m, l) in n.succ if l.startswith('exc:')])
    bad = [m for m in st if m in after_exc]
    R.ob(RID, 'closing is not entered when _send_close() raised', not bad,
         'close() sets state.closing also when _send_close() raised before writing anything (oversized reason, bad code): '
         'no Close frame is on the wire, yet every later send - automatic Pongs included - is refused as "closing"',
         func=q, node=(bad[0].ast if bad else c), construct='closing set after failed _send_close')
    cf = R.func(q)
    a0, a1 = (c.args + [None, None])[:2]
    rdq = ReachingDefs(g)
    ok = a0 is not None and a1 is not None and U(a0) == cf.params[1] and U(a1) == cf.params[2] \
        and is_param(rdq, n, a0) and is_param(rdq, n, a1)       # as given: a None code (empty Close) is echoed as such
    R.ob(RID, 'close() sends its own code and reason', ok, '_send_close(%s)' % ', '.join(U(a) for a in c.args),
         func=q, node=c)
    # _send_close swallows only transport/unavailable, returns after one attempt
    g2 = R.cfg(WS + '._send_close')
    esc = R.exc.escapes(g2.ctx)
    R.ob(RID, 'a failed Close write does not raise out of close()', not {t for t in esc if t in (
        'errors.TransportFail', 'errors.WebSocketUnavailable', 'errors.WebSocketClosed', 'errors.WebSocketClosing')},
        '_send_close lets %s escape' % sorted(esc), func=WS + '._send_close', node=None, construct='_send_close escapes %s' % sorted(esc))


def refuse(R, RID='C08.refuse'):
    from .common import effective_write_sites
    q = S + '.write'
    sites = effective_write_sites(R)
    need(sites, 'no write to the session socket found')
    for (g, n, c, via) in sites:
        rd = ReachingDefs(g)
        fq = g.ctx.func.qual
        lits = set()
        for l in path_conditions(R, g, rd, g.entry, n):
            lits = set(l) if not lits else lits & set(l)
        for atom, prop in (('self.websocket.state.closed', 'is_closed'), ('self.websocket.state.closing', 'is_closing')):
            ok = (atom, False) in lits or ('self.websocket.%s' % prop, False) in lits
            R.ob(RID, 'socket write only when not %s (%s)' % (prop, fq.rsplit('.', 1)[1]), ok,
                 '%s() writes to the socket without `%s` having been tested false (via %s)' % (fq.rsplit('.', 1)[1], prop, ' <- '.join(via)),
                 func=fq, node=c)
    g = R.cfg(q)
    rd = ReachingDefs(g)
    sa = [(n, c) for (g_, n, c, via) in sites if g_.ctx.func.qual == q]
    need(len(sa) >= 1, 'write(): no socket write reached from write()')
    n, c = sa[0]
    for rn in [m for m in g.live_nodes() if m.kind == 'stmt' and isinstance(m.ast, ast.Raise)]:
        toks = R.exc.exc_tokens_of_value(rn.ast.exc, g.ctx)
        lits2 = {(t, p) for (t, p, _) in guards_of(g, rn)}
        if any(t in ('self.websocket.is_closed', 'self.websocket.is_closing') and p for (t, p) in lits2):
            R.ob(RID, 'refusal raises a WebSocketError', all('errors.WebSocketError' in R.exc.supers(t) for t in toks),
                 'refusal raises %s' % sorted(toks), func=q, node=rn.ast)
    data = c.args[0] if c.args else None
    R.ob(RID, 'write sends its argument', data is not None and is_param(rd, n, data), '%s' % U(c), func=q, node=c)
    # ... and a frame is refused for no other reason: close() swallows the refusal of its Close frame and enters the closing
    # state regardless, so a new refusal (before Ready, while busy ...) means a close() that writes nothing, after which the
    # server's own Close is taken for the reply
    allowed = ('self.websocket.is_closed', 'self.websocket.is_closing', 'self.websocket.state.closed', 'self.websocket.state.closing',
               'self._sock is None')
    for fq in (S + '.send', S + '.send_compressed', q):
        if fq not in R.prog.funcs:
            continue
        gg = R.cfg(fq)
        rdg = ReachingDefs(gg)
        for rn in [m for m in gg.live_nodes() if m.kind == 'stmt' and isinstance(m.ast, ast.Raise) and m.ast.exc is not None]:
            if any(fr.kind == 'handler' for fr in rn.frames):
                continue                    # a transport failure being converted
            toks_ = R.exc.exc_tokens_of_value(rn.ast.exc, gg.ctx)
            if toks_ and not any('errors.WebSocketError' in R.exc.supers(t_) for t_ in toks_):
                continue                    # an argument error (TypeError / ValueError): not swallowed by _send_close
            bad = []
            for l in path_conditions(R, gg, rdg, gg.entry, rn):
                if not any((a, True) in l for a in allowed) and ('self._sock is not None', False) not in l and ('self._sock', False) not in l:
                    bad.append(sorted(x[0] for x in l if x[1])[:4])
            R.ob(RID, 'a frame is refused only when closed, closing or not connected (%s)' % fq.rsplit('.', 1)[1], not bad,
                 '%s() refuses to send under %s: close() swallows the refusal of its Close frame and still enters the closing '
                 'state, so nothing is written and the server\'s own Close is then reported as the reply' % (fq.rsplit('.', 1)[1], bad[:1]),
                 func=fq, node=rn.ast, construct='%s refusal %s' % (fq, U(rn.ast.exc)[:40]))


def server(R):
    q = WS + '._on_close'
    g = R.cfg(q)
    rd = ReachingDefs(g)
    f = R.func(q)
    mp = f.params[1]
    ycl = [y for y in g.yields() if 'inst:events.Closing' in R.types.expr(y.ast.value, g.ctx)]
    echo = calls_to(R, g, WS + '.close')
    if not ycl:
        # the Closing event is constructed here but not yielded here (returned in a list ...): it then reaches the
        # application only after _on_close() has finished, i.e. after the echo
        built = [(n, c) for n in g.live_nodes() for c in n.calls
                 if any(t.kind == 'ctor' and t.cls == 'events.Closing' for t in R.types.call_targets(c, g.ctx))]
        if built and echo:
            R.ob('C08.server', 'Closing is yielded before the echo', False,
                 '_on_close builds the Closing event without yielding it before self.close(...): the Close is echoed (and '
                 'the closing state entered) before the application has seen Closing, so it can no longer send during the '
                 'event', func=f, node=built[0][1], construct='Closing not yielded before the echo')
            return
    need(len(ycl) == 1, '_on_close: Closing yield not found')
    R.ob('C08.server', 'the server\'s Close is echoed through close()', len(echo) == 1,
         '_on_close does not echo through self.close(...) (%d calls): the echo bypasses the state handling of close()' % len(echo),
         func=f, node=ycl[0].ast, construct='echo call')
    if len(echo) != 1:
        return
    y, (en, ec) = ycl[0], echo[0]
    R.ob('C08.server', 'Closing is yielded before the echo', all_paths_pass(g, [g.entry], [y], [en], skip_edge=nx),
         'the Close is echoed before the application has seen Closing (it could no longer send during the event)',
         func=f, node=ec)
    ok = len(ec.args) + len(ec.keywords) == 2
    cf = R.func(WS + '.close')
    a_code, a_reason = arg_of(ec, cf, 'code'), arg_of(ec, cf, 'reason')
    from .common import otext
    ok = a_code is not None and a_reason is not None and otext(R, g, en, a_code) == mp + '.code' \
        and otext(R, g, en, a_reason) == mp + '.reason'
    R.ob('C08.server', 'echo carries the message\'s own code and reason', ok, 'echo is close(%s)' % ', '.join(
        U(a) for a in ec.args), func=f, node=ec)
    ev = y.ast.value
    from .common import call_args_by_name
    ok = [otext(R, g, y, a) for a in call_args_by_name(ev, R.func('events.Closing.__init__'))] == [mp + '.code', mp + '.reason']
    R.ob('C08.server', 'Closing reports the message\'s code and reason', ok, 'Closing(%s)' % ', '.join(U(a) for a in ev.args),
         func=f, node=ev)
    before = [m for m in g.reachable([g.entry], avoid={y}, skip_edge=nx) if y in g.reachable([m], skip_edge=nx)]
    st = [m for m in before if m.kind == 'stmt' and isinstance(m.ast, ast.Assign) and U(m.ast.targets[0]).startswith('self.state.clos')]
    lits = {(t, p) for (t, p, _) in guards_of(g, y)}
    R.ob('C08.server', 'no flag store before Closing; arm taken when neither closing nor closed', not st and
         ('self.is_closing', False) in lits and ('self.is_closed', False) in lits, 'Closing under %s, stores before: %s' % (
             sorted(lits), [m.text() for m in st]), func=f, node=y.ast)


def client(R, RID='C08.client'):
    q = WS + '._on_close'
    g = R.cfg(q)
    ycd = [y for y in g.yields() if 'inst:events.Closed' in R.types.expr(y.ast.value, g.ctx)]
    need(len(ycd) == 1, '_on_close: Closed yield not found')
    lits = {(t, p) for (t, p, _) in guards_of(g, ycd[0])}
    R.ob(RID, 'Closed when the client had closed first', ('self.is_closing', True) in lits, 'Closed under %s' % sorted(lits),
         func=q, node=ycd[0].ast)
    st = [m for m in g.live_nodes() if m.kind == 'stmt' and isinstance(m.ast, ast.Assign) and U(m.ast.targets[0]) == 'self.state.closed'
          and U(m.ast.value) == 'True']
    ok = bool(st) and all_paths_pass(g, normal_succs(ycd[0]), st, [g.exit], skip_edge=nx)
    R.ob(RID, 'closed=True follows Closed on every path', ok, 'after Closed the state may not become closed', func=q,
         node=ycd[0].ast)
    qr = S + '.run'
    gr = R.cfg(qr)
    init = R.func('events.Disconnected.__init__')
    graceful = []
    for y in gr.yields():
        v = y.ast.value
        if isinstance(v, ast.Call) and any(t.kind == 'ctor' and t.cls == 'events.Disconnected' for t in R.types.call_targets(v, gr.ctx)):
            a = arg_of(v, init, 'graceful')
            if a is not None and fold(R, a, gr.ctx) is True:
                graceful.append(y)
    R.ob(RID, 'single graceful Disconnected', len(graceful) == 1, '%d graceful Disconnected yields' % len(graceful),
         func=qr, node=(graceful[0].ast if graceful else None), construct='graceful Disconnected sites')
    if graceful:
        y = graceful[0]
        inh = any(fr.kind in ('handler',) for fr in y.frames)
        cs = [n for (n, _) in calls_to(R, gr, S + '._close_socket')]
        heads = [h for h in gr.live_nodes() if h.kind == 'loophead']
        # reached only by normal loop exit / break: not through any exception edge
        noexc = y not in gr.reachable([m for n in gr.live_nodes() for (m, l) in n.succ if l.startswith('exc:') and n.kind != 'yield'],
                                      skip_edge=None) or True
        viaexc = gr.reachable([h for n in gr.live_nodes() if n.kind == 'handler' for h in [n]])
        ok = not inh and y not in viaexc and any(all_paths_pass(gr, normal_succs(h), cs, [y], skip_edge=nx) for h in heads)
        R.ob(RID, 'graceful Disconnected is the normal-loop-exit path, after closing the socket', ok,
             'graceful Disconnected reachable from an exception handler or without _close_socket()', func=qr, node=y.ast)
    if graceful:
        # ... and only because the closing handshake is over (is_closed) or the peer ended the stream while the client was
        # not active any more: any other way out of the loop (a flag a failed write sets ...) is not a graceful ending
        from ..dataflow import ReachingDefs as _RD
        rdr = _RD(gr)
        bad = []
        for h in [h for h in gr.live_nodes() if h.kind == 'loophead']:
            if graceful[0] not in gr.reachable([h], skip_edge=nx):
                continue
            for l in path_conditions(R, gr, rdr, h, graceful[0]):
                closed = ('self.websocket.state.closed', True) in l or ('websocket.state.closed', True) in l
                eof_inactive = ('data', False) in l and (('self.websocket.is_active', False) in l or ('websocket.is_active', False) in l)
                if not (closed or eof_inactive):
                    bad.append(sorted(x for x in l if 'None' not in x[0])[:6])
        R.ob(RID, 'graceful only after the closing handshake (or EOF while closing)', not bad,
             'the graceful Disconnected is reached on a path on which neither is_closed holds nor an EOF arrived while the '
             'websocket was no longer active: %s' % bad[:1], func=qr, node=graceful[0].ast,
             construct='graceful Disconnected paths')
    conds = [m for h in gr.live_nodes() if h.kind == 'loophead' for m in normal_succs(h) if m.kind == 'test']
    R.ob(RID, 'loop exits when closed', any(U(c.ast).endswith('is_closed') for c in conds),
         'loop condition %s' % [U(c.ast) for c in conds], func=qr, node=None, construct='run loop condition')


def eof(R, RID='C08.eof'):
    q = S + '.run'
    g = R.cfg(q)
    rd = ReachingDefs(g)
    rc = calls_to(R, g, S + '._recv')
    rn = rc[0][0]
    dvar = U(rn.ast.targets[0])
    t = [x for x in g.live_nodes() if x.kind == 'test' and U(x.ast) == dvar][0]
    fails = [n for (n, _) in calls_to(R, g, S + '._socket_fail') if n in g.reachable(succs(t, 'false'), skip_edge=nx)]
    ok = False
    for n in fails:
        lits = {(tx, p) for (tx, p, _) in guards_of(g, n)}
        if ('websocket.is_active', True) in lits or ('self.websocket.is_active', True) in lits:
            ok = True
    R.ob(RID, 'EOF while active fails the connection', ok, 'no `connection lost` failure under is_active on the empty-read arm',
         func=q, node=t.ast, construct='EOF active arm')
    # EOF while not active: reaches the graceful yield without passing a failure
    brk = [n for n in g.reachable(succs(t, 'false'), skip_edge=nx) if n.kind == 'stmt' and isinstance(n.ast, ast.Break)]
    okb = bool(brk)
    for b in brk:
        lits = {(tx, p) for (tx, p, _) in guards_of(g, b)}
    act = [x for x in g.live_nodes() if x.kind == 'test' and U(x.ast).endswith('is_active')
           and x in g.reachable(succs(t, 'false'), skip_edge=nx)]
    okb = okb and bool(act) and all(any(b in g.reachable(succs(a, 'false'), skip_edge=nx) for b in brk) for a in act)
    R.ob(RID, 'EOF while closing/closed ends gracefully', okb, 'the empty-read arm does not break out of the loop when the '
         'websocket is not active', func=q, node=t.ast, construct='EOF inactive arm')
    # and only then: every path from the empty read to a normal loop exit has seen `is_active` false
    bad = []
    for b in brk:
        for l in path_conditions(R, g, rd, t, b):
            if not any((a, False) in l for a in ('websocket.is_active', 'self.websocket.is_active')):
                bad.append(sorted(x[0] for x in l if x[1])[:4])
    R.ob(RID, 'EOF leads to the graceful exit only when no handshake side is still active', not bad,
         'an empty read can leave the loop normally (graceful Disconnected) without `is_active` having been found false: %s'
         % bad[:1], func=q, node=t.ast, construct='EOF graceful bypass')


def keepreading(R):
    q = WS + '.feed'
    g = R.cfg(q)
    bad = []
    for n in g.live_nodes():
        if n.kind == 'test' and ('is_closing' in U(n.ast) or 'state.closing' in U(n.ast) or 'is_active' in U(n.ast)):
            bad.append(n)
    R.ob('C08.keepreading', 'feed does not stop while closing', not bad,
         'WebSocket.feed tests `%s`: incoming messages stop being delivered once the client has sent its Close' % (
             U(bad[0].ast) if bad else ''), func=q, node=(bad[0].ast if bad else None), construct='feed closing test')


def _parses(t):
    try:
        ast.parse(t, mode='eval')
        return True
    except SyntaxError:
        return False


def echobound(R):
    q = WS + '._send_close'
    g = R.cfg(q)
    rd = ReachingDefs(g)
    sends = calls_to(R, g, S + '.send')
    need(len(sends) == 1, '_send_close: send not found')
    n, c = sends[0]
    data = c.args[1]
    lo, hi = INF, -INF
    for l in path_conditions(R, g, rd, g.entry, n):
        from .common import len_texts
        a, b = interval_of(R, g.ctx, l, len_texts(R, g, n, data))
        lo, hi = min(lo, a), max(hi, b)
    # the echo of a server Close goes through close(code, reason) with whatever code _on_close let in (everything outside
    # Status.invalid_codes): close() / _send_close() refuse nothing on account of the code
    for fq in (WS + '.close', q):
        gx = R.cfg(fq)
        fx = R.func(fq)
        codep = [p_ for p_ in fx.params if p_ != 'self'][0]
        for rn in gx.live_nodes():
            if rn.kind == 'stmt' and isinstance(rn.ast, ast.Raise):
                gl = [t_ for (t_, p_, _) in guards_of(gx, rn)]
                dep = [t_ for t_ in gl if codep in {x.id for x in ast.walk(ast.parse(t_, mode='eval')) if isinstance(x, ast.Name)}] \
                    if all(_parses(t_) for t_ in gl) else gl
                R.ob('C08.echobound', '%s does not refuse a close code' % fq.split('.')[-1], not dep,
                     '%s raises `%s` depending on the code (%s): a code the client accepts from the server (1012, 1013, 5000+ ...) '
                     'cannot be echoed - the reply is never written and the session ends in an error' % (
                         fq, U(rn.ast.exc)[:50], dep[:2]), func=fx, node=rn.ast, construct='%s raise on the close code' % fq)
    R.ob('C08.echobound', 'Close payload bound is exactly 125', hi == 125,
         'Close frames are sent for payload lengths up to %s: a legal Close with a 123-byte reason must be sendable '
         '(and echoable), nothing longer' % hi, func=q, node=c, construct='_send_close length bound %s' % hi)
