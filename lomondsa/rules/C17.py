"""C17 - each connect() starts from a clean slate (ownership / freshness of per-connection state)."""
import ast

from ..program import AnalysisError, U, own_nodes, walk_no_nested
from ..dataflow import ReachingDefs, defs_of_node
from ..consteval import fold
from .common import (need, guards_of, calls_to, all_paths_pass, succs, normal_succs, path_conditions,
                     is_param, arg_of, default_of, stores_in_package)

PROPERTY = 'C17'
LEVEL = 'other'
EXPLANATION = (
    'Ownership argument decided structurally: connect() replaces self.state by a freshly constructed State before the '
    'session and the run generator are created; outside __init__ the WebSocket object mutates nothing but self.state '
    '(tabled exception: the add_header configuration list); every State field - and, transitively, every field of the '
    'classes reachable from State/WebsocketSession - is initialised inside __init__ from a literal, a constructor call '
    'evaluated there, or fresh random data, never from a parameter carrying an older object, a class-level mutable or '
    'a module-level instance; no connection-path function writes module-level state (tabled: the content-constant '
    'Opcode name cache); a new session object with fresh socket/timer/buffer fields is created per connect().'
    ' Also decided: package-wide isolation (objects created once per class or per function definition - class-level attributes, parameter defaults - are only read), so that no buffer, validator, cache, lock or option table is shared between connections by accident.')
NOT_DECIDED = 'event-for-event equality with a fresh object (relational); follows if no state survives'
ASSUMPTIONS = ['no monkey-patching / setattr from outside the package']

WS = 'websocket.WebSocket'
ST = WS + '.State'
nx = lambda a, b, l: l.startswith('exc:')
CLOSURE = [ST, 'session.WebsocketSession', 'stream.WebsocketStream', 'frame_parser.ClientFrameParser',
           'frame_parser.FrameParser', 'parser.Parser', 'utf8validator.Utf8Validator', 'compression.Deflate',
           'selectors.SelectorBase', 'selectors.PollSelector', 'selectors.SelectSelector', 'selectors.KQueueSelector']
# fields that legitimately hold an object handed in from outside (owner back-references / OS handles)
BACKREF = {('session.WebsocketSession', 'websocket'): 'the session\'s owner back-reference, set once per new session',
           ('selectors.SelectorBase', '_socket'): 'the connection\'s own socket, one selector per run()'}
MUTABLE_CTORS = {'list', 'dict', 'set', 'bytearray', 'defaultdict', 'deque'}


def check(run):
    R = run
    R.rule('C17.shared', 'objects created once per class / per function definition (class-level attributes, parameter '
           'defaults) are only read: no buffer, validator, poll object, header list or option dict is shared between '
           'connections', 1)
    from .common import shared_state
    shared_state(R, 'C17.shared')
    R.rule('C17.reset', 'connect() replaces self.state with a newly constructed State (directly or via reset) before '
                        'creating the session and the run generator; __iter__ is connect', 4)
    R.rule('C17.owner', 'outside __init__, WebSocket methods store/mutate only self.state.* (tabled: _headers.append)', 1)
    R.rule('C17.fresh', 'every field of the per-connection classes is initialised in __init__ from a literal, a '
                        'constructor call evaluated there, or fresh data - never from a parameter object or shared '
                        'instance (tabled back-references excepted)', 20)
    R.rule('C17.closure', 'no mutable class-level attribute or mutable default argument in the per-connection classes; '
                          'every field stored by a method is initialised in the __init__ chain; no module-level state '
                          'written on connection paths', 10)
    R.rule('C17.session', 'a new session per connect(), stored in the new state; session __init__ resets socket, '
                          'timers, readiness and buffer', 8)
    reset(R)
    owner(R)
    fresh(R)
    closure(R)
    session(R)
    from . import C05
    C05.awaitables_fresh(R, RID='C17.closure')     # read requests are per read, not module / parser-lifetime objects
    from .common import oneshot_fields
    oneshot_fields(R, 'C17.closure')
    from . import C16 as _C16, C08 as _C08
    _C16.connect_at_loop(R, 'C17.reset')         # persist() resets the object when the new attempt starts, not before
    with R.as_rule('C17.owner'):
        _C08.writers(R)          # the old session's loop does not write the (new) State: on_disconnect only from feed()
    from . import C09 as _C09
    with R.as_rule('C17.session'):
        _C09.tryall(R)           # every connect() resolves the host again and walks the addresses it got (no address memo)               # what a second connect() reads again can be read again


def _is_fresh_state(R, ctx, v):
    return isinstance(v, ast.Call) and not v.args and not v.keywords and \
        any(t.kind == 'ctor' and t.cls == ST for t in R.types.call_targets(v, ctx))


def reset(R):
    q = WS + '.connect'
    g = R.cfg(q)
    rd = ReachingDefs(g)
    # nodes that install a fresh state: `self.state = self.State()` or a call to reset() whose every path does so
    fresh_nodes = []
    gr = R.cfg(WS + '.reset')
    rs = [n for n in gr.live_nodes() if n.kind == 'stmt' and isinstance(n.ast, ast.Assign)
          and any(U(t) == 'self.state' for t in n.ast.targets)]
    reset_ok = bool(rs) and all(_is_fresh_state(R, gr.ctx, n.ast.value) for n in rs) and \
        all_paths_pass(gr, [gr.entry], rs, [gr.exit], skip_edge=nx)
    other_stores = [n for n in gr.live_nodes() if n.kind == 'stmt' and isinstance(n.ast, (ast.Assign, ast.AugAssign))
                    and n not in rs]
    R.ob('C17.reset', 'reset() installs a newly constructed State()', reset_ok,
         'reset() does not replace self.state by State() on every path (field-by-field re-initialisation can forget a '
         'field): %s' % [n.text() for n in gr.live_nodes() if n.kind == 'stmt'][:4], func=WS + '.reset', node=None,
         construct='reset body')
    for n in g.live_nodes():
        if n.kind == 'stmt' and isinstance(n.ast, ast.Assign) and any(U(t) == 'self.state' for t in n.ast.targets) \
                and _is_fresh_state(R, g.ctx, n.ast.value):
            fresh_nodes.append(n)
    if reset_ok:
        fresh_nodes += [n for (n, _) in calls_to(R, g, WS + '.reset')]
    sess = [n for n in g.live_nodes() if n.kind == 'stmt' and isinstance(n.ast, ast.Assign)
            and any(U(t) == 'self.state.session' for t in n.ast.targets)]
    runs = [n for (n, _) in calls_to(R, g, 'session.WebsocketSession.run')]
    need(sess and runs, 'connect(): session construction / run() call not found')
    for tgt, what in ((sess, 'the session is created'), (runs, 'the event generator is created')):
        ok = bool(fresh_nodes) and all(all_paths_pass(g, [g.entry], fresh_nodes, [t], skip_edge=nx) for t in tgt)
        R.ob('C17.reset', 'fresh state before %s' % what, ok,
             'connect() can reach the point where %s without having installed a new State' % what, func=q,
             node=tgt[0].ast, construct='connect: fresh state before ' + what)
    # ... on every way through connect(): a path that returns (some other iterator) without a reset keeps the old State
    ok = bool(fresh_nodes) and all_paths_pass(g, [g.entry], fresh_nodes, [g.exit], skip_edge=nx)
    rets = [n for n in g.live_nodes() if n.kind == 'stmt' and isinstance(n.ast, ast.Return)]
    ok = ok and all(r_ in runs or any(r_ in g.succ_reach(x, skip_edge=nx) for x in runs) for r_ in rets)
    R.ob('C17.reset', 'every connect() resets and runs a new session', ok,
         'connect() has a path that returns without installing a new State / without starting session.run(): however the '
         'previous connection ended, that connect() does not behave like one on a fresh WebSocket', func=q, node=None,
         construct='connect: every path resets')
    c = R.prog.cls(WS)
    it = c.attrs.get('__iter__')
    R.ob('C17.reset', '__iter__ is connect', bool(it) and U(it[-1]) == 'connect', '__iter__ = %s' % (U(it[-1]) if it else None),
         func=q, node=None, construct='__iter__')


def owner(R):
    c = R.prog.cls(WS)
    bad = []
    for name, fi in c.methods.items():
        if name == '__init__':
            continue
        for n in own_nodes(fi.node):
            tgts = []
            if isinstance(n, ast.Assign):
                tgts = n.targets
            elif isinstance(n, (ast.AugAssign, ast.AnnAssign)):
                tgts = [n.target]
            elif isinstance(n, ast.Delete):
                tgts = n.targets
            for t in tgts:
                for el in (t.elts if isinstance(t, (ast.Tuple, ast.List)) else [t]):
                    base = el
                    while isinstance(base, (ast.Attribute, ast.Subscript)):
                        base = base.value
                    if isinstance(el, (ast.Attribute, ast.Subscript)) and isinstance(base, ast.Name) and base.id == 'self':
                        chain = U(el)
                        if not (chain == 'self.state' or chain.startswith('self.state.')):
                            bad.append((fi, n, chain))
            # in-place mutation through method calls on self.<field> (not self.state)
            if isinstance(n, ast.Call) and isinstance(n.func, ast.Attribute) and \
                    n.func.attr in ('append', 'extend', 'insert', 'pop', 'remove', 'clear', 'update', 'add', 'discard',
                                    'setdefault', 'sort', 'reverse'):
                recv = U(n.func.value)
                if recv.startswith('self.') and not recv.startswith('self.state'):
                    if (name, recv) == ('add_header', 'self._headers'):
                        continue          # tabled: request configuration, not connection state
                    bad.append((fi, n, recv + '.' + n.func.attr))
    # in-place mutation through a local alias of a field (headers = self._headers; headers.extend(...))
    for name, fi in c.methods.items():
        if name == '__init__':
            continue
        aliases = {}
        for n in own_nodes(fi.node):
            if isinstance(n, ast.Assign) and len(n.targets) == 1 and isinstance(n.targets[0], ast.Name) \
                    and isinstance(n.value, ast.Attribute) and U(n.value).startswith('self.') and not U(n.value).startswith('self.state'):
                aliases[n.targets[0].id] = U(n.value)
        for n in own_nodes(fi.node):
            if isinstance(n, ast.Call) and isinstance(n.func, ast.Attribute) and isinstance(n.func.value, ast.Name) \
                    and n.func.value.id in aliases and n.func.attr in ('append', 'extend', 'insert', 'pop', 'remove', 'clear',
                                                                        'update', 'add', 'sort', 'reverse', 'setdefault'):
                # the alias must not have been re-bound to a copy in between: single assignment of that name
                binds = [x for x in own_nodes(fi.node) if isinstance(x, ast.Assign) and any(
                    isinstance(t, ast.Name) and t.id == n.func.value.id for t in x.targets)]
                if len(binds) == 1:
                    bad.append((fi, n, '%s (alias of %s).%s' % (n.func.value.id, aliases[n.func.value.id], n.func.attr)))
    # nobody keeps the event generator: a suspended generator of the previous connection that is dropped by reset()
    # is finalised *after* the new State is installed, and its cleanup then acts on the new connection
    for name, fi in c.methods.items():
        cx = R.types.ctxs.get((fi.qual, WS))
        if cx is None:
            continue
        for n in own_nodes(fi.node):
            if isinstance(n, ast.Assign):
                for t in n.targets:
                    if isinstance(t, ast.Attribute) and any(isinstance(x, str) and x.startswith('gen:session.WebsocketSession.run')
                                                             for x in R.types.expr(n.value, cx)):
                        bad.append((fi, n, '%s = <event generator>' % U(t)))
    R.ob('C17.owner', 'WebSocket mutates only self.state outside __init__', not bad,
         '%s writes %s: state kept on the WebSocket object survives reconnects' % (
             bad[0][0].qual if bad else '', bad[0][2] if bad else ''), func=(bad[0][0] if bad else WS + '.connect'),
         node=(bad[0][1] if bad else None), construct=('store %s' % bad[0][2]) if bad else 'no foreign stores')


def _init_chain(R, cls):
    out = []
    for q in R.prog.mro(cls):
        fi = R.prog.classes[q].methods.get('__init__')
        if fi is not None:
            out.append(fi)
    return out


def _value_kind(R, ctx, v, params):
    """'literal' | 'ctor' | 'fresh' | 'param:<name>' | 'other'"""
    if isinstance(v, ast.Constant):
        return 'literal'
    if isinstance(v, (ast.List, ast.Dict, ast.Set, ast.Tuple)) and not v.__dict__.get('elts', v.__dict__.get('keys', [])):
        return 'literal'
    if isinstance(v, ast.Name) and v.id in params:
        return 'param:' + v.id
    if isinstance(v, ast.Call):
        ts = R.types.call_targets(v, ctx)
        argnames = {x.id for a in list(v.args) + [k.value for k in v.keywords] for x in walk_no_nested(a)
                    if isinstance(x, ast.Name)}
        if ts and all(t.kind == 'ctor' for t in ts):
            carried = sorted(argnames & set(params))
            return 'ctor' if not carried else 'ctor-with-param:' + ','.join(carried)
        if ts and all(t.kind in ('ext', 'builtin', 'bm') for t in ts):
            return 'fresh'
        if ts and all(t.kind == 'func' for t in ts):
            return 'call'
    if isinstance(v, ast.Attribute):
        return 'attr'
    if isinstance(v, ast.Tuple):
        return 'literal'
    return 'other'


def fresh(R):
    sc = R.prog.cls(ST)
    R.ob('C17.fresh', 'State has no class-level data', not [a for a in sc.attrs if not a.startswith('__')],
         'State defines class-level attributes %s (shared by every connection)' % sorted(sc.attrs), func=ST + '.__init__',
         node=None, construct='State class attrs %s' % sorted(sc.attrs))
    init = R.func(ST + '.__init__')
    R.ob('C17.fresh', 'State() takes no arguments', init.params == ['self'],
         'State.__init__ accepts %s: an older object can be carried into the new state' % init.params[1:], func=init,
         node=None, construct='State.__init__ params %s' % init.params)
    for cls in CLOSURE:
        if cls not in R.prog.classes:
            continue
        for fi in _init_chain(R, cls):
            if fi.cls.qual != cls and fi.cls.qual in CLOSURE:
                continue        # reported under its own class
            ctx = R.ctx(fi.qual, cls)
            params = [p for p in fi.params if p != 'self']
            for s in own_nodes(fi.node):
                if not isinstance(s, ast.Assign):
                    continue
                for t in s.targets:
                    if not (isinstance(t, ast.Attribute) and U(t.value) == 'self'):
                        continue
                    kind = _value_kind(R, ctx, s.value, params)
                    holds = [x for x in R.types.expr(s.value, ctx) if isinstance(x, str) and x.startswith('inst:')]
                    ok = True
                    why = ''
                    if kind.startswith('param:') or kind.startswith('ctor-with-param'):
                        pname = kind.split(':', 1)[1]
                        if holds and (fi.cls.qual, t.attr) not in BACKREF and (cls, t.attr) not in BACKREF:
                            ok = False
                            why = 'field %s.%s is initialised from constructor parameter `%s` holding %s: an object ' \
                                  'from a previous connection can be carried over' % (cls, t.attr, pname, sorted(holds))
                    elif kind in ('attr', 'other', 'call') and holds:
                        ok = False
                        why = 'field %s.%s is initialised from %s (not a constructor call evaluated in __init__)' % (
                            cls, t.attr, U(s.value))
                    R.ob('C17.fresh', '%s.%s initialised fresh' % (cls.split('.')[-1], t.attr), ok, why, func=fi, node=s)


def closure(R):
    for cls in CLOSURE:
        if cls not in R.prog.classes:
            continue
        c = R.prog.classes[cls]
        bad = []
        for name, vals in c.attrs.items():
            for v in vals:
                if isinstance(v, (ast.List, ast.Dict, ast.Set, ast.ListComp, ast.DictComp, ast.SetComp)) and name != '__slots__':
                    bad.append(name)
                if isinstance(v, ast.Call) and (U(v.func) in MUTABLE_CTORS or any(
                        t.kind == 'ctor' for t in R.types.call_targets(v, R.types._modctx(list(c.methods.values())[0])
                                                                       if c.methods else None) if c.methods)):
                    bad.append(name)
        R.ob('C17.closure', '%s: no mutable class-level attribute' % cls.split('.')[-1], not bad,
             'class-level mutable attribute(s) %s on %s are shared by all connections' % (sorted(set(bad)), cls),
             func=(list(c.methods.values())[0] if c.methods else None), node=None, construct='%s class attrs %s' % (cls, sorted(set(bad))))
        for name, fi in c.methods.items():
            a = fi.node.args
            for d in list(a.defaults) + [x for x in a.kw_defaults if x is not None]:
                mut = isinstance(d, (ast.List, ast.Dict, ast.Set)) or (isinstance(d, ast.Call) and (
                    U(d.func) in MUTABLE_CTORS or any(t.kind == 'ctor' for t in R.types.call_targets(d, R.types._modctx(fi)))))
                if mut:
                    R.ob('C17.closure', '%s.%s: no mutable default argument' % (cls.split('.')[-1], name), False,
                         'mutable default argument %s' % U(d), func=fi, node=d)
        # every field stored by a method is initialised in the __init__ chain (or has an immutable class-level default:
        # a number, a string, None - each instance starts from that value)
        inited = set()
        for q_ in R.prog.mro(cls):
            for name_, vals_ in R.prog.classes[q_].attrs.items():
                if vals_ and all(isinstance(v_, ast.Constant) for v_ in vals_):
                    inited.add(name_)
        for fi in _init_chain(R, cls):
            for s in own_nodes(fi.node):
                if isinstance(s, ast.Assign):
                    for t in s.targets:
                        if isinstance(t, ast.Attribute) and U(t.value) == 'self':
                            inited.add(t.attr)
            # fields initialised through helper methods called from __init__ (reset(), reset_compressor(), ...)
            for s in own_nodes(fi.node):
                if isinstance(s, ast.Call) and isinstance(s.func, ast.Attribute) and U(s.func.value) == 'self':
                    m = R.prog.find_method(cls, s.func.attr)
                    if m is not None:
                        for s2 in own_nodes(m.node):
                            if isinstance(s2, ast.Assign):
                                for t in s2.targets:
                                    if isinstance(t, ast.Attribute) and U(t.value) == 'self':
                                        inited.add(t.attr)
        missing = set()
        for q in R.prog.mro(cls):
            for name, fi in R.prog.classes[q].methods.items():
                if name == '__init__':
                    continue
                for s in own_nodes(fi.node):
                    if isinstance(s, (ast.Assign, ast.AugAssign)):
                        for t in (s.targets if isinstance(s, ast.Assign) else [s.target]):
                            if isinstance(t, ast.Attribute) and U(t.value) == 'self' and t.attr not in inited:
                                missing.add((fi.qual, t.attr))
        for q in R.prog.mro(cls):
            for name, fi in R.prog.classes[q].methods.items():
                for x in own_nodes(fi.node):
                    if isinstance(x, ast.Attribute) and U(x.value) == 'self' and x.attr not in inited \
                            and not x.attr.startswith('__') and R.prog.find_method(cls, x.attr) is None \
                            and R.prog.class_attr(cls, x.attr) is None and (R.prog.classes[cls].slots is None or True):
                        slots = set()
                        missing.add((fi.qual, x.attr))
        R.ob('C17.closure', '%s: every stored field is initialised per instance' % cls.split('.')[-1], not missing,
             'fields written by methods but not initialised in __init__: %s' % sorted(missing), func=None, node=None,
             construct='%s uninitialised %s' % (cls, sorted(missing)))
    # module-level state written from functions
    bad = []
    for q, fi in R.prog.funcs.items():
        if fi.module.name.startswith('examples'):
            continue
        for s in own_nodes(fi.node):
            if isinstance(s, ast.Global):
                bad.append((fi, s, 'global ' + ', '.join(s.names)))
            if isinstance(s, (ast.Assign, ast.AugAssign)):
                for t in (s.targets if isinstance(s, ast.Assign) else [s.target]):
                    if isinstance(t, ast.Attribute):
                        for ty in R.types.expr(t.value, R.types.ctxs.get((fi.qual, fi.cls.qual if fi.cls else None))
                                               or R.types._modctx(fi)):
                            if isinstance(ty, str) and (ty.startswith('mod:') or ty.startswith('cls:')):
                                if (fi.qual, t.attr) == ('opcode.Opcode.to_str', '_opcode_to_str'):
                                    continue      # tabled: lazily built, content-constant name cache
                                bad.append((fi, s, U(t)))
            if isinstance(s, ast.Call) and isinstance(s.func, ast.Attribute) and \
                    s.func.attr in ('append', 'extend', 'add', 'update', 'setdefault', 'pop', 'clear', 'insert'):
                base = s.func.value
                if isinstance(base, ast.Name) and base.id not in R.types.locals_of(fi):
                    r = R.prog.lookup(fi.module, base.id)
                    if r and r[0] == 'global':
                        bad.append((fi, s, U(s.func)))
    R.ob('C17.closure', 'no module-level state written by package functions', not bad,
         '%s mutates module/class-level state `%s`' % (bad[0][0].qual if bad else '', bad[0][2] if bad else ''),
         func=(bad[0][0] if bad else None), node=(bad[0][1] if bad else None), construct=('global store %s' % bad[0][2]) if bad else '')
    # deferred work (timers, threads, exit hooks) started for one connection must not find the *next* one when it runs: a
    # callable that is a bound method of the long-lived WebSocket (or a closure over it) resolves self.state / self.session at
    # the time it fires - after a reconnect that is the new connection
    deferred = []
    seenq = set()
    for cx in R.types.ctxs.values():
        fi = cx.func
        if fi.qual in seenq or fi.module.name.startswith('examples') or fi.module.name in ('persist',):
            continue
        seenq.add(fi.qual)
        for s in own_nodes(fi.node):
            if not isinstance(s, ast.Call):
                continue
            nm = U(s.func).rsplit('.', 1)[-1]
            if nm not in ('Timer', 'Thread', 'start_new_thread', 'register', 'call_later', 'submit'):
                continue
            if nm == 'register' and not U(s.func).startswith('atexit'):
                continue
            cand = list(s.args) + [k.value for k in s.keywords if k.arg in ('function', 'target', 'func', 'fn')]
            for a in cand:
                own = isinstance(a, ast.Attribute) and U(a.value) == 'self' and fi.cls is not None and fi.cls.qual == WS
                lazy = isinstance(a, ast.Lambda) or (isinstance(a, ast.Name) and any(
                    f2.parent is not None and f2.parent.qual == fi.qual and f2.name == a.id for f2 in R.prog.funcs.values()))
                if own or lazy:
                    deferred.append((fi, s, U(a)))
    R.ob('C17.closure', 'no deferred callback bound to the long-lived WebSocket', not deferred,
         '%s starts deferred work `%s` whose callable `%s` looks up the connection when it fires: a timer / thread armed for one '
         'connection (and cancelled only on some endings) acts on the session of the next connect()' % (
             deferred[0][0].qual if deferred else '', U(deferred[0][1])[:60] if deferred else '', deferred[0][2] if deferred else ''),
         func=(deferred[0][0] if deferred else None), node=(deferred[0][1] if deferred else None),
         construct=('deferred %s' % deferred[0][2]) if deferred else '')


def session(R):
    q = WS + '.connect'
    g = R.cfg(q)
    rd = ReachingDefs(g)
    f = R.func(q)
    st = [n for n in g.live_nodes() if n.kind == 'stmt' and isinstance(n.ast, ast.Assign)
          and any(U(t) == 'self.state.session' for t in n.ast.targets)]
    # (the object may be built into a local first: `session = session_class(self); self.state.session = session`)
    ctor, cn = (rd.origin(st[0], st[0].ast.value) if st else (None, None))
    ok = len(st) == 1 and isinstance(ctor, ast.Call) and U(ctor.func) == 'session_class' \
        and [U(a) for a in ctor.args] == ['self'] and is_param(rd, cn, ctor.func, 'session_class')
    R.ob('C17.session', 'new session object per connect()', ok, 'state.session = %s' % (U(st[0].ast.value) if st else None),
         func=f, node=(st[0].ast if st else None))
    d = default_of(f, 'session_class')
    R.ob('C17.session', 'default session class', d is not None and U(d) == 'WebsocketSession', 'session_class default %s' % U(d),
         func=f, node=None, construct='session_class default')
    rc = calls_to(R, g, 'session.WebsocketSession.run')
    ok = len(rc) >= 1
    for (rn_, rc_) in rc:
        recv = rc_.func.value if isinstance(rc_.func, ast.Attribute) else None
        ok = ok and isinstance(recv, ast.Name) and bool(st) and rd.defs_at(rn_, recv.id) in ({st[0]}, {cn})
    R.ob('C17.session', 'run() is started on the new session', bool(ok), 'run generator created on %s' % (
        U(rc[0][1].func) if rc else None), func=f, node=(rc[0][1] if rc else None))
    init = R.func('session.WebsocketSession.__init__')
    vals = {}
    for s in own_nodes(init.node):
        if isinstance(s, ast.Assign):
            for t_ in s.targets:
                if isinstance(t_, ast.Attribute) and U(t_.value) == 'self':
                    vals[t_.attr] = s.value
    for fld, want in (('_sock', 'None'), ('_poll_start', 'None'), ('_next_ping', 'None'), ('_last_pong', 'None'),
                      ('_start_time', 'None'), ('_ready', 'False')):
        R.ob('C17.session', 'session.%s starts as %s' % (fld, want), fld in vals and U(vals[fld]) == want,
             'WebsocketSession.__init__: %s = %s' % (fld, U(vals.get(fld))), func=init, node=vals.get(fld),
             construct='session init %s' % fld)
    b = vals.get('_buffer')
    R.ob('C17.session', 'fresh receive buffer per session', b is not None and isinstance(b, ast.Call) and U(b.func) == 'bytearray',
         '_buffer = %s' % U(b), func=init, node=b, construct='session buffer')
    lk = vals.get('_lock')
    R.ob('C17.session', 'fresh lock per session', lk is not None and U(lk) in ('threading.Lock()', 'threading.RLock()'),
         '_lock = %s' % U(lk), func=init, node=lk, construct='session lock')
