"""C06 - permessage-deflate: wiring / gating clauses (losslessness itself is a runtime-value property)."""
import ast

from ..program import AnalysisError, U, own_nodes, walk_no_nested
from ..dataflow import ReachingDefs, defs_of_node
from ..consteval import fold
from .common import (need, guards_of, calls_to, ext_calls, all_paths_pass, succs, normal_succs, path_conditions,
                     is_param, interval_of, arg_of, default_of, INF, stores_in_package)
from . import C03

PROPERTY = 'C06'
LEVEL = 'other'
EXPLANATION = (
    'C06 as a whole (round-trip losslessness over message histories) is a runtime-value property and is NOT decided. '
    'Decided are its structural necessary conditions: negotiated option names reach the matching zlib constructor '
    'argument / reset flag by provenance; both zlib objects are raw-deflate with a window evaluated over 8..15; '
    'get_wbits accepts exactly 8..15; the sync-flush trailer stripped on send equals the one appended (once per '
    'message) on receive; RSV1 is set only on compressor output and compressor output is always sent with RSV1; '
    'inflation is selected by RSV1 of the first frame and applied to the whole fragment list in order; inflate '
    'errors become CriticalProtocolError; one Deflate object serves both directions.'
    ' Also decided: package-wide isolation (objects created once per class or per function definition - class-level attributes, parameter defaults - are only read), so that no buffer, validator, cache, lock or option table is shared between connections by accident.')
NOT_DECIDED = ('losslessness, context-takeover histories, zlib behaviour, fragmentation of compressed messages as '
               'values, header spellings')
ASSUMPTIONS = ['zlib raw deflate/inflate with matching windows round-trips', 'zlib accepts wbits -9..-15 for raw '
               'deflate; an 8-bit window is requested as 9 (zlib limitation) and never emits distances > 256']

DF = 'compression.Deflate'
nx = lambda a, b, l: l.startswith('exc:')


def check(run):
    R = run
    R.rule('C06.shared', 'objects created once per class / per function definition (class-level attributes, parameter '
           'defaults) are only read: no buffer, validator, poll object, header list or option dict is shared between '
           'connections', 1)
    from .common import shared_state
    shared_state(R, 'C06.shared')
    R.rule('C06.wiring', 'option name -> constructor slot -> field -> zlib constructor argument / reset-flag test, '
                         'for the four negotiated parameters', 4)
    R.rule('C06.raw', 'both zlib objects are raw deflate (negative wbits) depending on the negotiated field; '
                      '|wbits| over 8..15 is w (compressor: max(9, w))', 2)
    R.rule('C06.range', 'get_wbits returns only integers in 8..15, defaults to 15, and otherwise raises '
                        'CompressionParameterError (a HandshakeError)', 3)
    R.rule('C06.tail', 'compress strips exactly the 4-byte sync-flush trailer after a Z_SYNC_FLUSH; decompress feeds '
                       'every frame payload in order and then 00 00 ff ff exactly once', 5)
    R.rule('C06.rsv1', 'RSV1 only on compressor output, compressor output always with RSV1; inflation selected by '
                       'RSV1 of the first frame and a negotiated decompressor, over the whole fragment list', 6)
    R.rule('C06.fail', 'inflate errors are turned into CriticalProtocolError', 1)
    R.rule('C06.activate', 'the negotiated Deflate object is stored in the state and handed to the stream (same '
                           'object), only writer of State.compression besides None', 3)
    R.rule('C06.parse', 'extension parameters: keys and values stripped of surrounding white space (and quotes) so that '
                        'every spelling of a parameter reaches the option name looked up', 3)
    R.rule('C06.route', 'how a frame payload is read (validated as text or raw) depends only on per-message state that '
                        'control frames cannot change; compressed payloads are never UTF-8 validated before inflation', 6)
    parse_ext(R)
    from . import C10 as _C10
    with R.as_rule('C06.parse'):
        _C10.headers(R)          # the parameters reach parse_extension however the header is folded, cased or repeated
    from . import C05
    with R.as_rule('C06.route'):
        C05.route(R)
        C05.track(R)
    wiring(R)
    one_context(R, 'C06.wiring')
    from .common import no_send_retry
    no_send_retry(R, 'C06.wiring')       # nothing is compressed twice for one transmission
    from .common import stale_refs
    stale_refs(R, 'C06.wiring')
    raw(R)
    rng(R)
    tail(R)
    C03.rsv1gate(R, RID='C06.rsv1')
    rsv1_in(R)
    from . import C01 as _C01
    _C01.accept(R, RID='C06.rsv1')      # no compressed frame a conforming peer may send (RSV1 on a first fragment) is refused
    fail(R)
    activate(R)
    from . import C02 as _C02b, C11 as _C11b
    with R.as_rule('C06.activate'):
        _C02b.nosnapshot(R)      # ... and is read when used: messages in the same read as the handshake are inflated
    with R.as_rule('C06.wiring'):
        _C11b.locked(R)          # compressed frames go out whole (all socket writes inside the lock)
    from . import C02 as _C02
    _C02.parser_lifetime(R, RID='C06.activate')      # compression is switched on in the running parser, not in a new one
    from . import C01
    C01.alias(R, RID='C06.tail')     # inflate input / output never alias the reused receive buffer
    with R.as_rule('C06.tail'):
        C01.conserve(R)              # the inflater is fed every fragment of the message, the (empty) first one that carries
        C01.join(R)                  # RSV1 included: no frame is dropped or queued twice on the way to Message.build


def parse_ext(R, RID='C06.parse'):
    q = 'extension.parse_extension'
    f = R.func(q)
    g = R.cfg(q)
    rd = ReachingDefs(g)
    # find where option entries are created: subscript stores options[K] = V, or a dict comprehension {K: V ...}
    entries = []
    for n in own_nodes(f.node):
        if isinstance(n, ast.Assign) and isinstance(n.targets[0], ast.Subscript):
            entries.append((n.targets[0].slice, n.value, n))
        elif isinstance(n, ast.DictComp):
            entries.append((n.key, n.value, n))
        elif isinstance(n, ast.Call) and isinstance(n.func, ast.Name) and n.func.id == 'dict' and len(n.args) == 1 \
                and isinstance(n.args[0], (ast.GeneratorExp, ast.ListComp)):
            elt = n.args[0].elt
            if isinstance(elt, ast.Tuple) and len(elt.elts) == 2:
                entries.append((elt.elts[0], elt.elts[1], n))
            elif isinstance(elt, ast.Call) and isinstance(elt.func, ast.Name):
                # dict(helper(token) for token in ...): the pair is what the helper returns
                hf = R.prog.funcs.get(f.module.name + '.' + elt.func.id)
                if hf is not None:
                    for r_ in own_nodes(hf.node):
                        if isinstance(r_, ast.Return) and isinstance(r_.value, ast.Tuple) and len(r_.value.elts) == 2:
                            entries.append((r_.value.elts[0], r_.value.elts[1], (r_, hf)))
    need(entries, 'parse_extension: option entries not found')

    def stripped(e, node):
        # the expression (or the single definition of the name it reads) ends in .strip(...)
        seen = 0
        fnode = node[1].node if isinstance(node, tuple) else f.node
        while isinstance(e, ast.Name) and seen < 3:
            cands = [s_ for s_ in own_nodes(fnode) if isinstance(s_, ast.Assign) and any(
                isinstance(t, ast.Name) and t.id == e.id for t in s_.targets)]
            if len(cands) != 1:
                return False
            e = cands[0].value
            seen += 1
        return isinstance(e, ast.Call) and isinstance(e.func, ast.Attribute) and e.func.attr == 'strip'
    for (k, v, n) in entries:
        R.ob(RID, 'option names are stripped', stripped(k, n),
             'option key `%s` is stored without .strip(): `name = value` (white space before "=") lands under a key with '
             'trailing space and the negotiated parameter is silently ignored' % U(k), func=f, node=(n[0] if isinstance(n, tuple) else n))
        R.ob(RID, 'option values are stripped', stripped(v, n), 'option value `%s` not stripped' % U(v), func=f,
             node=(n[0] if isinstance(n, tuple) else n))
    rets = [s_ for s_ in own_nodes(f.node) if isinstance(s_, ast.Return)]
    # the extension token itself is stripped too: `permessage-deflate ; param` (white space before the ";") must still
    # compare equal to the extension name
    for r_ in rets:
        if not (isinstance(r_.value, ast.Tuple) and len(r_.value.elts) == 2):
            continue
        t_ = r_.value.elts[0]
        okt = False
        e_ = t_
        for _ in range(3):
            if isinstance(e_, ast.Call) and isinstance(e_.func, ast.Attribute) and e_.func.attr == 'strip':
                okt = True
                break
            if isinstance(e_, ast.Subscript) and isinstance(e_.value, ast.Name):
                # an element of a list whose elements are stripped when the list is built
                cands = [s_ for s_ in own_nodes(f.node) if isinstance(s_, ast.Assign) and any(
                    isinstance(t, ast.Name) and t.id == e_.value.id for t in s_.targets)]
                if len(cands) == 1 and isinstance(cands[0].value, (ast.ListComp, ast.GeneratorExp)):
                    e_ = cands[0].value.elt
                    continue
                break
            if isinstance(e_, ast.Name):
                cands = [s_ for s_ in own_nodes(f.node) if isinstance(s_, ast.Assign) and any(
                    isinstance(t, ast.Name) and t.id == e_.id for t in s_.targets)]
                if len(cands) == 1:
                    e_ = cands[0].value
                    continue
                # unpacked from a list whose elements are stripped when it is built:  token, *rest = [t.strip() for ...]
                unp = [s_ for s_ in own_nodes(f.node) if isinstance(s_, ast.Assign) and any(
                    isinstance(t, (ast.Tuple, ast.List)) and any(
                        (isinstance(x_, ast.Name) and x_.id == e_.id) or
                        (isinstance(x_, ast.Starred) and isinstance(x_.value, ast.Name) and x_.value.id == e_.id)
                        for x_ in t.elts) for t in s_.targets)]
                if len(unp) == 1 and isinstance(unp[0].value, (ast.ListComp, ast.GeneratorExp)):
                    e_ = unp[0].value.elt
                    continue
                break
            break
        R.ob(RID, 'the extension token is stripped', okt,
             'parse_extension returns the token `%s` without .strip(): "permessage-deflate ; param" (white space before the '
             '";") does not compare equal to the extension name and the negotiated extension is silently dropped' % U(t_),
             func=f, node=r_, construct='extension token strip')
    R.ob(RID, 'returns (token, options)', len(rets) == 1 and isinstance(rets[0].value, ast.Tuple) and len(rets[0].value.elts) == 2,
         'parse_extension returns %s' % [U(r.value) for r in rets], func=f, node=None, construct='parse_extension return')


def one_context(R, RID):
    """The peer has one inflater / deflater per direction: every zlib (de)compressor the Deflate class creates is the value
    of its one field, and compress() / decompress() run through that field (no second object with a history of its own)."""
    from .common import canon
    n_sites = 0
    for kind, field, ops in (('zlib.compressobj', '_compressobj', {'zcomp.compress', 'zcomp.flush'}),
                             ('zlib.decompressobj', '_decompressobj', {'zdecomp.decompress'})):
        for fq, fi in sorted(R.prog.funcs.items()):
            if fi.cls is None or fi.cls.qual != DF:
                continue
            g = R.cfg(fq)
            for n in g.live_nodes():
                for c in n.calls:
                    ts = R.types.call_targets(c, g.ctx)
                    if any(t.kind == 'ext' and t.name == kind for t in ts):
                        n_sites += 1
                        ok = n.kind == 'stmt' and isinstance(n.ast, ast.Assign) and n.ast.value is c and all(
                            U(t_) == 'self.' + field for t_ in n.ast.targets)
                        R.ob(RID, '%s() is kept in self.%s' % (kind, field), ok,
                             '`%s` creates a second %s object next to self.%s: it has a history of its own, the peer has one '
                             'context per direction and cannot follow both' % (n.text()[:70], kind, field), func=fi, node=c,
                             construct='%s outside self.%s in %s' % (kind, field, fq))
                    if any(t.kind == 'ext' and t.name in ops for t in ts) and isinstance(c.func, ast.Attribute):
                        n_sites += 1
                        rc = canon(R, g, n, c.func.value)
                        R.ob(RID, '%s runs on self.%s' % (U(c.func)[:40], field), rc == 'self.' + field,
                             '`%s` runs on %s, not on the one context self.%s' % (U(c)[:60], rc, field), func=fi, node=c,
                             construct='%s receiver in %s' % (c.func.attr, fq))
    need(n_sites >= 5, 'zlib context creation / use sites not found (%d)' % n_sites)


def _field_of_param(R, param):
    init = R.func(DF + '.__init__')
    for s in own_nodes(init.node):
        if isinstance(s, ast.Assign) and isinstance(s.targets[0], ast.Attribute) and U(s.targets[0].value) == 'self' \
                and isinstance(s.value, ast.Name) and s.value.id == param:
            return s.targets[0].attr
    return None


def separate_resets(R, RID='C06.wiring'):
    """The two directions are reset independently (server_no_context_takeover / client_no_context_takeover): outside
    __init__ no method of Deflate re-creates both zlib objects - a merged reset() run for one direction wipes the other
    direction's window in the middle of the peer's stream."""
    both = []
    for fq, fi in sorted(R.prog.funcs.items()):
        if fi.cls is None or fi.cls.qual != DF or fi.name == '__init__':
            continue
        kinds = set()
        for x in own_nodes(fi.node):
            if isinstance(x, ast.Call):
                nm = U(x.func)
                if nm.endswith('decompressobj'):
                    kinds.add('inflate')
                elif nm.endswith('compressobj'):
                    kinds.add('deflate')
        if len(kinds) == 2:
            both.append(fq)
    R.ob(RID, 'no method re-creates both zlib contexts', not both,
         '%s creates a new compressor and a new decompressor: called for one direction\'s no_context_takeover it also discards '
         'the other direction\'s window - the next message that refers back to earlier ones cannot be inflated' % both,
         func=(both[0] if both else None), node=None, construct='merged context reset %s' % both)


def wiring(R):
    separate_resets(R)
    q = DF + '.from_options'
    g = R.cfg(q)
    rd = ReachingDefs(g)
    f = R.func(q)
    init = R.func(DF + '.__init__')
    ctor = [(n, c) for n in g.live_nodes() for c in n.calls
            if any(t.kind == 'ctor' and t.cls == DF for t in R.types.call_targets(c, g.ctx))]
    need(len(ctor) == 1, 'from_options: expected one Deflate(...) construction')
    cn, cc = ctor[0]
    opt_of_param = {}
    for p in [x for x in init.params if x != 'self']:
        a = arg_of(cc, init, p)
        if a is None and default_of(init, p) is not None:
            continue                 # an optional extra (a logger ...), not one of the negotiated parameters
        need(a is not None, 'from_options does not pass %s' % p)
        o, on = rd.origin(cn, a)
        name = None
        if isinstance(o, ast.Call) and R.types.resolves_to(o, g.ctx, DF + '.get_wbits') and len(o.args) >= 2 \
                and isinstance(o.args[1], ast.Constant):
            name = o.args[1].value
        elif isinstance(o, ast.Compare) and len(o.ops) == 1 and isinstance(o.ops[0], ast.In) \
                and isinstance(o.left, ast.Constant):
            name = o.left.value
        opt_of_param[p] = name
    # the zlib side
    users = {}
    for meth, ext, what in (('reset_decompressor', 'zlib.decompressobj', 'inflate window'),
                            ('reset_compressor', 'zlib.compressobj', 'deflate window')):
        gm = R.cfg(DF + '.' + meth)
        calls = ext_calls(R, gm, {ext})
        need(len(calls) == 1, '%s: expected one %s call' % (meth, ext))
        c = calls[0][1]
        w = _wbits_arg(c, ext)
        fields = {x.attr for x in walk_no_nested(w) if isinstance(x, ast.Attribute) and U(x.value) == 'self'} if w is not None else set()
        users[what] = fields
    for meth, reset, what in (('decompress', 'reset_decompressor', 'inflate reset flag'),
                              ('compress', 'reset_compressor', 'deflate reset flag')):
        gm = R.cfg(DF + '.' + meth)
        rc = calls_to(R, gm, DF + '.' + reset)
        flags = set()
        for (n, c) in rc:
            for (t, p, tn) in guards_of(gm, n):
                if p and t.startswith('self.'):
                    flags.add(t[5:])
        users[what] = flags
        # the reset happens after the (de)compression of this message
        ops = ext_calls(R, gm, {'zdecomp.decompress'} if meth == 'decompress' else {'zcomp.compress', 'zcomp.flush'})
        ok = bool(rc) and bool(ops) and all(all_paths_pass(gm, [gm.entry], [o for (o, _) in ops], [n], skip_edge=nx)
                                            for (n, _) in rc)
        wrong = calls_to(R, gm, DF + '.' + ('reset_compressor' if meth == 'decompress' else 'reset_decompressor'))
        R.ob('C06.wiring', '%s(): resets its own context after the message' % meth, ok and not wrong,
             '%s() %s' % (meth, 'resets the other direction\'s context' if wrong else 'does not reset its context after '
                          'processing the message under its flag'), func=DF + '.' + meth, node=(rc[0][1] if rc else None),
             construct='%s reset placement' % meth)
    want = {'inflate window': 'server_max_window_bits', 'deflate window': 'client_max_window_bits',
            'inflate reset flag': 'server_no_context_takeover', 'deflate reset flag': 'client_no_context_takeover'}
    for what, opt in want.items():
        fields = users[what]
        params = [p for p in opt_of_param if _field_of_param(R, p) in fields]
        got = sorted(set(opt_of_param[p] for p in params if opt_of_param[p]))
        R.ob('C06.wiring', '%s <- %s' % (what, opt), got == [opt],
             'the %s is driven by option(s) %s (fields %s), the negotiated parameter is "%s"' % (
                 what, got or 'none', sorted(fields), opt), func=q, node=cc, construct='%s <- %s' % (what, got))


def _wbits_arg(c, ext):
    for kw in c.keywords:
        if kw.arg == 'wbits':
            return kw.value
    if ext == 'zlib.decompressobj':
        return c.args[0] if c.args else None
    return c.args[2] if len(c.args) > 2 else None


def _eval(e, env):
    if isinstance(e, ast.Constant):
        return e.value
    if isinstance(e, ast.Attribute) and U(e.value) == 'self' and e.attr in env:
        return env[e.attr]
    if isinstance(e, ast.UnaryOp) and isinstance(e.op, ast.USub):
        return -_eval(e.operand, env)
    if isinstance(e, ast.BinOp):
        l, r = _eval(e.left, env), _eval(e.right, env)
        if isinstance(e.op, ast.Add):
            return l + r
        if isinstance(e.op, ast.Sub):
            return l - r
        if isinstance(e.op, ast.Mult):
            return l * r
    if isinstance(e, ast.Call) and isinstance(e.func, ast.Name) and e.func.id in ('max', 'min', 'abs', 'int'):
        vals = [_eval(a, env) for a in e.args]
        return {'max': max, 'min': min, 'abs': lambda x: abs(x), 'int': lambda x: int(x)}[e.func.id](*vals) \
            if e.func.id in ('abs', 'int') else {'max': max, 'min': min}[e.func.id](vals)
    raise AnalysisError('C06.raw: cannot evaluate window expression %s' % ast.dump(e)[:80])


def raw(R):
    for meth, ext, fieldhint, expect in (
            ('reset_decompressor', 'zlib.decompressobj', 'decompress', lambda w: -w),
            ('reset_compressor', 'zlib.compressobj', 'compress', lambda w: -max(9, w))):
        q = DF + '.' + meth
        gm = R.cfg(q)
        c = ext_calls(R, gm, {ext})[0][1]
        w = _wbits_arg(c, ext)
        need(w is not None, '%s: no window argument' % q)
        fields = sorted({x.attr for x in walk_no_nested(w) if isinstance(x, ast.Attribute) and U(x.value) == 'self'})
        if len(fields) != 1:
            R.ob('C06.raw', '%s window depends on the negotiated field' % meth, False,
                 'window argument %s does not depend on exactly one negotiated field' % U(w), func=q, node=c)
            continue
        bad = []
        for wb in range(8, 16):
            v = _eval(w, {fields[0]: wb})
            if v != expect(wb):
                bad.append((wb, v, expect(wb)))
        R.ob('C06.raw', '%s: raw window over 8..15' % meth, not bad,
             'for negotiated window %s the zlib argument is %s, expected %s' % (bad[0] if bad else ('', '', '')),
             func=q, node=c, construct='%s wbits %s' % (meth, U(w)))
        # the stored object is the one used
        tgt = None
        for n in gm.live_nodes():
            if c in n.calls and isinstance(n.ast, ast.Assign):
                tgt = U(n.ast.targets[0])
        R.ob('C06.raw', '%s stores the zlib object' % meth, tgt is not None and tgt.startswith('self._'),
             'zlib object is not stored in a field (%s)' % tgt, func=q, node=c)
    # __init__ creates both contexts
    gi = R.cfg(DF + '.__init__')
    ok = bool(calls_to(R, gi, DF + '.reset_decompressor')) and bool(calls_to(R, gi, DF + '.reset_compressor'))
    R.ob('C06.raw', 'both contexts created at construction', ok, 'Deflate.__init__ does not create both zlib contexts',
         func=DF + '.__init__', node=None, construct='Deflate.__init__ contexts')


def rng(R):
    q = DF + '.get_wbits'
    g = R.cfg(q)
    rd = ReachingDefs(g)
    f = R.func(q)
    rets = [n for n in g.live_nodes() if n.kind == 'stmt' and isinstance(n.ast, ast.Return)]
    need(rets, 'get_wbits has no return')
    for r in rets:
        v = r.ast.value
        need(isinstance(v, ast.Name), 'get_wbits returns %s' % U(v))
        lo, hi = INF, -INF
        for l in path_conditions(R, g, rd, g.entry, r):
            a, b = interval_of(R, g.ctx, l, v.id)
            lo, hi = min(lo, a), max(hi, b)
        R.ob('C06.range', 'returned window within 8..15', (lo, hi) == (8, 15),
             'get_wbits can return values in [%s, %s]' % (lo, hi), func=f, node=r.ast)
        # the value is int(<option or default "15">)
        o, on = rd.origin(r, v)
        ok = isinstance(o, ast.Call) and U(o.func) == 'int'
        src = None
        if ok:
            s0, sn = rd.origin(on, o.args[0])
            ok = isinstance(s0, ast.Call) and isinstance(s0.func, ast.Attribute) and s0.func.attr == 'get' \
                and len(s0.args) == 2 and fold(R, s0.args[1], g.ctx) in ('15', 15) and is_param(rd, sn, s0.args[0]) \
                and is_param(rd, sn, s0.args[1 - 1 + 0]) is not None
            src = U(s0)
        R.ob('C06.range', 'value is int(options.get(key, "15"))', bool(ok), 'window parsed from %s' % src, func=f, node=r.ast)
    esc = R.exc.escapes(g.ctx)
    bad = [t for t in esc if 'errors.HandshakeError' not in R.exc.supers(t)]
    R.ob('C06.range', 'failures are HandshakeErrors', not bad and 'errors.CompressionParameterError' in esc,
         'get_wbits can raise %s' % sorted(esc), func=f, node=None, construct='get_wbits escapes %s' % sorted(esc))


def tail(R):
    # compress
    q = DF + '.compress'
    g = R.cfg(q)
    rd = ReachingDefs(g)
    comp = ext_calls(R, g, {'zcomp.compress'})
    fl = ext_calls(R, g, {'zcomp.flush'})
    need(len(comp) == 1 and len(fl) == 1, 'compress(): expected one compress and one flush call')
    mode = fl[0][1].args[0] if fl[0][1].args else None
    R.ob('C06.tail', 'flush mode is Z_SYNC_FLUSH', mode is not None and U(mode) == 'zlib.Z_SYNC_FLUSH',
         'flush(%s)' % U(mode), func=q, node=fl[0][1])
    rets = [n for n in g.live_nodes() if n.kind == 'stmt' and isinstance(n.ast, ast.Return)]
    strip = None
    for r in rets:
        o, on = rd.origin(r, r.ast.value)
        ok = isinstance(o, ast.Subscript) and isinstance(o.slice, ast.Slice) and o.slice.lower is None \
            and o.slice.step is None and o.slice.upper is not None and isinstance(o.value, ast.BinOp) \
            and isinstance(o.value.op, ast.Add) and rd.origin(on, o.value.left)[0] is comp[0][1] \
            and rd.origin(on, o.value.right)[0] is fl[0][1]
        # compress() is called before flush()
        if fl[0][0] is comp[0][0]:
            ok = ok and (comp[0][1].lineno, comp[0][1].col_offset) < (fl[0][1].lineno, fl[0][1].col_offset)
        else:
            ok = ok and comp[0][0] in g.reachable([g.entry], avoid={fl[0][0]}) and fl[0][0] in g.succ_reach(comp[0][0])
        k = fold(R, o.slice.upper, g.ctx) if ok else None
        strip = -k if isinstance(k, int) else None
        R.ob('C06.tail', 'result = (compress + flush)[:-4]', ok and strip == 4, 'compress() returns %s' % U(o), func=q, node=o)
    parg = comp[0][1].args[0] if comp[0][1].args else None
    R.ob('C06.tail', 'whole payload compressed', parg is not None and U(rd.origin(comp[0][0], parg)[0]) in
         (R.func(q).params[1], 'bytes(%s)' % R.func(q).params[1]), 'compress input is %s' % U(parg), func=q, node=comp[0][1])
    # decompress
    q = DF + '.decompress'
    g = R.cfg(q)
    rd = ReachingDefs(g)
    f = R.func(q)
    frames = f.params[1]
    dec = ext_calls(R, g, {'zdecomp.decompress'})
    litval = {}
    for (n, c) in dec:
        if c.args:
            v_ = fold(R, c.args[0], g.ctx)
            if isinstance(v_, bytes):
                litval[id(c)] = v_
    capped = [(n, c) for (n, c) in dec if len(c.args) > 1 or c.keywords]
    R.ob('C06.tail', 'inflate output is not capped', not capped,
         'zlib decompress(data, max_length) called with an output limit and the unconsumed tail is not re-fed: a message '
         'that inflates beyond the limit is silently truncated (%s)' % [U(c) for (_, c) in capped], func=f,
         node=(capped[0][1] if capped else None), construct='inflate output cap')
    lit = [(n, c) for (n, c) in dec if id(c) in litval]
    per = [(n, c) for (n, c) in dec if (n, c) not in lit]
    ok = len(lit) == 1 and litval[id(lit[0][1])] == b'\x00\x00\xff\xff'
    R.ob('C06.tail', 'trailer literal 00 00 ff ff', ok, 'trailer fed: %s' % [U(c.args[0]) for (_, c) in lit], func=f,
         node=(lit[0][1] if lit else None), construct='inflate trailer literal')
    if lit:
        R.ob('C06.tail', 'trailer length equals the stripped length', strip == len(litval[id(lit[0][1])]),
             'compress strips %s bytes, decompress appends %d' % (strip, len(litval[id(lit[0][1])])), func=f, node=lit[0][1])
        # once per message: not inside a comprehension / loop
        parents = R.types.parents(f)
        p = parents.get(id(lit[0][1]))
        inloop = False
        while p is not None and p is not f.node:
            if isinstance(p, (ast.For, ast.While, ast.ListComp, ast.GeneratorExp, ast.comprehension, ast.SetComp)):
                inloop = True
            p = parents.get(id(p))
        # the per-fragment inflate site(s) come first: either every path passes one (comprehension), or they sit in a
        # loop over the fragments that is left before the trailer is fed
        pern = [pn for (pn, _) in per]
        after = bool(per) and (all_paths_pass(g, [g.entry], pern, [lit[0][0]], skip_edge=nx) or all(
            any(fr.kind == 'loop' for fr in pn.frames) and lit[0][0] in g.succ_reach(pn, skip_edge=nx)
            and pn not in g.succ_reach(lit[0][0], skip_edge=nx) for pn in pern))
        R.ob('C06.tail', 'trailer fed once, after all fragments', not inloop and after,
             'the sync-flush trailer is fed %s' % ('per fragment' if inloop else 'before the fragments'), func=f, node=lit[0][1])
    # per-frame feeding: comprehension over the frames parameter itself, element = frame.payload (maybe bytes())
    okf = False
    why = 'no per-frame inflate call'
    parents = R.types.parents(f)
    for (n, c) in per:
        p = parents.get(id(c))
        while p is not None and not isinstance(p, (ast.ListComp, ast.GeneratorExp, ast.For)):
            p = parents.get(id(p))
        if isinstance(p, (ast.ListComp, ast.GeneratorExp)):
            gen = p.generators[0]
            a = c.args[0]
            if isinstance(a, ast.Call) and U(a.func) in ('bytes', 'bytearray') and a.args:
                a = a.args[0]
            okf = len(p.generators) == 1 and not gen.ifs and U(gen.iter) == frames and \
                U(a) == '%s.payload' % U(gen.target) and p.elt is c
            why = 'fragments inflated by %s' % U(p)
        elif isinstance(p, ast.For):
            a = c.args[0]
            if isinstance(a, ast.Name):
                # the fragment payload taken into a local first (possibly a PY2/PY3 conditional expression)
                a = rd.origin(n, a)[0]
            if isinstance(a, ast.IfExp):
                from ..program import py_const
                pc = py_const(a.test, f.module)
                if pc is not None:
                    a = a.body if pc else a.orelse
            if isinstance(a, ast.Call) and U(a.func) in ('bytes', 'bytearray') and a.args:
                a = a.args[0]
            okf = U(p.iter) == frames and U(a) == '%s.payload' % U(p.target)
            why = 'fragments inflated in a loop over %s' % U(p.iter)
    R.ob('C06.tail', 'every fragment inflated in order, unmodified', okf, why, func=f, node=(per[0][1] if per else None),
         construct='per-fragment inflate')
    rets = [n for n in g.live_nodes() if n.kind == 'stmt' and isinstance(n.ast, ast.Return)]
    for r in rets:
        o, on = rd.origin(r, r.ast.value)
        R.ob('C06.tail', 'result is the joined inflate output', isinstance(o, ast.Call) and U(o.func) == "b''.join",
             'decompress returns %s' % U(o), func=f, node=o)


def rsv1_in(R):
    q = 'message.Message.build'
    g = R.cfg(q, 'message.Message')
    rd = ReachingDefs(g)
    f = R.func(q)
    frames, dparam = f.params[1], f.params[2]
    dc = calls_to(R, g, 'message.Message.decompress_frames')
    need(len(dc) == 1, 'Message.build: expected one decompress_frames call')
    n, c = dc[0]
    lits = set()
    for l in path_conditions(R, g, rd, g.entry, n):
        lits = l if not lits else lits & l
    first = None
    for (t, p) in lits:
        if t.endswith('.rsv1') and p:
            first = t[:-5]
    ok = first is not None and (dparam, True) in lits
    if ok:
        o, on = rd.origin(n, ast.parse(first, mode='eval').body)
        ok = U(o) == '%s[0]' % frames
    R.ob('C06.rsv1', 'inflate iff first frame has RSV1 and a decompressor is negotiated', ok,
         'decompress_frames guarded by %s' % sorted(lits), func=f, node=c)
    R.ob('C06.rsv1', 'whole fragment list is inflated', U(c.args[0]) == frames and is_param(rd, n, c.args[0], frames)
         and U(c.args[1]) == dparam, 'decompress_frames(%s)' % ', '.join(U(a) for a in c.args), func=f, node=c)
    # the plain join arm is taken exactly otherwise (checked in C01.join); here: the decompress callable is the one
    # stored by set_compression
    gs = R.cfg('stream.WebsocketStream.build_message')
    bc = calls_to(R, gs, q)
    okb = len(bc) == 1 and len(bc[0][1].args) >= 2 and U(bc[0][1].args[1]) == 'self._decompress'
    R.ob('C06.rsv1', 'stream passes its negotiated decompressor', okb, 'build_message calls %s' % (
        U(bc[0][1]) if bc else None), func='stream.WebsocketStream.build_message', node=(bc[0][1] if bc else None))
    st = [(c_, s, t, v) for (c_, s, t, v) in stores_in_package(R, '_decompress')]
    okd = True
    for (c_, s, t, v) in st:
        tys = R.types.expr(v, c_)
        if not tys <= {'b:none', 'bound:compression.Deflate.decompress|compression.Deflate'}:
            okd = False
    R.ob('C06.rsv1', '_decompress is Deflate.decompress or None', okd and len(st) >= 2,
         'stream._decompress writers: %s' % [U(v) for (_, _, _, v) in st], func='stream.WebsocketStream.set_compression',
         node=None, construct='_decompress writers')


def fail(R):
    q = 'message.Message.decompress_frames'
    g = R.cfg(q, 'message.Message')
    f = R.func(q)
    dparam = f.params[2]
    calls = [(n, c) for n in g.live_nodes() for c in n.calls if U(c.func) == dparam]
    need(len(calls) == 1, 'decompress_frames: call of the decompress callable not found')
    n, c = calls[0]
    esc = R.exc.escapes(g.ctx)
    hs = [m for (m, l) in n.succ if l.startswith('exc:') and m.kind == 'handler']
    broad = any('Exception' in R.exc.handler_tokens(h.ast, g.ctx) or 'BaseException' in R.exc.handler_tokens(h.ast, g.ctx)
                for h in hs) or any(fr.kind == 'try' and any('Exception' in ht for (_, ht, _) in fr.handlers) for fr in n.frames)
    R.ob('C06.fail', 'inflate errors become CriticalProtocolError', broad and esc == {'errors.CriticalProtocolError'},
         'decompress_frames can raise %s (handler catches Exception: %s)' % (sorted(esc), broad), func=f, node=c)


def activate(R):
    q = 'websocket.WebSocket.process_extensions'
    g = R.cfg(q)
    rd = ReachingDefs(g)
    st = stores_in_package(R, 'compression')
    writers = [(c, s, t, v) for (c, s, t, v) in st if any(
        isinstance(x, str) and x == 'inst:websocket.WebSocket.State' for x in R.types.expr(t.value, c))]
    nonnone = [(c, s, t, v) for (c, s, t, v) in writers if U(v) != 'None']
    ok = len(nonnone) == 1 and nonnone[0][0].func.qual == q
    R.ob('C06.activate', 'single non-None writer of State.compression', ok,
         'State.compression written in %s' % sorted(set(c.func.qual for (c, _, _, _) in nonnone)), func=q,
         node=(nonnone[0][1] if nonnone else None), construct='State.compression writers')
    if nonnone:
        c, s, t, v = nonnone[0]
        sn = [n for n in g.live_nodes() if n.ast is s][0]
        lits = {(tx, p) for (tx, p, _) in guards_of(g, sn)}
        R.ob('C06.activate', 'activation under the permessage-deflate token', any(tx.endswith("== 'permessage-deflate'") and p
                                                                                for (tx, p) in lits),
             'State.compression set under %s' % sorted(lits), func=q, node=s)
        tok = [tx for (tx, p) in lits if tx.endswith("== 'permessage-deflate'") and p]
        from .common import match_exact, guard_atom_sets
        R.ob('C06.activate', 'activation depends on the reply alone', bool(tok) and match_exact(
            guard_atom_sets(g, sn), [{(tok[0], True)}]),
             'State.compression is set under %s: an extension the server accepted (offered through the compress option or '
             'through a Sec-WebSocket-Extensions header the application added) is not enabled when the extra condition '
             'fails, and the first compressed message is refused as "reserved bits set"' % sorted(lits), func=q, node=s,
             construct='activation guard')
        sc = calls_to(R, g, 'stream.WebsocketStream.set_compression')
        same = False
        for (n2, c2) in sc:
            if isinstance(v, ast.Name) and c2.args and isinstance(c2.args[0], ast.Name) and c2.args[0].id == v.id \
                    and rd.defs_at(n2, v.id) == rd.defs_at(sn, v.id):
                same = True
        o, on = rd.origin(sn, v)
        R.ob('C06.activate', 'same Deflate object for both directions', same and isinstance(o, ast.Call)
             and R.types.resolves_to(o, g.ctx, DF + '.from_options'),
             'state gets %s, stream gets %s' % (U(o), [U(c2.args[0]) for (_, c2) in sc if c2.args]), func=q, node=s)
