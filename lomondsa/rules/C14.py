"""C14 - every Ping is answered by exactly one matching Pong, in order."""
import ast

from ..program import AnalysisError, U, own_nodes, walk_no_nested
from ..dataflow import ReachingDefs, defs_of_node
from ..consteval import fold
from .common import (match_exact, guard_atom_sets, path_atom_sets, unmatched, need, guards_of, calls_to, ext_calls, all_paths_pass, succs, normal_succs, path_conditions,
                     is_param, interval_of, arg_of, default_of, INF, stores_in_package)
from . import C05

PROPERTY = 'C14'
LEVEL = 'other'
EXPLANATION = (
    'Shape rules: in the session loop the event hook runs before the event is yielded; in the hook the pong is sent '
    'exactly when the event is a ping and auto_pong is set (no other condition), once, with the event\'s own payload; '
    'send_pong/_send_pong have no other callers and PONG opcodes no other producer; auto_pong is forwarded unswapped '
    'from connect(); every WebSocketError a write can raise is absorbed at the pong site; the pong length guard does '
    'not reject any legal (<=125 byte) ping payload; control frames are never routed through the text validator.')
NOT_DECIDED = 'payload byte equality on the wire (C03); ordering beyond program order of the sequential loop'
ASSUMPTIONS = ['the session loop is sequential: program order of writes is wire order']

S = 'session.WebsocketSession'
nx = lambda a, b, l: l.startswith('exc:')


def check(run):
    R = run
    R.rule('C14.shared', 'objects created once per class / per function definition (class-level attributes, parameter '
           'defaults) are only read: no buffer, validator, poll object, header list or option dict is shared between '
           'connections', 1)
    from .common import shared_state
    shared_state(R, 'C14.shared')
    R.rule('C14.before', 'in run(): _on_event(event, auto_pong) precedes `yield event` on every path of the feed loop', 2)
    R.rule('C14.branch', '_send_pong(event) iff event.name == "ping" and auto_pong; once; with event.data', 5)
    from .common import event_fields as _event_fields
    _event_fields(R, 'C14.branch', ['Ping'])      # the payload the Pong repeats
    R.rule('C14.only', 'send_pong is called only by _send_pong, _send_pong only by _on_event; PONG frames only from '
                       'send_pong', 3)
    R.rule('C14.param', 'auto_pong reaches _on_event from connect() through run() unswapped', 3)
    R.rule('C14.swallow', 'every WebSocketError raisable by send_pong is absorbed at the pong site', 2)
    R.rule('C14.bound', 'send_pong accepts every payload of up to 125 bytes', 1)
    R.rule('C14.route', 'control-frame payloads never pass through the UTF-8 validating reader', 4)
    R.rule('C14.quiet', 'a Pong that cannot be written does not disturb the event stream: a failed write leaves the '
                        'session socket bookkeeping alone (only _close_socket/close null it)', 4)
    R.rule('C14.lazy', 'frames are handed on one by one: a Ping parsed before a later bad frame in the same read is still '
                       'delivered and answered', 5)
    from . import C04 as _C04f
    _C04f.frame_fresh(R, 'C14.lazy')
    from . import C09, C04
    from .common import lazy_pipeline
    lazy_pipeline(R, 'C14.lazy')
    with R.as_rule('C14.quiet'):
        C09.socknull(R)
    with R.as_rule('C14.lazy'):
        C04.wire(R)
        C04.order(R)
    from . import C08
    R.rule('C14.interleave', 'a Ping between the fragments of a message is delivered: the fragmentation sequence checks '
                             'apply to data frames only', 3)
    R.rule('C14.open', 'Pongs are refused only once a Close has really been attempted: close() enters the closing state '
                       'only after _send_close() returned', 4)
    interleave(R)
    from . import C03
    R.rule('C14.payload', 'the Pong leaves as built - same payload, never through the compressor (RSV1 only on data frames '
                          'sent compressed)', 2)
    C03.rsv1gate(R, RID='C14.payload')
    with R.as_rule('C14.payload'):
        C03.lenenc(R)        # ... and with the shortest length form: a 125-byte Pong is a 7-bit-length control frame
        C03.flags(R)
    from . import C11 as _C11, C01 as _C01
    R.rule('C14.whole', 'a Pong goes out whole and in turn: every socket write is inside the session lock; a Ping of up to 125 '
                        'bytes (any legal length encoding) is accepted by the frame checks', 6)
    with R.as_rule('C14.interleave'):
        C05.track(R)             # a Ping between text fragments does not disturb the text tracking / validator state
    with R.as_rule('C14.whole'):
        _C11.locked(R)
    _C01.accept(R, RID='C14.whole')
    with R.as_rule('C14.lazy'):
        C05.awaitables_fresh(R, 'C14.lazy')     # a header cut across two reads does not derail the frames (Pings) after it
    C08.onlyclose(R, RID='C14.open')
    before(R)
    branch(R)
    only(R)
    param(R)
    swallow(R)
    bound(R)
    C05.route(R, RID='C14.route')

    with R.as_rule('C14.payload'):
        _C01.alias(R)            # the Ping payload the Pong repeats is a private copy, not a view of the receive buffer
        C03.maskonce(R)          # ... and is masked once: serialising the frame masks the payload in place, so a second
                                 # to_bytes() (for a log line) sends the payload XOR the first key

def _feed_loop(R, g, rd):
    for n in g.live_nodes():
        if n.kind == 'for':
            it = rd.origin(n, n.ast.iter)[0]
            if isinstance(it, ast.Call) and R.types.resolves_to(it, g.ctx, 'websocket.WebSocket.feed'):
                return n
    raise AnalysisError('run(): loop over websocket.feed(data) not found')


def before(R):
    q = S + '.run'
    g = R.cfg(q)
    rd = ReachingDefs(g)
    fl = _feed_loop(R, g, rd)
    var = fl.ast.target.id
    body = succs(fl, 'body')
    ys = [y for y in g.reachable(body, avoid={fl}, skip_edge=nx) if y.kind == 'yield'
          and isinstance(y.ast.value, ast.Name) and y.ast.value.id == var and rd.defs_at(y, var) == {fl}]
    need(ys, 'run(): `yield event` for feed events not found')
    hooks = [(n, c) for (n, c) in calls_to(R, g, S + '._on_event')
             if c.args and isinstance(c.args[0], ast.Name) and c.args[0].id == var and rd.defs_at(n, var) == {fl}]
    hn = [n for (n, _) in hooks]
    for y in ys:
        ok = bool(hn) and all_paths_pass(g, body, hn, [y], skip_edge=nx)
        R.ob('C14.before', 'event hook before the yield', ok,
             'an event can be yielded to the application before _on_event() has run: the Pong is written after '
             'whatever the application sends in reaction', func=q, node=y.ast)
    # the hook is called once per event and not deferred: directly in the loop body, not in another loop
    for (n, c) in hooks:
        ok = n in g.reachable(body, avoid={fl}, skip_edge=nx) and not any(
            fr.kind == 'loop' and fr.stmt is not fl.ast and _inside(fl.ast, fr.stmt) for fr in n.frames)
        R.ob('C14.before', 'hook runs per event inside the feed loop', ok, 'the event hook is deferred out of the per-event '
             'loop body', func=q, node=c)
    R.ob('C14.before', 'hook call exists', bool(hooks), 'run() never calls _on_event(event, ...) for feed events', func=q,
         node=None, construct='_on_event call')


def _inside(outer, inner):
    return any(x is inner for x in ast.walk(outer))


def branch(R):
    q = S + '._on_event'
    g = R.cfg(q)
    rd = ReachingDefs(g)
    f = R.func(q)
    ev = f.params[1]
    sp = calls_to(R, g, S + '._send_pong')
    R.ob('C14.branch', 'one pong call site', len(sp) == 1, '%d _send_pong call sites in _on_event' % len(sp), func=f,
         node=(sp[0][1] if sp else None), construct='_send_pong sites')
    if not sp:
        return
    n, c = sp[0]
    PING = ("%s.name == 'ping'" % ev, True)
    AP = ('auto_pong', True)
    allowed = {PING, AP}
    for l in path_conditions(R, g, rd, g.entry, n):
        # negative literals of *other* event-name tests are fine (elif chain)
        extra = unmatched(path_atom_sets(l), lambda f: bool(f & allowed) or any(
            t.startswith('%s.name == ' % ev) and not p_ and t != PING[0] for (t, p_) in f))
        ok = PING in l and AP in l and not extra
        R.ob('C14.branch', 'pong exactly under ping and auto_pong', ok,
             'the pong is sent under %s (required: event.name == "ping" and auto_pong, nothing else)' % sorted(l),
             func=f, node=c)
    # conversely: a path that avoids the call has ping False or auto_pong False
    bad = []
    from .C04 import _paths_avoiding
    for l in _paths_avoiding(R, g, rd, g.entry, g.exit, {n}):
        other_name = any(t.startswith('%s.name == ' % ev) and p_ and t != PING[0] for (t, p_) in l)
        if (PING[0], False) not in l and (AP[0], False) not in l and not other_name:
            bad.append(sorted(l))
    R.ob('C14.branch', 'every ping is answered when auto_pong is on', not bad,
         'a ping with auto_pong enabled can pass _on_event without a pong: %s' % bad[:1], func=f, node=c,
         construct='ping without pong')
    R.ob('C14.branch', 'pong argument is the event', c.args and is_param(rd, n, c.args[0], ev),
         '_send_pong(%s)' % (U(c.args[0]) if c.args else ''), func=f, node=c)
    inloop = any(fr.kind == 'loop' for fr in n.frames)
    R.ob('C14.branch', 'no loop around the pong', not inloop, 'pong sent in a loop', func=f, node=c)
    from .common import event_names
    event_names(R, 'C14.branch')      # event.name == 'ping' holds for Pings and for nothing else
    # _send_pong body
    q2 = S + '._send_pong'
    g2 = R.cfg(q2)
    rd2 = ReachingDefs(g2)
    f2 = R.func(q2)
    ev2 = f2.params[1]
    sc = calls_to(R, g2, 'websocket.WebSocket.send_pong')
    ok = len(sc) == 1 and len(sc[0][1].args) == 1 and U(sc[0][1].args[0]) == '%s.data' % ev2 \
        and is_param(rd2, sc[0][0], sc[0][1].args[0].value, ev2) and not any(fr.kind == 'loop' for fr in sc[0][0].frames) \
        and all_paths_pass(g2, [g2.entry], [sc[0][0]], [g2.exit], skip_edge=nx)
    R.ob('C14.branch', 'send_pong(event.data) exactly once', ok,
         '_send_pong calls %s' % [U(c_) for (_, c_) in sc], func=f2, node=(sc[0][1] if sc else None),
         construct='_send_pong body')


def only(R):
    def callers(target):
        return sorted(set(c.func.qual for (c, call, t) in R.types.callers.get(target, [])))
    a = callers('websocket.WebSocket.send_pong')
    R.ob('C14.only', 'callers of send_pong', a == [S + '._send_pong'], 'send_pong is called from %s' % a,
         func='websocket.WebSocket.send_pong', node=None, construct='send_pong callers %s' % a)
    b = callers(S + '._send_pong')
    R.ob('C14.only', 'callers of _send_pong', b == [S + '._on_event'], '_send_pong is called from %s' % b,
         func=S + '._send_pong', node=None, construct='_send_pong callers %s' % b)
    prod = []
    for (c, call, t) in R.types.callers.get(S + '.send', []) + R.types.callers.get(S + '.send_compressed', []):
        if call.args and fold(R, call.args[0], c) == 10:
            prod.append(c.func.qual)
    prod = sorted(set(prod))
    R.ob('C14.only', 'PONG frames only from send_pong', prod == ['websocket.WebSocket.send_pong'],
         'opcode PONG is sent from %s' % prod, func='websocket.WebSocket.send_pong', node=None,
         construct='PONG producers %s' % prod)


def param(R):
    q = 'websocket.WebSocket.connect'
    g = R.cfg(q)
    rd = ReachingDefs(g)
    rc = calls_to(R, g, S + '.run')
    need(len(rc) >= 1, 'connect(): expected a session.run call')
    for (rn_, rc_) in rc:
        a = arg_of(rc_, R.func(S + '.run'), 'auto_pong')
        R.ob('C14.param', 'connect -> run', a is not None and is_param(rd, rn_, a, 'auto_pong'),
             'run(auto_pong=%s)' % U(a), func=q, node=rc_, construct='connect->run auto_pong=%s' % U(a))
    d1 = fold(R, default_of(R.func(q), 'auto_pong'), None)
    d2 = fold(R, default_of(R.func(S + '.run'), 'auto_pong'), None)
    R.ob('C14.param', 'auto_pong defaults to True', d1 is True and d2 is True, 'defaults %s / %s' % (d1, d2), func=q, node=None,
         construct='auto_pong defaults')
    q2 = S + '.run'
    g2 = R.cfg(q2)
    rd2 = ReachingDefs(g2)
    for (n, c) in calls_to(R, g2, S + '._on_event'):
        a = arg_of(c, R.func(S + '._on_event'), 'auto_pong')
        R.ob('C14.param', 'run -> _on_event', a is not None and is_param(rd2, n, a, 'auto_pong'),
             '_on_event(auto_pong=%s)' % U(a), func=q2, node=c, construct='run->_on_event auto_pong=%s' % U(a))


def swallow(R, RID='C14.swallow'):
    from .common import message_templates
    message_templates(R, RID)              # ... which rests on the error constructors not failing on OS-chosen text
    q = S + '._send_pong'
    g = R.cfg(q)
    esc = R.exc.escapes(g.ctx)
    leak = sorted(t for t in esc if 'errors.WebSocketError' in R.exc.supers(t))
    sp = R.exc.escapes(R.ctx('websocket.WebSocket.send_pong'))
    fam = sorted(t for t in sp if 'errors.WebSocketError' in R.exc.supers(t))
    R.ob(RID, 'no WebSocketError escapes the pong site', not leak,
         '%s raised while writing an automatic Pong escapes _send_pong and ends the event loop with an error '
         'Disconnected (send_pong can raise %s)' % (leak, fam), func=q, node=None, construct='_send_pong leaks %s' % leak)
    R.ob(RID, 'write failures considered', {'errors.TransportFail', 'errors.WebSocketClosing',
                                                      'errors.WebSocketClosed', 'errors.WebSocketUnavailable'} <= set(fam),
         'send_pong raised-set %s' % fam, func=q, node=None, construct='send_pong raised set')


def bound(R):
    q = 'websocket.WebSocket.send_pong'
    g = R.cfg(q)
    rd = ReachingDefs(g)
    f = R.func(q)
    p = f.params[1]
    sends = calls_to(R, g, [S + '.send'])
    need(sends, 'send_pong sends nothing')
    n, c = sends[0]
    lo, hi = INF, -INF
    for l in path_conditions(R, g, rd, g.entry, n):
        a, b = interval_of(R, g.ctx, l, 'len(%s)' % p)
        lo, hi = min(lo, a), max(hi, b)
    R.ob('C14.bound', 'pong payload bound is exactly 125', hi == 125 and lo in (-INF, 0),
         'send_pong sends payload lengths in [%s, %s]; every Ping payload (0..125 bytes) must be answerable' % (lo, hi),
         func=f, node=c, construct='send_pong length interval [%s, %s]' % (lo, hi))


def interleave(R, RID='C14.interleave'):
    """A control frame (Ping) between the fragments of a data message is passed on, never judged by the fragmentation
    sequence checks: in WebsocketStream.feed every ProtocolError raise and every use of the fragment list is on the
    not-is_control side; the is_control side yields the frame as a message of its own."""
    from .common import guard_atom_sets
    q = 'stream.WebsocketStream.feed'
    g = R.cfg(q)
    f = R.func(q)
    n_r = 0
    for n in g.live_nodes():
        if n.kind != 'stmt' or not isinstance(n.ast, ast.Raise) or any(fr.kind == 'handler' for fr in n.frames):
            continue
        toks = R.exc.exc_tokens_of_value(n.ast.exc, g.ctx) if n.ast.exc is not None else set()
        if not any('errors.ProtocolError' in R.exc.supers(t) for t in toks):
            continue
        n_r += 1
        lits = set()
        for forms in guard_atom_sets(g, n):
            lits |= set(forms)
        ok = any(t.endswith('.is_control') and not p for (t, p) in lits)
        R.ob(RID, 'sequence check applies to data frames only', ok,
             'the fragmentation check `%s` also runs for control frames: a Ping between the fragments of a message raises '
             'ProtocolError instead of being answered' % n.text()[:70], func=f, node=n.ast,
             construct='sequence check on control frames')
    need(n_r >= 2, 'WebsocketStream.feed: fragmentation sequence checks not found')
    ctl = []
    for y in g.yields():
        lits = set()
        for forms in guard_atom_sets(g, y):
            lits |= set(forms)
        if any(t.endswith('.is_control') and p for (t, p) in lits):
            ctl.append(y)
    R.ob(RID, 'control frames are passed on at once', len(ctl) >= 1, 'no yield on the is_control side of stream.feed',
         func=f, node=None, construct='control frame yield')
