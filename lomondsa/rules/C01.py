"""C01 - every server message is delivered once, in order, byte-exact (shape premises)."""
import ast

from ..program import AnalysisError, U, own_nodes, walk_no_nested
from ..dataflow import ReachingDefs, defs_of_node
from ..consteval import fold
from .common import (need, guards_of, calls_to, ext_calls, all_paths_pass, succs, normal_succs, path_conditions,
                     is_param, arg_of, stores_in_package, struct_format)
from . import C05, C04

PROPERTY = 'C01'
LEVEL = 'other'
EXPLANATION = (
    'Shape premises of the delivery argument: (alias) a flow-sensitive may-taint analysis from the reused receive '
    'buffer view returned by _recv through run -> WebSocket.feed -> WebsocketStream.feed -> Parser.feed shows that no '
    'view of that buffer reaches a yield, a generator send, a field/container store or a return - only copies do; '
    '(conserve) every frame pulled from the parser is consumed exactly once on every path of the stream loop and the '
    'fragment list is emptied after each message; (dispatch) the opcode->message-class table, each class\'s own opcode '
    'and is_* property, and the event dispatch in WebSocket.feed agree, each branch yielding one event carrying the '
    'message\'s own payload attribute; (length) the payload read count is the decoded wire length; (join) the payload '
    'is the in-order join of every fragment; per-frame bookkeeping runs for every frame.'
    ' Also decided: package-wide isolation (objects created once per class or per function definition - class-level attributes, parameter defaults - are only read), so that no buffer, validator, cache, lock or option table is shared between connections by accident.')
NOT_DECIDED = 'that the joined bytes equal what the server sent (value statement); UTF-8 decoding equality'
ASSUMPTIONS = ['list.append / bytes.join preserve order', 'bytearray slices, bytes(), bytearray(), bytearray.extend copy; '
               'memoryview slices alias']

S = 'session.WebsocketSession'
WS = 'websocket.WebSocket'
CFP = 'frame_parser.ClientFrameParser'
nx = lambda a, b, l: l.startswith('exc:')
COPY_FUNCS = {'bytes', 'bytearray', 'len', 'bool', 'int', 'str', 'repr', 'isinstance', 'type', 'id', 'hash'}
VIEW_FUNCS = {'memoryview', 'iter', 'reversed'}


# ----------------------------------------------------------------------------------- may-taint
class Taint(object):
    """Forward may-taint over one CFG.  Tainted = may alias the reused receive buffer."""

    def __init__(self, R, g, tainted_params, depth=0):
        self.R = R
        self.g = g
        self.depth = depth
        self.sinks = []          # (node, description)
        self.passes = []         # (node, call, arg index) tainted value passed to a callee
        nodes = g.live_nodes()
        self.inn = {n: set() for n in nodes}
        out = {n: set() for n in nodes}
        out[g.entry] = set(tainted_params)
        work = list(nodes)
        live = set(nodes)
        it = 0
        while work:
            it += 1
            if it > 20000:
                raise AnalysisError('taint analysis did not converge in %s' % g.ctx.func.qual)
            n = work.pop()
            i = set()
            for (p, l) in n.pred:
                if p in live:
                    i |= out[p]
            if n is g.entry:
                i = set(tainted_params)
            self.inn[n] = i
            o = self.transfer(n, set(i), record=False)
            if o != out[n]:
                out[n] = o
                for (s, l) in n.succ:
                    if s in live:
                        work.append(s)
        for n in nodes:
            self.transfer(n, set(self.inn[n]), record=True)

    def t(self, e, tainted):
        """may expression e evaluate to a view of the receive buffer?"""
        if e is None:
            return False
        if isinstance(e, ast.Name):
            return e.id in tainted
        if isinstance(e, ast.Subscript):
            # slicing / indexing a view: slices of a memoryview alias; an index yields an int
            if isinstance(e.slice, ast.Slice):
                return self.t(e.value, tainted)
            return False
        if isinstance(e, ast.IfExp):
            return self.t(e.body, tainted) or self.t(e.orelse, tainted)
        if isinstance(e, ast.BoolOp):
            return any(self.t(v, tainted) for v in e.values)
        if isinstance(e, ast.Call):
            fn = e.func
            if isinstance(fn, ast.Name) and fn.id in VIEW_FUNCS:
                return any(self.t(a, tainted) for a in e.args)
            if isinstance(fn, ast.Attribute) and fn.attr in ('cast', 'toreadonly', '__getitem__') and self.t(fn.value, tainted):
                return True
            return False
        if isinstance(e, (ast.Tuple, ast.List)):
            return any(self.t(x, tainted) for x in e.elts)
        if isinstance(e, ast.Starred):
            return self.t(e.value, tainted)
        if isinstance(e, ast.NamedExpr):
            return self.t(e.value, tainted)
        return False

    def transfer(self, n, tainted, record):
        a = n.ast
        R, g = self.R, self.g
        if n.kind == 'yield':
            if record and a.value is not None and self.t(a.value, tainted):
                self.sinks.append((n, 'a view of the receive buffer is yielded: `%s`' % U(a)))
            return tainted
        if n.kind == 'for':
            # iterating a view yields ints; iterating a tuple of views would alias - not used in the package
            for nm in defs_of_node(n):
                tainted.discard(nm)
            return tainted
        if n.kind not in ('stmt', 'test', 'forinit', 'with'):
            return tainted
        # calls in this node: sends / container insertions / passes
        if record:
            for c in n.calls:
                fn = c.func
                args = list(c.args) + [k.value for k in c.keywords]
                targs = [i for i, x in enumerate(args) if self.t(x, tainted)]
                if not targs:
                    continue
                if isinstance(fn, ast.Attribute) and fn.attr in ('send', 'throw'):
                    self.sinks.append((n, 'a view of the receive buffer is sent into the parser coroutine: `%s` - the '
                                          'frame payload then changes when the buffer is reused' % U(c)))
                elif isinstance(fn, ast.Attribute) and fn.attr in ('append', 'insert', 'add', 'appendleft', 'put', 'setdefault'):
                    self.sinks.append((n, 'a view of the receive buffer is stored in a container: `%s`' % U(c)))
                elif isinstance(fn, ast.Attribute) and fn.attr in ('extend', 'join', 'find', 'index', 'startswith', 'endswith',
                                                                   'translate', 'decode', 'tobytes', 'hex', 'count', 'update'):
                    pass          # copies the bytes / only reads
                elif isinstance(fn, ast.Name) and fn.id in COPY_FUNCS | VIEW_FUNCS:
                    pass
                else:
                    for i in targs:
                        self.passes.append((n, c, i))
        if n.kind == 'stmt':
            if isinstance(a, ast.Return):
                if record and self.t(a.value, tainted):
                    self.sinks.append((n, 'a view of the receive buffer is returned: `%s`' % U(a)))
                return tainted
            if isinstance(a, ast.Assign):
                tv = self.t(a.value, tainted)
                # a yield expression's value (sent in) is never the receive buffer in this package
                for tg in a.targets:
                    self._assign(n, tg, tv, tainted, record)
                return tainted
            if isinstance(a, ast.AugAssign):
                if isinstance(a.target, ast.Name):
                    # x += view  (bytearray += view copies; numbers) -> result not a view
                    tainted.discard(a.target.id)
                return tainted
            if isinstance(a, ast.Delete):
                for tg in a.targets:
                    if isinstance(tg, ast.Name):
                        tainted.discard(tg.id)
                return tainted
        return tainted

    def _assign(self, n, tg, tv, tainted, record):
        if isinstance(tg, ast.Name):
            if tv:
                tainted.add(tg.id)
            else:
                tainted.discard(tg.id)
        elif isinstance(tg, (ast.Tuple, ast.List)):
            for e in tg.elts:
                self._assign(n, e, tv, tainted, record)
        elif isinstance(tg, ast.Attribute):
            if tv and record:
                self.sinks.append((n, 'a view of the receive buffer is stored in a field: `%s`' % U(n.ast)))
        elif isinstance(tg, ast.Subscript):
            # buf[a:b] = view  copies into buf; container[key] = view stores a reference
            if tv and record and not isinstance(tg.slice, ast.Slice):
                self.sinks.append((n, 'a view of the receive buffer is stored in a container: `%s`' % U(n.ast)))


def check(run):
    R = run
    R.rule('C01.shared', 'objects created once per class / per function definition (class-level attributes, parameter '
           'defaults) are only read: no buffer, validator, poll object, header list or option dict is shared between '
           'connections', 1)
    from .common import shared_state
    shared_state(R, 'C01.shared')
    from .common import sized_truth
    sized_truth(R, 'C01.shared')
    R.rule('C01.alias', 'no view of the reused receive buffer reaches a yield / coroutine send / field or container '
                        'store / return along _recv -> run -> WebSocket.feed -> WebsocketStream.feed -> Parser.feed', 6)
    R.rule('C01.conserve', 'each frame pulled from the parser is consumed exactly once on every path; the fragment list is '
                           'emptied after each message; _frames has no other writer', 5)
    from . import C04 as _C04f
    _C04f.frame_fresh(R, 'C01.conserve')
    R.rule('C01.dispatch', 'opcode -> message class table, class opcodes, is_* properties and the event dispatch agree; '
                           'each branch yields one event carrying the message\'s own payload attribute', 14)
    R.rule('C01.length', 'payload read count is the decoded wire length (7-bit, !H, !Q forms); header fields and '
                         'length forms decoded with the RFC 6455 layout; marker tests read the 7-bit field; awaitables '
                         'are created per read', 2)
    R.rule('C01.join', 'message payload = in-order join of bytes(frame.payload) for every frame, or the decompressor output', 3)
    R.rule('C01.bookkeeping', 'per-frame bookkeeping (text tracking / validator reset) is sound and runs for every frame', 6)
    R.rule('C01.accept', 'frame validation rejects only frames RFC 6455 / RFC 7692 forbid: every raise in Frame.validate / '
                         'validate_reserved_bits (both frame classes) sits under one of the enumerated illegal conditions', 4)
    alias(R)
    conserve(R)
    dispatch(R)
    from .common import event_fields
    event_fields(R, 'C01.dispatch', ['Text', 'Binary', 'Ping', 'Pong', 'Closed', 'Closing'])
    accept(R)
    length(R)
    from . import C04
    C04.wire(R, RID='C01.length')
    C05.awaitables_fresh(R, RID='C01.length')
    join(R)
    C05.track(R, RID='C01.bookkeeping')
    with R.as_rule('C01.bookkeeping'):
        C05.dfa(R)               # a legal text message is not refused: the validator is the RFC 3629 automaton, sees every
        C05.loop(R)              # byte once, and keeps its state between fragments and reads
    from . import C06
    with R.as_rule('C01.dispatch'):
        C04.closecodes(R)        # a Close with a valid code (1012, 1013, 3000-4999 included) is delivered, not refused
        C05.strict(R)            # Text.text / Close.reason are the strict UTF-8 decode of the whole payload
    with R.as_rule('C01.join'):
        C06.wiring(R)            # the decompressor arm of the join: contexts are kept / reset as negotiated
        C06.activate(R)          # ... and switched on whenever the reply accepts the extension
    from . import C14 as _C14, C17 as _C17
    _C14.swallow(R, RID='C01.dispatch')      # a Pong that write() refuses (closing, closed, transport) never aborts the loop:
                                             # the Ping and every message after it are still delivered
    with R.as_rule('C01.bookkeeping'):
        _C17.reset(R)                        # the parser / stream (text tracking, validator, buffer) of a connection is not
                                             # carried into the next one
    from . import C10
    R.rule('C01.samehread', 'frames that arrive in the same read as the handshake response are not counted against the 16 KiB '
                            'header bound (and so not dropped)', 5)
    C10.limit(R, RID='C01.samehread')


# ----------------------------------------------------------------------------------------------- alias
def alias(R, RID='C01.alias'):
    # source: _recv returns a view of self._buffer
    q = S + '._recv'
    g = R.cfg(q)
    rets = [r for r in g.live_nodes() if r.kind == 'stmt' and isinstance(r.ast, ast.Return)]
    views = [r for r in rets if 'memoryview(self._buffer)' in U(r.ast.value) or U(r.ast.value).startswith('self._buffer')]
    R.ob(RID, 'source: _recv returns a view of the reused buffer', True,
         '%d of %d returns alias self._buffer (the analysis treats the result as tainted either way)' % (len(views), len(rets)),
         func=q, node=None)
    chain = [(S + '.run', None, None), (WS + '.feed', None, 'data'), ('stream.WebsocketStream.feed', None, 'data'),
             ('parser.Parser.feed', CFP, 'data')]
    nxt = {S + '.run': WS + '.feed', WS + '.feed': 'stream.WebsocketStream.feed',
           'stream.WebsocketStream.feed': 'parser.Parser.feed'}
    for (fq, recv, param) in chain:
        g = R.cfg(fq, recv)
        if param is None:
            # run(): the tainted value is the result of self._recv(...)
            rc = calls_to(R, g, S + '._recv')
            need(len(rc) == 1 and isinstance(rc[0][0].ast, ast.Assign), 'run(): `data = self._recv(..)` not found')
            var = U(rc[0][0].ast.targets[0])
            t = _TaintFrom(R, g, rc[0][0], var)
        else:
            f = R.func(fq)
            need(param in f.params, '%s lost its %s parameter' % (fq, param))
            t = Taint(R, g, {param})
        for (n, why) in t.sinks:
            R.ob(RID, '%s: no aliasing sink' % fq.rsplit('.', 2)[-2], False, why, func=fq, node=n.ast)
        if not t.sinks:
            R.ob(RID, '%s: no aliasing sink' % fq.rsplit('.', 2)[-2], True, 'tainted locals never reach a sink', func=fq, node=None)
        # tainted values handed to callees: only to the next layer, or to validate() which copies
        for (n, c, i) in t.passes:
            ts = R.types.call_targets(c, g.ctx)
            quals = sorted(set(x.qual for x in ts if x.kind in ('func', 'ctor')))
            ok = False
            why = 'view passed to %s' % (quals or U(c.func))
            if fq in nxt and nxt[fq] in quals and all(qq == nxt[fq] for qq in quals):
                ok = True
            elif quals and all(qq.endswith('.validate') for qq in quals):
                ok = True
                for qq in quals:
                    tf = R.func(qq)
                    rcv = [x.recv for x in ts if x.qual == qq][0]
                    g2 = R.cfg(qq, rcv)
                    t2 = Taint(R, g2, {tf.params[1 + i] if len(tf.params) > 1 + i else tf.params[-1]})
                    if t2.sinks or any(True for _ in t2.passes):
                        ok = False
                        why = '%s keeps or forwards the view: %s' % (qq, (t2.sinks or t2.passes)[0][1] if t2.sinks else U(t2.passes[0][1]))
            elif isinstance(c.func, ast.Attribute) and c.func.attr in ('debug', 'info', 'warning', 'error', 'exception'):
                ok = True
            R.ob(RID, '%s: view handed only to the next layer / a copying validator' % fq.rsplit('.', 2)[-2], ok, why,
                 func=fq, node=c)


class _TaintFrom(Taint):
    """Taint seeded at one assignment node instead of a parameter."""
    def __init__(self, R, g, node, var):
        self._seed = (node, var)
        Taint.__init__(self, R, g, set())

    def transfer(self, n, tainted, record):
        out = Taint.transfer(self, n, tainted, record)
        if n is self._seed[0]:
            out.add(self._seed[1])
        return out


# -------------------------------------------------------------------------------------------- conserve
def conserve(R):
    q = 'stream.WebsocketStream.feed'
    g = R.cfg(q)
    rd = ReachingDefs(g)
    appends = [(n, c) for n in g.live_nodes() for c in n.calls
               if isinstance(c.func, ast.Attribute) and c.func.attr == 'append' and U(c.func.value) == 'self._frames']
    need(len(appends) == 1, 'WebsocketStream.feed: self._frames.append not found')
    an, ac = appends[0]
    fv = U(ac.args[0])
    nexts = [n for n in g.live_nodes() if fv in defs_of_node(n)]
    need(len(nexts) == 1, 'WebsocketStream.feed: frame variable has %d definitions' % len(nexts))
    nxt_ = nexts[0]
    from .common import value_cases, facts
    bm = calls_to(R, g, 'stream.WebsocketStream.build_message')
    single, whole = [], []
    for (n, c) in bm:
        if n.kind != 'yield':
            # a message that is built but not yielded at once (kept for later) is delivered out of order or late
            R.ob('C01.conserve', 'a built message is yielded where it is built', False,
                 '`%s` builds a message without yielding it there: the message is held back (delivered later, after messages '
                 'that completed after it - a Pong queued until the next data message ends)' % n.text()[:60], func=q, node=c,
                 construct='message built but not yielded at once')
            continue
        for (conds, val, site) in value_cases(R, g, n, c.args[0]):
            if isinstance(val, ast.List) and [U(e) for e in val.elts] == [fv]:
                single.append((n, conds, site))
            elif U(val) == 'self._frames':
                whole.append((n, conds, site))
            else:
                R.ob('C01.conserve', 'message built from the frame or the fragment list', False,
                     'build_message(%s)' % U(val), func=q, node=c)
    need(single and whole, 'WebsocketStream.feed: control / data message yields not found')
    consume = [n for (n, _, _) in single] + [an]
    heads = [h for h in g.live_nodes() if h.kind == 'loophead']
    ok = all_paths_pass(g, normal_succs(nxt_), consume, heads + [g.exit], skip_edge=nx)
    R.ob('C01.conserve', 'every frame is consumed', ok, 'a frame pulled from the parser can be dropped (neither queued nor '
         'delivered) on a normal path', func=q, node=nxt_.ast)
    CTL = fv + '.opcode >= 8'
    # control frames bypass the fragment list; data frames go through it
    for (n, conds, site) in single:
        fx = facts(R, g, site, start=nxt_) | set(conds)
        R.ob('C01.conserve', 'only control frames bypass the fragment list', (fv + '.is_control', True) in fx or (CTL, True) in fx,
             'single-frame message built under %s' % sorted(t for (t, p) in fx if p)[:5], func=q, node=n.ast)
    fx = facts(R, g, an, start=nxt_)
    R.ob('C01.conserve', 'data frames are queued', (fv + '.is_control', False) in fx or (CTL, False) in fx,
         'append under %s' % sorted(fx)[:5], func=q, node=ac)
    for (n, conds, site) in whole:
        fx = facts(R, g, site, start=nxt_) | set(conds)
        R.ob('C01.conserve', 'the fragment list is delivered only for a data frame', (fv + '.is_control', False) in fx or (CTL, False) in fx,
             'build_message(self._frames) reachable for a control frame', func=q, node=n.ast)
    # the list is emptied after each message, before the next frame is pulled - and only then
    clears = [n for n in g.live_nodes() if n.kind == 'stmt' and (
        (isinstance(n.ast, ast.Delete) and U(n.ast.targets[0]) == 'self._frames[:]') or
        (isinstance(n.ast, ast.Expr) and U(n.ast.value) == 'self._frames.clear()') or
        (isinstance(n.ast, ast.Assign) and U(n.ast.targets[0]) in ('self._frames', 'self._frames[:]') and U(n.ast.value) == '[]'))]
    wy = [n for (n, _, _) in whole]
    for y in set(wy):
        ok = bool(clears) and all_paths_pass(g, normal_succs(y), clears, heads + [g.exit, an], skip_edge=nx)
        R.ob('C01.conserve', 'fragment list emptied after each message', ok,
             'after a message is delivered its fragments stay queued: they are delivered again as the prefix of the next '
             'message', func=q, node=y.ast)
        fx = facts(R, g, y, start=nxt_)
        R.ob('C01.conserve', 'message completes at FIN', (fv + '.fin', True) in fx,
             'data message built under %s' % sorted(t for (t, p) in fx if p)[:5], func=q, node=y.ast)
    for cl in clears:
        bad = []
        for l in path_conditions(R, g, rd, nxt_, cl):
            if (fv + '.is_control', False) not in l and (CTL, False) not in l:
                bad.append(sorted(t for (t, p) in l if p)[:5])
        R.ob('C01.conserve', 'fragment list emptied only after a data message', not bad and
             all_paths_pass(g, normal_succs(nxt_), wy, [cl], skip_edge=nx),
             'the fragment list can be cleared while processing a control frame (or before the message was delivered): a '
             'Ping/Pong between fragments discards the fragments received so far %s' % bad[:1], func=q, node=cl.ast)
    # a data message is built only after its final frame was queued
    for y in set(wy):
        from .C04 import _paths_avoiding
        skipping = [l for l in _paths_avoiding(R, g, rd, nxt_, y, {an})
                    if (fv + '.is_control', False) in l or (CTL, False) in l]
        R.ob('C01.conserve', 'final data frame queued before the message is built', not skipping,
             'a data message can be built without its final frame', func=q, node=y.ast)
    # generic: per-message stream state (any field the stream reads back when it queues / builds messages) is not written
    # while a control frame is handled - a Ping between two fragments would change how the message around it is assembled
    cls = R.prog.classes.get('stream.WebsocketStream')
    readers = set()
    if cls is not None:
        for fi_ in R.prog.funcs.values():
            if fi_.cls is not None and fi_.cls.qual == 'stream.WebsocketStream' and fi_.name not in ('__repr__', '__str__'):
                for x in ast.walk(fi_.node):
                    if isinstance(x, ast.Attribute) and isinstance(x.ctx, ast.Load) and U(x.value) == 'self':
                        readers.add(x.attr)
    for n in g.live_nodes():
        if n.kind != 'stmt' or not isinstance(n.ast, (ast.Assign, ast.AugAssign)) or n not in g.succ_reach(nxt_):
            continue
        tgts = n.ast.targets if isinstance(n.ast, ast.Assign) else [n.ast.target]
        for t in tgts:
            if isinstance(t, ast.Attribute) and U(t.value) == 'self' and t.attr in readers and t.attr != '_frames':
                bad = []
                for l in path_conditions(R, g, rd, nxt_, n):
                    if (fv + '.is_control', False) not in l and (CTL, False) not in l:
                        bad.append(sorted(x[0] for x in l if x[1])[:4])
                R.ob('C01.conserve', 'stream state `%s` is not written while handling a control frame' % t.attr, not bad,
                     'self.%s is written on a path that a Ping/Pong/Close frame takes (%s) and read back when messages are '
                     'assembled: a control frame between the fragments of a message changes how that message is built'
                     % (t.attr, bad[:1]), func=q, node=n.ast, construct='stream field %s written for control frames' % t.attr)
    w = stores_in_package(R, '_frames')
    quals = sorted(set(c.func.qual for (c, s, t, v) in w))
    okw = all(qq in ('stream.WebsocketStream.__init__', q) for qq in quals)
    R.ob('C01.conserve', 'writers of _frames', okw, '_frames assigned in %s' % quals, func=q, node=None, construct='_frames writers %s' % quals)


# -------------------------------------------------------------------------------------------- dispatch
def dispatch(R):
    q = 'message.Message.build'
    g = R.cfg(q, 'message.Message')
    rd = ReachingDefs(g)
    opv = {'BINARY': ('message.Binary', 'data', 'Binary', 'is_binary'), 'TEXT': ('message.Text', 'text', 'Text', 'is_text'),
           'CLOSE': ('message.Close', None, None, 'is_close'), 'PING': ('message.Ping', 'data', 'Ping', 'is_ping'),
           'PONG': ('message.Pong', 'data', 'Pong', 'is_pong')}
    table = {}
    for r in [n for n in g.live_nodes() if n.kind == 'stmt' and isinstance(n.ast, ast.Return)]:
        lits = set()
        for l in path_conditions(R, g, rd, g.entry, r):
            lits = set(l) if not lits else lits & set(l)
        ops = [t.split('Opcode.')[1] for (t, p) in lits if p and t.startswith('opcode == Opcode.')]
        v = r.ast.value
        cls = None
        if isinstance(v, ast.Call):
            for t in R.types.call_targets(v, g.ctx):
                if t.kind == 'ctor':
                    cls = t.cls
                elif t.kind == 'func' and t.func.name == 'from_payload':
                    cls = t.func.cls.qual
        if len(ops) == 1:
            table[ops[0]] = (cls, v)
    for op, (cls, attr, ev, prop) in opv.items():
        got = table.get(op, (None, None))[0]
        R.ob('C01.dispatch', 'Message.build: %s -> %s' % (op, cls.split('.')[-1]), got == cls,
             'opcode %s builds %s' % (op, got), func=q, node=table.get(op, (None, None))[1], construct='build %s->%s' % (op, got))
        # the class passes its own opcode to the base constructor
        init = R.func(cls + '.__init__')
        sup = [c for c in own_nodes(init.node) if isinstance(c, ast.Call) and isinstance(c.func, ast.Attribute)
               and c.func.attr == '__init__' and c.args]
        ok = len(sup) == 1 and U(sup[0].args[0]) == 'Opcode.' + op
        R.ob('C01.dispatch', '%s declares opcode %s' % (cls.split('.')[-1], op), ok,
             '%s.__init__ passes %s' % (cls, [U(c.args[0]) for c in sup]), func=init, node=(sup[0] if sup else None))
        pf = R.func('message.Message.' + prop)
        rets = [x for x in own_nodes(pf.node) if isinstance(x, ast.Return)]
        R.ob('C01.dispatch', 'Message.%s tests opcode %s' % (prop, op), len(rets) == 1 and U(rets[0].value) == 'self.opcode == Opcode.' + op,
             '%s returns %s' % (prop, [U(r.value) for r in rets]), func=pf, node=(rets[0] if rets else None))
        if attr is not None:
            st = [s for s in own_nodes(init.node) if isinstance(s, ast.Assign) and U(s.targets[0]) == 'self.' + attr]
            p0 = [p for p in init.params if p != 'self'][0]
            R.ob('C01.dispatch', '%s stores its payload unchanged' % cls.split('.')[-1], len(st) == 1 and U(st[0].value) == p0,
                 '%s.%s = %s' % (cls, attr, [U(s.value) for s in st]), func=init, node=(st[0] if st else None))
    # the payload handed to each constructor is the joined payload variable
    for op, (cls, v) in table.items():
        if isinstance(v, ast.Call) and v.args:
            o = rd.origin([n for n in g.live_nodes() if n.kind == 'stmt' and n.ast.__dict__.get('value') is v][0], v.args[0])[0] \
                if False else v.args[0]
            R.ob('C01.dispatch', 'Message.build passes the joined payload to %s' % op, isinstance(v.args[0], ast.Name) and v.args[0].id == 'payload',
                 '%s constructed from %s' % (op, U(v.args[0])), func=q, node=v)
    # opcode read from the first frame
    ops_def = [n for n in g.live_nodes() if n.kind == 'stmt' and isinstance(n.ast, ast.Assign) and U(n.ast.targets[0]) == 'opcode']
    ok = len(ops_def) == 1
    if ok:
        o, on = rd.origin(ops_def[0], ops_def[0].ast.value.value) if isinstance(ops_def[0].ast.value, ast.Attribute) else (None, None)
        ok = isinstance(ops_def[0].ast.value, ast.Attribute) and ops_def[0].ast.value.attr == 'opcode' and U(o) == 'frames[0]'
    R.ob('C01.dispatch', 'message opcode is the first frame\'s opcode', ok, 'opcode = %s' % (U(ops_def[0].ast.value) if ops_def else None),
         func=q, node=(ops_def[0].ast if ops_def else None))
    # WebSocket.feed dispatch - constructor-site based, so that the chain may live in feed() itself or in a helper
    # whose result feed() yields
    from .common import otext, facts, deep_origin
    q2 = WS + '.feed'
    g2 = R.cfg(q2)
    rd2 = ReachingDefs(g2)
    seen = set()
    # helpers whose result is yielded by feed
    yielded_helpers = {}
    for y in g2.yields():
        if any(fr.kind == 'handler' for fr in y.frames):
            continue
        v = y.ast.value
        o, on = rd2.origin(y, v) if isinstance(v, ast.Name) else (v, y)
        if isinstance(o, ast.Call):
            for t in R.types.call_targets(o, g2.ctx):
                if t.kind == 'func' and t.func.cls is not None and t.func.cls.qual == WS and not t.func.is_generator:
                    yielded_helpers[t.func.qual] = (y, o)
    for op, (cls, attr, ev, prop) in opv.items():
        if prop == 'is_close':
            continue
        sites = []
        for cx in R.types.ctxs.values():
            if cx.recv != WS or cx.func.parent is not None or cx.func.cls is None or cx.func.cls.qual != WS:
                continue
            gg = R.cfg(cx.func.qual, cx.recv)
            for n in gg.live_nodes():
                for c in n.calls:
                    if any(t.kind == 'ctor' and t.cls == 'events.' + ev for t in R.types.call_targets(c, gg.ctx)):
                        sites.append((cx.func, gg, n, c))
        R.ob('C01.dispatch', 'one construction site for events.%s' % ev, len(sites) == 1,
             '%d construction sites of events.%s in WebSocket' % (len(sites), ev), func=q2, node=(sites[0][3] if sites else None),
             construct='events.%s sites' % ev)
        for (fi, gg, n, c) in sites:
            fx = facts(R, gg, n)
            mvar = None
            a0 = c.args[0] if c.args else None
            txt = otext(R, gg, n, a0) if a0 is not None else ''
            ok_arg = len(c.args) == 1 and txt.endswith('.' + attr) and '.' in txt
            mvar = txt.rsplit('.', 1)[0] if ok_arg else 'message'
            ok_guard = ('%s.%s' % (mvar, prop), True) in fx or ('%s.opcode == Opcode.%s' % (mvar, op), True) in fx
            reaches = False
            if fi.qual == q2 and n.kind == 'yield' and n.ast.value is c:
                reaches = True
            elif fi.qual == q2 and n.kind == 'stmt':
                # event bound to a local which is then yielded
                reaches = any(o is c for y in g2.yields() if isinstance(y.ast.value, ast.Name)
                              for (o, _on) in rd2.origins(y, y.ast.value))
            elif fi.qual in yielded_helpers and n.kind == 'stmt' and isinstance(n.ast, ast.Return) and n.ast.value is c:
                hy, hc = yielded_helpers[fi.qual]
                reaches = bool(hc.args) and otext(R, g2, hy, hc.args[0]) == 'message'
            R.ob('C01.dispatch', '%s -> events.%s(message.%s)' % (prop, ev, attr), ok_arg and ok_guard and reaches,
                 'events.%s built as %s under %s (guarded by %s: %s; reaches a yield of feed(): %s)' % (
                     ev, U(c), fi.qual, prop, ok_guard, reaches), func=fi, node=c)
            if ok_arg and ok_guard and reaches:
                seen.add(prop)
    # the Close branch: delegated to _on_close(message)
    for y in g2.yields():
        if any(fr.kind == 'handler' for fr in y.frames) or not isinstance(y.ast.value, ast.Name):
            continue
        ds = rd2.defs_at(y, y.ast.value.id)
        if ds and all(d.kind == 'for' and isinstance(d.ast.iter, ast.Call) and
                      R.types.resolves_to(d.ast.iter, g2.ctx, WS + '._on_close') for d in ds):
            fx = facts(R, g2, y)
            ok = all([otext(R, g2, d, a) for a in d.ast.iter.args] == ['message'] for d in ds) and \
                (('message.is_close', True) in fx or ('message.opcode == Opcode.CLOSE', True) in fx)
            R.ob('C01.dispatch', 'Close messages go through _on_close(message)', ok, 'close branch yields %s under %s' % (
                y.text(), sorted(t for (t, p) in fx if p)[:4]), func=q2, node=y.ast)
            if ok:
                seen.add('is_close')
    # one event per message: no event yield can be repeated without fetching the next message
    msg_loops = [n for n in g2.live_nodes() if n.kind == 'for' and any(
        isinstance(t, str) and t.startswith('gen:stream.WebsocketStream.feed') for t in R.types.expr(n.ast.iter, g2.ctx))]
    for y in g2.yields():
        if any(fr.kind == 'handler' for fr in y.frames):
            continue
        inner = [n for n in g2.live_nodes() if n.kind == 'for' and n not in msg_loops]
        again = y in g2.succ_reach(y, avoid=set(msg_loops) | set(inner), skip_edge=nx)
        R.ob('C01.dispatch', 'one event per message at `%s`' % y.text()[:40], not again,
             'the same message can be reported twice', func=q2, node=y.ast)
    R.ob('C01.dispatch', 'every message class has a dispatch branch', seen == {r[3] for r in opv.values()},
         'dispatch branches present: %s' % sorted(seen), func=q2, node=None, construct='dispatch branches %s' % sorted(seen))
    # events keep the payload: Event classes store the constructor argument unchanged
    for ev, fld in (('Text', 'text'), ('Binary', 'data'), ('Ping', 'data'), ('Pong', 'data')):
        init = R.func('events.%s.__init__' % ev)
        st = [s for s in own_nodes(init.node) if isinstance(s, ast.Assign) and U(s.targets[0]) == 'self.' + fld]
        p0 = [p for p in init.params if p != 'self'][0]
        R.ob('C01.dispatch', 'events.%s keeps its payload' % ev, len(st) == 1 and U(st[0].value) == p0,
             'events.%s.%s = %s' % (ev, fld, [U(s.value) for s in st]), func=init, node=(st[0] if st else None))
    # _on_close events carry code and reason
    q3 = WS + '._on_close'
    g3 = R.cfg(q3)
    for y in g3.yields():
        v = y.ast.value
        from .common import otext
        from .common import call_args_by_name
        evq = [t.cls for t in R.types.call_targets(v, g3.ctx) if t.kind == 'ctor'] if isinstance(v, ast.Call) else []
        ok = bool(evq) and [otext(R, g3, y, a) for a in call_args_by_name(v, R.func(evq[0] + '.__init__'))] == [
            'message.code', 'message.reason']
        R.ob('C01.dispatch', '_on_close events carry the message\'s code and reason', ok, 'yield %s' % U(v), func=q3, node=v)


# ---------------------------------------------------------------------------------------------- accept
def accept(R, RID='C01.accept'):
    """Every way frame validation can fail is one of the conditions the RFCs make illegal - a stricter test (say RSV1 on
    the first fragment of a compressed message) drops conforming messages."""
    from .common import path_conditions, interval_of
    for recv in ('frame.Frame', 'frame.CompressedFrame'):
        quals = ['frame.Frame.validate', R.prog.find_method(recv, 'validate_reserved_bits').qual]
        nsites = 0
        for fq in quals:
            g2 = R.cfg(fq, recv)
            rd2 = ReachingDefs(g2)
            for rn in g2.live_nodes():
                if not (rn.kind == 'stmt' and isinstance(rn.ast, ast.Raise)):
                    continue
                nsites += 1
                bad = []
                for l in path_conditions(R, g2, rd2, g2.entry, rn):
                    T = lambda t, p=True: (t, p) in l
                    ctl = T('self.opcode >= 8')
                    lo, hi = interval_of(R, g2.ctx, l, 'len(self.payload)')
                    legal = (
                        T('is_reserved(self.opcode)')
                        or (ctl and T('self.fin', False))
                        or (ctl and lo >= 126)
                        or T('self.rsv2') or T('self.rsv3')
                        or (T('self.rsv1') and recv == 'frame.Frame')
                        # RFC 7692 6.1: RSV1 only on the first frame of a data message
                        or (T('self.rsv1') and (ctl or T('self.opcode == Opcode.CONTINUATION'))))
                    if not legal:
                        bad.append(sorted(l))
                R.ob(RID, '%s: raise only for an illegal frame' % recv.split('.')[-1], not bad,
                     'validation of a %s fails under %s - not one of: reserved opcode, fragmented / oversize control frame, '
                     'reserved bit, RSV1 on a control or continuation frame; a conforming frame is rejected and its '
                     'message lost' % (recv.split('.')[-1], bad[:1]), func=fq, node=rn.ast,
                     construct='%s raise %s' % (recv, U(rn.ast.exc)[:60]))
        need(nsites >= 2, 'Frame.validate (%s): raise sites not found' % recv)
    # the size rules of parse() are about the payload length as decoded (any legal length encoding): a test that feeds a
    # raise reads the same definitions of the length as the payload read does
    q = 'frame_parser.FrameParser.parse'
    g = R.cfg(q, CFP)
    rd = ReachingDefs(g)
    reads = C05._payload_reads(R, g, rd)
    need(reads, 'FrameParser.parse: payload reads not found')
    site, call = reads[0][0], reads[0][1]
    lv = call.args[0].id if call.args and isinstance(call.args[0], ast.Name) else None
    need(lv is not None, 'FrameParser.parse: payload read count is not a plain variable')
    final = rd.defs_at(site, lv)
    nt = 0
    for rn in g.live_nodes():
        if not (rn.kind == 'stmt' and isinstance(rn.ast, ast.Raise)):
            continue
        for (t, lab) in g.edge_guards(rn):
            if t.kind != 'test':
                continue
            for x in walk_no_nested(t.ast):
                if not isinstance(x, ast.Name):
                    continue
                # (the marker tests `== 126`, `>= 126`, `== 127` legitimately read the 7-bit field; a size rule compares
                #  with 125 or with a large bound)
                e, n0 = x, t
                if x.id != lv:
                    e, n0 = rd.origin(t, x)          # a flag computed earlier: judged where it was computed
                    if e is x or lv not in {y.id for y in walk_no_nested(e) if isinstance(y, ast.Name)}:
                        continue
                consts = [fold(R, c_, g.ctx) for cmp_ in walk_no_nested(e if e is not x else t.ast)
                          if isinstance(cmp_, ast.Compare) for c_ in [cmp_.left] + list(cmp_.comparators)]
                consts = [c_ for c_ in consts if isinstance(c_, int) and not isinstance(c_, bool)]
                if not any(c_ == 125 or c_ >= (1 << 16) for c_ in consts):
                    continue
                nt += 1
                here = rd.defs_at(n0, lv)
                raw = {d for d in final if d.ast is not None and isinstance(d.ast, ast.Assign)
                       and not any(isinstance(x_, (ast.Yield, ast.Call)) for x_ in ast.walk(d.ast.value))}
                # (a rule placed inside the branch of one extended form reads that form's definition only - fine; reading
                #  nothing but the raw 7-bit field is not)
                ok = bool(here) and here <= final and not (here <= raw and final - raw)
                R.ob(RID, 'size rule `%s` reads the decoded length' % U(t.ast)[:50], ok,
                     'the test `%s` that leads to `%s` reads the length as defined by %s, the payload is read with the length '
                     'defined by %s: a frame whose length is carried in another (legal) encoding is judged on the wrong '
                     'number' % (U(e)[:60], U(rn.ast.exc)[:50], sorted(d.text()[:30] for d in rd.defs_at(n0, lv)),
                                 sorted(d.text()[:30] for d in final)), func=q, node=t.ast,
                     construct='size rule %s' % U(t.ast)[:50])
    need(nt >= 1, 'FrameParser.parse: no size rule on the decoded length found')
    # ... and they reject only illegal sizes: a control frame only above 125 bytes, any frame only from 2**63 on
    from .common import path_conditions, interval_of
    cons = [n for n in g.live_nodes() if n.kind == 'stmt' and isinstance(n.ast, ast.Assign) and isinstance(n.ast.value, ast.Call)
            and any(t.kind == 'ctor' and t.cls in ('frame.Frame', 'frame.CompressedFrame')
                    for t in R.types.call_targets(n.ast.value, g.ctx))]
    fv = U(cons[0].ast.targets[0]) if cons else 'frame'
    need(cons, 'FrameParser.parse: frame construction not found')
    hdr = [n for n in g.live_nodes() if n.kind == 'stmt' and isinstance(n.ast, ast.Assign) and isinstance(n.ast.value, ast.Yield)
           and isinstance(n.ast.value.value, ast.Call) and n.ast.value.value.args
           and fold(R, n.ast.value.value.args[0], g.ctx) == 2 and g.dominates(n, cons[0])
           and any(fr.kind == 'loop' for fr in n.frames)]
    if not hdr:
        # the header awaitable is not built at the yield (kept in a local / field): any suspension point of the frame loop
        # that precedes the frame construction
        hdr = [n for n in g.live_nodes() if n.kind == 'stmt' and isinstance(n.ast, ast.Assign)
               and isinstance(n.ast.value, ast.Yield) and g.dominates(n, cons[0]) and any(fr.kind == 'loop' for fr in n.frames)]
        hdr = [h for h in hdr if not any(o is not h and g.dominates(o, h) for o in hdr)]         # the first of them
    need(hdr, 'FrameParser.parse: header read not found')
    hdr = [h for h in hdr if not any(o is not h and g.dominates(h, o) for o in hdr)] or hdr     # the one nearest the frame
    # names that carry the payload length: the read count and whatever it is copied from / to
    lnames = {lv}
    for _ in range(3):
        for n_ in g.live_nodes():
            if n_.kind == 'stmt' and isinstance(n_.ast, ast.Assign) and len(n_.ast.targets) == 1:
                t_, v_ = n_.ast.targets[0], n_.ast.value
                if isinstance(t_, ast.Name) and isinstance(v_, ast.Name) and (t_.id in lnames or v_.id in lnames):
                    lnames |= {t_.id, v_.id}
    for rn in g.live_nodes():
        if not (rn.kind == 'stmt' and isinstance(rn.ast, ast.Raise)):
            continue
        bad = []
        for l in path_conditions(R, g, rd, hdr[0], rn):
            lo = max(interval_of(R, g.ctx, l, nm_)[0] for nm_ in sorted(lnames))
            ctl = ('%s.opcode >= 8' % fv, True) in l or ('opcode >= 8', True) in l
            if not ((ctl and lo >= 126) or lo >= (1 << 63)):
                bad.append((lo, sorted(l)[:5]))
        R.ob(RID, 'parse(): `%s` only for an illegal size' % U(rn.ast.exc)[:40], not bad,
             'parse() raises %s for a frame whose length can be as small as %s (%s): legal frames - a 125-byte Ping, a large data '
             'frame below 2**63 - are refused and everything after them is lost' % (
                 U(rn.ast.exc)[:50], bad[0][0] if bad else '', bad[0][1] if bad else ''), func=q, node=rn.ast,
             construct='parse raise %s' % U(rn.ast.exc)[:50])


# ---------------------------------------------------------------------------------------------- length
def length(R):
    q = 'frame_parser.FrameParser.parse'
    g = R.cfg(q, CFP)
    rd = ReachingDefs(g)
    reads = C05._payload_reads(R, g, rd)
    need(len(reads) >= 2, 'FrameParser.parse: payload reads not found')
    lendefs = None
    for (site, call, extra, y) in reads:
        a = call.args[0] if call.args else None
        need(isinstance(a, ast.Name), 'payload read count is not a plain variable: %s' % U(a))
        ds = rd.defs_at(site, a.id)
        kinds = []
        ok = True
        for d in ds:
            v = d.ast.value if isinstance(d.ast, ast.Assign) else None
            if isinstance(v, ast.Name):
                to = rd.tuple_origin(d, v)           # decoded into a local first
                if to is not None:
                    v = to[0]
                else:
                    v = rd.origin(d, v)[0]           # the 7-bit field kept under another name first
            bits = C04._bits(v, {x.id for x in ast.walk(v) if isinstance(x, ast.Name) and x.id not in ('bool', 'int')}) \
                if v is not None else None
            if bits is not None and bits[1:] == (0, 127):
                kinds.append('7bit')
            elif isinstance(v, ast.Call) and (struct_format(R, g.ctx, v) or ('', ''))[1] in ('!H', '!Q'):
                kinds.append(struct_format(R, g.ctx, v)[1])
            elif isinstance(v, ast.Call) and struct_format(R, g.ctx, v) == ('unpack', '!int'):
                # int.from_bytes(<k bytes read>, 'big'): the big-endian decode of that many bytes
                ys_ = [y_ for y_ in walk_no_nested(v) if isinstance(y_, ast.Yield)]
                k_ = fold(R, ys_[0].value.args[0], g.ctx) if ys_ and isinstance(ys_[0].value, ast.Call) and ys_[0].value.args else None
                kinds.append({2: '!H', 8: '!Q'}.get(k_, U(v)))
                ok = ok and k_ in (2, 8)
            else:
                ok = False
                kinds.append(U(v))
        R.ob('C01.length', 'payload read count is the decoded length', ok and sorted(kinds) == ['!H', '!Q', '7bit'],
             'read count %s is defined by %s' % (a.id, sorted(kinds)), func=q, node=y.stmt)


# ------------------------------------------------------------------------------------------------ join
def join(R):
    q = 'message.Message.build'
    g = R.cfg(q, 'message.Message')
    rd = ReachingDefs(g)
    f = R.func(q)
    frames = f.params[1]
    defs = [n for n in g.live_nodes() if n.kind == 'stmt' and isinstance(n.ast, ast.Assign) and U(n.ast.targets[0]) == 'payload']
    need(len(defs) >= 2, 'Message.build: expected two definitions of the payload (inflate / join), found %d' % len(defs))
    # (every definition is judged: a third arm that hands out frame.payload itself - a bytearray - is not a join)
    for d in defs:
        v = d.ast.value
        if isinstance(v, ast.Call) and R.types.resolves_to(v, g.ctx, 'message.Message.decompress_frames'):
            ok = U(v.args[0]) == frames and is_param(rd, d, v.args[0], frames)
            R.ob('C01.join', 'inflate arm receives the whole fragment list', ok, 'decompress_frames(%s)' % U(v.args[0]), func=f, node=v)
            continue
        from .common import deep_origin
        if isinstance(v, ast.Call) and U(v.func) != "b''.join":
            v = deep_origin(R, g, d, v)
        jarg = v.args[0] if isinstance(v, ast.Call) and U(v.func) == "b''.join" and len(v.args) == 1 else None
        if isinstance(jarg, ast.Name):
            # the list of payloads built in a local first
            jarg = rd.origin(d, jarg)[0]
        ok = isinstance(jarg, (ast.GeneratorExp, ast.ListComp))
        if ok:
            ge = jarg
            gen = ge.generators[0]
            elt = ge.elt
            if isinstance(elt, ast.Call) and U(elt.func) in ('bytes', 'bytearray') and elt.args:
                inner = elt.args[0]
            else:
                inner = elt
            ok = len(ge.generators) == 1 and not gen.ifs and U(gen.iter) == frames \
                and U(inner) == '%s.payload' % U(gen.target)
        R.ob('C01.join', 'payload = in-order join of every fragment', ok, 'payload = %s' % U(v), func=f, node=v)
        fresh = isinstance(v, ast.Call) and U(v.func) == "b''.join"
        R.ob('C01.join', 'joined payload is a fresh immutable bytes object', fresh, 'payload = %s' % U(v), func=f, node=v)
    # ... and every message that carries a payload is made from that payload: no path returns a message assembled some other
    # way (fragments decoded one by one, the first frame only)
    for r in g.live_nodes():
        if not (r.kind == 'stmt' and isinstance(r.ast, ast.Return) and isinstance(r.ast.value, ast.Call)):
            continue
        c = r.ast.value
        args = [a for a in list(c.args) + [k.value for k in c.keywords] if U(a) not in ('opcode', 'cls')]
        if not args:
            continue
        a = args[0]
        ds = rd.defs_at(r, a.id) if isinstance(a, ast.Name) else set()
        ok = len(args) == 1 and bool(ds) and ds <= set(defs)
        ok = ok and all_paths_pass(g, [g.entry], defs, [r], skip_edge=nx)
        R.ob('C01.join', 'message made from the joined payload', bool(ok),
             '`%s` builds the message from %s, not from the joined (or inflated) payload of all fragments: fragments handled '
             'one by one lose what straddles a frame boundary (a code point split across two frames)' % (U(r.ast)[:70], U(a)[:50]),
             func=f, node=r.ast, construct='message from %s' % U(a)[:50])
