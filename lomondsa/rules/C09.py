"""C09 - transport failures become events, never exceptions or hangs."""
import ast

from ..program import AnalysisError, U, own_nodes, walk_no_nested
from ..dataflow import ReachingDefs, defs_of_node
from ..consteval import fold
from ..excflow import SOCKET_OPS
from .common import (need, guards_of, calls_to, ext_calls, all_paths_pass, succs, normal_succs, path_conditions,
                     is_param, arg_of, default_of, stores_in_package)
from . import C08

PROPERTY = 'C09'
LEVEL = 'other'
EXPLANATION = (
    'Fault enumeration by exception flow: every call site of a transport operation in the package is listed; under the '
    'fault model (OSError or an arbitrary Exception at each of them) the CFG of run() with exception edges has no path '
    'to an escaping exception, every handler reached from a point where the socket may be open closes it and then '
    'yields the terminal event, and no handler lets the receive loop continue after a transport fault; write() can '
    'only raise WebSocketError subclasses built from constant format strings; library-initiated writes catch every '
    'WebSocketError write() can raise; every resolved address is tried; a socket is closed on every exceptional exit '
    'of the function holding it before publication; self._sock is nulled only after close; graceful=True only on the '
    'normal-exit path.')
NOT_DECIDED = 'hang-freedom in real time; faults inside selector construction (outside the table, stated assumption)'
ASSUMPTIONS = ['fault model: each transport operation may raise OSError or an arbitrary Exception subclass; calls outside '
               'the table do not raise']

S = 'session.WebsocketSession'
WS = 'websocket.WebSocket'
nx = lambda a, b, l: l.startswith('exc:')
TRANSPORT = {'socket.getaddrinfo', 'socket.socket', 'socket.connect', 'socket.sendall', 'socket.send', 'socket.recv',
             'socket.recv_into', 'socket.shutdown', 'socket.close', 'sslctx.wrap_socket', 'ssl.wrap_socket',
             'poll.poll', 'select.select', 'kqueue.control'}


def check(run):
    R = run
    R.rule('C09.shared', 'objects created once per class / per function definition (class-level attributes, parameter '
           'defaults) are only read: no buffer, validator, poll object, header list or option dict is shared between '
           'connections', 1)
    from .common import shared_state
    shared_state(R, 'C09.shared')
    R.rule('C09.sites', 'every transport-operation call site is on a call path from run() whose faults are absorbed; no '
                        'exception escapes run(); post-publication handlers close the socket then yield the terminal '
                        'event; no handler resumes the loop after a transport fault', 16)
    from .common import exception_text_total as _ett
    _ett(R, 'C09.sites')        # '{}'.format(error) in the failure handlers cannot itself fail
    R.rule('C09.apiwrap', 'write() raises only WebSocketError subclasses, built from constant format strings', 3)
    R.rule('C09.swallow', 'library-initiated sends absorb every WebSocketError write() can raise', 3)
    R.rule('C09.tryall', 'address loop: every socket failure continues with the next address; break only after a '
                         'successful connect; failure declared after the loop', 4)
    R.rule('C09.release', 'a socket is closed on every exceptional exit of the function holding it before publication', 2)
    R.rule('C09.socknull', 'self._sock is written only by __init__, run() (publication), _close_socket (after close) and '
                           'close(); _close_socket never raises and nulls _sock on every path', 4)
    R.rule('C09.graceful', 'graceful=True only on the normal-exit path; EOF while active is a failure', 4)
    from .common import event_fields as _event_fields
    _event_fields(R, 'C09.graceful', ['Disconnected', 'ConnectFail'])      # graceful / reason as constructed
    from .common import maybe_unbound
    maybe_unbound(R, 'C09.sites')
    sites(R)
    apiwrap(R)
    api_escapes(R)
    swallow(R)
    tryall(R)
    release(R)
    socknull(R)
    C08.client(R, RID='C09.graceful')
    with R.as_rule('C09.graceful'):
        C08.writers(R)           # who may mark the websocket closed (a send path may not)
    C08.eof(R, RID='C09.graceful')
    from . import C15
    R.rule('C09.hang', 'no hang after a failed or unanswered Close: the close time is recorded whenever close() was '
                       'attempted and the close timeout fires when due', 3)
    C15.close(R, RID='C09.hang')
    from . import C18 as _C18
    with R.as_rule('C09.hang'):
        _C18.level(R)            # an error / invalid-descriptor wake-up (POLLERR, POLLNVAL alone) is "readable": recv() is what
                                 # turns it into Disconnected - a selector that filters the mask spins on it for ever
    proxyread(R)
    teardown(R)
    from . import C13
    C13.closes(R, RID='C09.release')       # ... and the socket is closed: also when shutdown / unwrap fail first
    request_first(R, 'C09.sites')
    handlers_total(R, 'C09.sites')
    from . import C16
    R.rule('C09.persist', 'persist(): nothing can be raised out of the reconnecting iterator (the connection generator '
                          'lets no exception out; the back-off arithmetic cannot overflow)', 10)
    with R.as_rule('C09.persist'):
        C16.check(R)


def handlers_total(R, RID):
    """The handlers of run() that turn a failure into the terminal event run at any time - also before Ready, when the
    timer fields (_last_pong, _next_ping, _poll_start: None until Ready) hold no number yet.  Arithmetic / ordering on such a
    field inside a handler needs an `is not None` guard, else the handler itself raises TypeError and no event is produced."""
    init = R.func(S + '.__init__')
    none_fields = set()
    for x in own_nodes(init.node):
        if isinstance(x, ast.Assign) and isinstance(x.value, ast.Constant) and x.value.value is None:
            for t in x.targets:
                if isinstance(t, ast.Attribute) and U(t.value) == 'self':
                    none_fields.add(t.attr)
    none_fields -= {'_sock'}
    q = S + '.run'
    g = R.cfg(q)
    # _start_time is set at the top of run(): not None in its handlers
    set_early = set()
    for n in g.live_nodes():
        if n.kind == 'stmt' and isinstance(n.ast, ast.Assign) and not any(fr.kind in ('try', 'handler', 'loop') for fr in n.frames):
            for t in n.ast.targets:
                if isinstance(t, ast.Attribute) and U(t.value) == 'self':
                    set_early.add(t.attr)
    fields = none_fields - set_early
    n_h = 0
    for n in g.live_nodes():
        if not any(fr.kind == 'handler' for fr in n.frames) or n.ast is None or n.kind not in ('stmt', 'test', 'yield'):
            continue
        n_h += 1
        for x in walk_no_nested(n.ast):
            ops = []
            if isinstance(x, ast.BinOp):
                ops = [x.left, x.right]
            elif isinstance(x, ast.Compare) and any(isinstance(o, (ast.Lt, ast.LtE, ast.Gt, ast.GtE)) for o in x.ops):
                ops = [x.left] + list(x.comparators)
            for o in ops:
                if isinstance(o, ast.Attribute) and U(o.value) == 'self' and o.attr in fields:
                    gl = {(t, p) for (t, p, _) in guards_of(g, n)}
                    ok = ('self.%s is None' % o.attr, False) in gl or ('self.%s is not None' % o.attr, True) in gl \
                        or ('self.%s' % o.attr, True) in gl
                    R.ob(RID, 'failure handlers of run() do not compute with unset timers', ok,
                         '`%s` in a failure handler of run() computes with self.%s, which is None until Ready: for a failure '
                         'during the handshake the handler raises TypeError and the terminal event is never produced' % (
                             U(x)[:60], o.attr), func=q, node=x, construct='handler arithmetic on self.%s' % o.attr)
    need(n_h >= 6, 'run(): handler statements not found')
    R.ob(RID, 'failure handlers of run() scanned', True, '', func=q, node=None, construct='run handlers scan')


def request_first(R, RID):
    """The upgrade request is written before the application is told the connection is up: a failed request write is a
    ConnectFail (nothing was announced), and nothing the application does at Connected can get onto the wire first."""
    q = S + '.run'
    g = R.cfg(q)
    sr = [n for (n, _) in calls_to(R, g, S + '._send_request')]
    yc = [y for y in g.yields() if isinstance(y.ast.value, ast.Call) and any(
        t.kind == 'ctor' and t.cls == 'events.Connected' for t in R.types.call_targets(y.ast.value, g.ctx))]
    need(len(yc) == 1 and sr, 'run(): Connected yield / _send_request call not found')
    ok = all_paths_pass(g, [g.entry], sr, [yc[0]], skip_edge=nx)
    R.ob(RID, 'the upgrade request is sent before Connected is yielded', ok,
         'run() yields Connected before _send_request(): a failing request write then ends a connection that was announced '
         'as up with ConnectFail (no Disconnected), and a close() / send at Connected reaches the wire before the request',
         func=q, node=yc[0].ast, construct='request before Connected')


def teardown(R):
    """selector.close() runs in run()'s finally clause, outside every handler.  poll.unregister / modify raise KeyError
    for a descriptor that is not registered (any more), kqueue.control(...KQ_EV_DELETE) likewise ENOENT: a registration is
    dropped at one place only - in close(), not in a loop - so that it cannot be dropped twice."""
    n = 0
    for cq in sorted(R.prog.subclasses('selectors.SelectorBase')):
        sites_ = []
        for fq, fi in sorted(R.prog.funcs.items()):
            if fi.cls is None or fi.cls.qual != cq:
                continue
            try:
                cx = R.types.ctx(fq, cq)
            except AnalysisError:
                continue
            parents = R.types.parents(fi)
            for x in own_nodes(fi.node):
                if isinstance(x, ast.Call) and any(t.kind == 'ext' and t.name in ('poll.unregister', 'poll.modify')
                                                   for t in R.types.call_targets(x, cx)):
                    p_ = parents.get(id(x))
                    inloop = False
                    while p_ is not None and p_ is not fi.node:
                        if isinstance(p_, (ast.For, ast.While, ast.ListComp, ast.GeneratorExp)):
                            inloop = True
                        p_ = parents.get(id(p_))
                    sites_.append((fi, x, inloop))
        n += 1
        ok = not sites_ or (len(sites_) == 1 and sites_[0][0].name == 'close' and not sites_[0][2])
        R.ob('C09.sites', '%s: a poll registration is dropped once' % cq.split('.')[-1], ok,
             '%s un-registers descriptors at %s: unregister() raises KeyError for a descriptor that was already dropped, and '
             'run() calls selector.close() in its finally clause, outside every handler - the KeyError leaves the event '
             'iterator' % (cq, ['%s%s' % (f_.qual, ' (in a loop)' if l_ else '') for (f_, _, l_) in sites_]),
             func=(sites_[0][0] if sites_ else None), node=(sites_[0][1] if sites_ else None),
             construct='%s unregister sites' % cq)
    need(n >= 3, 'selector classes not found')


def sites(R):
    # enumerate transport call sites
    found = []
    seen = set()
    for cx in R.types.ctxs.values():
        f = cx.func
        if f.qual in seen or f.module.name not in ('session', 'selectors'):
            continue
        if f.cls is not None and cx.recv != f.cls.qual:
            continue
        seen.add(f.qual)
        for n in own_nodes(f.node):
            if isinstance(n, ast.Call):
                for t in R.types.call_targets(n, cx):
                    if t.kind == 'ext' and t.name in TRANSPORT:
                        found.append((f, n, t.name))
    need(len(found) >= 13, 'only %d transport call sites found (13 confirmed by hand)' % len(found))
    # call-graph: function containing the site is reachable from run (or is an application-thread API: write)
    reach = _reachable_funcs(R, S + '.run')
    for (f, call, name) in found:
        ok = f.qual in reach
        R.ob('C09.sites', '%s in %s' % (name, f.name), ok, 'transport call outside run()\'s call graph', func=f, node=call)
    R.extra['transport_call_sites'] = ['%s: %s' % (f.qual, U(c)) for (f, c, n) in found]
    q = S + '.run'
    g = R.cfg(q, fault='arbitrary')
    toks = sorted(set(l[4:] for (m, l) in g.raise_exit.pred))
    R.ob('C09.sites', 'no exception escapes the event iterator', not toks,
         'under the fault model %s can propagate out of run()' % toks, func=q, node=None, construct='run escapes %s' % toks)
    # publication point
    from .common import sock_publications
    pub = sock_publications(g)
    need(len(pub) == 1, 'run(): publication `self._sock = sock` not found')
    after = g.succ_reach(pub[0])
    cs = [n for (n, _) in calls_to(R, g, S + '._close_socket')]
    heads = [h for h in g.live_nodes() if h.kind == 'loophead']
    for h in [n for n in g.live_nodes() if n.kind == 'handler']:
        srcs = [(p, l) for (p, l) in h.pred if l.startswith('exc:')]
        toks_h = sorted(set(l[4:] for (p, l) in srcs))
        if toks_h == ['GeneratorExit']:
            continue
        post = [p for (p, l) in srcs if p in after]
        ys = [y for y in g.reachable([h], skip_edge=nx) if y.kind == 'yield']
        term = [y for y in ys if isinstance(y.ast.value, ast.Call) and any(
            t.kind == 'ctor' and t.cls in ('events.ConnectFail', 'events.Disconnected') for t in R.types.call_targets(y.ast.value, g.ctx))]
        ok = bool(term) and all_paths_pass(g, [h], term, [g.exit], skip_edge=nx)
        R.ob('C09.sites', 'handler %s yields the terminal event' % h.text(), ok,
             'a transport fault handled here does not end in ConnectFail/Disconnected', func=q, node=h.ast)
        if post:
            okc = bool(cs) and all(all_paths_pass(g, [h], cs, [y], skip_edge=nx) for y in term) and bool(term)
            R.ob('C09.sites', 'handler %s closes the socket first' % h.text(), okc,
                 'the socket may be open when this handler runs (faults from %s) but it reports the terminal event '
                 'without _close_socket()' % sorted(set(p.text()[:40] for p in post))[:2], func=q, node=h.ast)
        loops_back = any(hd in g.reachable([h], skip_edge=nx) for hd in heads)
        R.ob('C09.sites', 'handler %s does not resume the loop' % h.text(), not loops_back,
             'after catching %s the receive loop continues: a persistent transport error makes it spin without ever '
             'producing Disconnected' % toks_h, func=q, node=h.ast)
    # inner handlers anywhere inside the loop (e.g. around selector.wait) must not swallow-and-continue either:
    # covered above since every handler node of run() is visited.
    # _recv converts socket errors
    g2 = R.cfg(S + '._recv', fault='arbitrary')
    esc = sorted(set(l[4:] for (m, l) in g2.raise_exit.pred))
    R.ob('C09.sites', '_recv turns socket errors into _SocketFail', 'session._SocketFail' in esc and 'OSError+' not in esc,
         '_recv escapes %s' % esc, func=S + '._recv', node=None, construct='_recv escapes %s' % esc)


def _reachable_funcs(R, root):
    seen = set()
    work = [root]
    edges = {}
    for tq, sites_ in R.types.callers.items():
        for (c, call, t) in sites_:
            src = c.func.qual
            while '.' in src and src not in R.prog.funcs:
                src = src.rsplit('.', 1)[0]
            edges.setdefault(c.func.qual, set()).add(tq)
            if c.func.parent is not None:
                edges.setdefault(c.func.parent.qual, set()).add(c.func.qual)
    while work:
        q = work.pop()
        if q in seen:
            continue
        seen.add(q)
        for t in edges.get(q, ()):
            work.append(t)
        f = R.prog.funcs.get(q)
        if f is not None:
            for nf in f.nested.values():
                work.append(nf.qual)
    return seen


def apiwrap(R):
    q = S + '.write'
    g = R.cfg(q, fault='arbitrary')
    esc = sorted(set(l[4:] for (m, l) in g.raise_exit.pred))
    bad = [t for t in esc if 'errors.WebSocketError' not in R.exc.supers(t)]
    R.ob('C09.apiwrap', 'write() raises only WebSocketError subclasses', not bad,
         'write() can raise %s: application send calls would see a non-WebSocketError' % bad, func=q, node=None,
         construct='write escapes %s' % bad)
    # constructor calls of WebSocketError subclasses in handlers of external exceptions: constant format string
    n_sites = 0
    for cx in R.types.ctxs.values():
        f = cx.func
        if f.cls is not None and cx.recv != f.cls.qual:
            continue
        for h in own_nodes(f.node):
            if not isinstance(h, ast.ExceptHandler) or h.type is None or not h.name:
                continue
            toks = R.exc.handler_tokens(h, cx)
            if not any(t in ('OSError', 'Exception', 'BaseException') for t in toks):
                continue
            for x in ast.walk(h):
                if isinstance(x, ast.Raise) and isinstance(x.exc, ast.Call):
                    ts = R.types.call_targets(x.exc, cx)
                    if any(t.kind == 'ctor' and 'errors.WebSocketError' in R.prog.mro(t.cls) for t in ts):
                        n_sites += 1
                        a0 = x.exc.args[0] if x.exc.args else None
                        uses_err = a0 is not None and any(isinstance(y, ast.Name) and y.id == h.name for y in ast.walk(a0))
                        ok = isinstance(a0, ast.Constant) or not uses_err
                        R.ob('C09.apiwrap', 'error text passed as a format argument (%s)' % f.name, ok,
                             'the caught exception\'s text is formatted into the message *template* `%s`; '
                             'WebSocketError.__init__ formats it again, so braces in the OS error text raise '
                             'KeyError/IndexError instead of the WebSocketError' % U(a0), func=f, node=x.exc)
    need(n_sites >= 2, 'write(): TransportFail construction sites not found')
    # WebSocketError.__init__ really formats
    f = R.func('errors.WebSocketError.__init__')
    fm = [x for x in own_nodes(f.node) if isinstance(x, ast.Call) and isinstance(x.func, ast.Attribute) and x.func.attr == 'format']
    R.ob('C09.apiwrap', 'WebSocketError formats msg with its arguments', len(fm) >= 1 and all(U(x.func.value) == f.params[1] for x in fm), 'WebSocketError.__init__ body', func=f,
         node=None, construct='WebSocketError.__init__')


def api_escapes(R, RID='C09.apiwrap'):
    """What the application-facing send methods and close() can raise (exception-flow closure over everything they call):
    argument errors (TypeError / ValueError) and WebSocketError subclasses - no internal control-flow exception of the event
    loop (_ForceDisconnect, _SocketFail), no bare OSError."""
    for m in ('send_text', 'send_binary', 'send_ping', 'send_pong', 'send_json', 'close'):
        q = WS + '.' + m
        cx = R.types.ctx(q)
        esc = sorted(R.exc.escapes(cx))
        bad = [t for t in esc if t.rstrip('+') not in ('TypeError', 'ValueError', 'zlib.error')
               and 'errors.WebSocketError' not in R.exc.supers(t.rstrip('+'))]
        R.ob(RID, '%s() raises only argument errors and WebSocketErrors' % m, not bad,
             '%s() can raise %s: the application sees an exception that is not a WebSocketError subclass (an internal signal of '
             'the event loop escaping into application code)' % (m, bad), func=q, node=None, construct='%s escapes %s' % (m, bad))


def swallow(R):
    wesc = R.exc_arb.escapes(R.ctx(S + '.write'))
    fam = {t for t in wesc if 'errors.WebSocketError' in R.exc.supers(t)}
    for q, what in ((S + '._send_pong', 'automatic Pong'), (S + '._check_auto_ping', 'automatic Ping'),
                    (WS + '._send_close', 'Close frame')):
        esc = R.exc_arb.escapes(R.ctx(q))
        leak = sorted(t for t in esc if t in fam and not (q.endswith('_send_close') and t in (
            'errors.WebSocketClosed', 'errors.WebSocketClosing') and False))
        R.ob('C09.swallow', '%s: write failures absorbed' % what, not leak,
             '%s raised by write() while sending the %s escapes %s and disturbs the event loop' % (leak, what, q),
             func=q, node=None, construct='%s leaks %s' % (q, leak))


def tryall(R):
    q = S + '._connect_sock'
    g = R.cfg(q, fault='oserror')
    rd = ReachingDefs(g)
    fl = [n for n in g.live_nodes() if n.kind == 'for']
    need(len(fl) == 1, '_connect_sock: address loop not found')
    fl = fl[0]
    ga = ext_calls(R, g, {'socket.getaddrinfo'})
    ok = len(ga) == 1 and isinstance(rd.origin(fl, fl.ast.iter)[0], ast.Call) and rd.origin(fl, fl.ast.iter)[0] is ga[0][1]
    R.ob('C09.tryall', 'loop over every resolved address', ok, 'loop iterates %s' % U(fl.ast.iter), func=q, node=fl.ast)
    body = set(n for n in g.live_nodes() if any(fr.kind == 'loop' and fr.stmt is fl.ast for fr in n.frames))
    for h in [n for n in body if n.kind == 'handler']:
        reach = g.reachable([h], avoid={fl}, skip_edge=nx)
        frontier = [m for m in reach if m not in body and m is not fl and any(pn in body or pn is h for (pn, _) in m.pred)]
        # feasible ways out only: `sock = None` in the handler followed by `if sock is not None: break` does not leave
        leaves = any(path_conditions(R, g, rd, h, m, avoid={fl}) for m in frontier)
        back = fl in g.reachable([h], skip_edge=nx)
        R.ob('C09.tryall', 'failure at one address moves on to the next', back and not leaves,
             'a socket failure for one address ends the attempt instead of trying the remaining addresses', func=q, node=h.ast)
        # ... and the handler itself does not fail: a sockaddr has 2 (IPv4) or 4 (IPv6) items, so unpacking one into a
        # fixed number of names raises ValueError for the other family, inside the handler, which ends the whole attempt
        for m in reach:
            if m in body and m.kind == 'stmt' and isinstance(m.ast, ast.Assign) and any(
                    isinstance(t_, (ast.Tuple, ast.List)) for t_ in m.ast.targets):
                v_ = m.ast.value
                fixed = isinstance(v_, (ast.Tuple, ast.List)) and any(
                    isinstance(t_, (ast.Tuple, ast.List)) and len(t_.elts) == len(v_.elts) for t_ in m.ast.targets)
                R.ob('C09.tryall', 'the failure handler cannot fail itself', fixed,
                     '`%s` in the handler of a failed address unpacks a value whose length depends on the address family: '
                     'for the other family it raises ValueError inside the handler - the remaining addresses are never '
                     'tried and the socket is not closed' % m.text()[:60], func=q, node=m.ast,
                     construct='unpacking in the address failure handler')
    brk = [n for n in body if n.kind == 'stmt' and isinstance(n.ast, ast.Break)]
    conn = [n for (n, _) in ext_calls(R, g, {'socket.connect'})]
    ok = bool(brk) and bool(conn) and all(all_paths_pass(g, succs(fl, 'body'), conn, [b], skip_edge=nx) for b in brk)
    R.ob('C09.tryall', 'break only after a successful connect', ok, 'the loop can be left before connect() succeeded', func=q,
         node=(brk[0].ast if brk else None), construct='address loop break')
    fails = [n for (n, _) in calls_to(R, g, S + '._socket_fail')]
    inloop = [n for n in fails if n in body]
    R.ob('C09.tryall', 'failure declared only after the loop', not inloop and bool(fails), 'connect failure raised inside the loop',
         func=q, node=(inloop[0].ast if inloop else None), construct='failure inside loop')
    rets = [n for n in g.live_nodes() if n.kind == 'stmt' and isinstance(n.ast, ast.Return)]
    ok = bool(rets) and all({(t, p) for (t, p, _) in guards_of(g, r)} >= {('sock is None', False)} for r in rets)
    R.ob('C09.tryall', 'returns only a connected socket', ok, '_connect_sock can return without a socket', func=q, node=None,
         construct='return guard')


def release(R):
    # _connect_proxy: socket from _connect_sock(); every exceptional exit afterwards closes it
    q = S + '._connect_proxy'
    g = R.cfg(q, fault='arbitrary')
    rd = ReachingDefs(g)
    acq = [n for (n, c) in calls_to(R, g, S + '._connect_sock')]
    need(len(acq) == 1 and isinstance(acq[0].ast, ast.Assign), '_connect_proxy: socket acquisition not found')
    sv = U(acq[0].ast.targets[0])
    closes = [n for n in g.live_nodes() for c in n.calls if U(c.func) == sv + '.close']
    held = g.succ_reach(acq[0], skip_edge=nx)
    leaks = []
    for n in held:
        for (m, l) in n.succ:
            if l.startswith('exc:') and n not in closes:
                if g.raise_exit in g.reachable([m], avoid=set(closes)):
                    leaks.append((n, l[4:]))
    R.ob('C09.release', '_connect_proxy closes the proxy socket on every failure', not leaks,
         'after the proxy socket is connected, %s raised at `%s` leaves _connect_proxy without closing it' % (
             leaks[0][1] if leaks else '', leaks[0][0].text()[:60] if leaks else ''), func=q,
         node=(leaks[0][0].ast if leaks else None), construct='proxy socket leak')
    # _connect_sock: a failed connect closes the socket
    q = S + '._connect_sock'
    g = R.cfg(q, fault='oserror')      # release is judged for socket errors; the arbitrary model is for the event stream
    conn = ext_calls(R, g, {'socket.connect'})
    need(len(conn) == 1, '_connect_sock: connect call not found')
    n, c = conn[0]
    sv = U(c.func.value)
    closes = [m for m in g.live_nodes() for c2 in m.calls if U(c2.func) == sv + '.close']
    heads = [m for m in g.live_nodes() if m.kind == 'for']
    leaks = []
    for (m, l) in n.succ:
        if l.startswith('exc:'):
            r = g.reachable([m], avoid=set(closes))
            if g.raise_exit in r or any(h in r for h in heads) or g.exit in r:
                leaks.append(l[4:])
    R.ob('C09.release', '_connect_sock closes a socket whose connect failed', not leaks,
         'a failed connect() (%s) leaves the created socket open' % leaks, func=q, node=c, construct='connect failure leak %s' % leaks)


def socknull(R):
    w = [(c, s, t, v) for (c, s, t, v) in stores_in_package(R, '_sock')
         if any(x == 'inst:' + S for x in R.types.expr(t.value, c))]
    quals = sorted(set(c.func.qual for (c, s, t, v) in w))
    R.ob('C09.socknull', 'writers of self._sock', quals == sorted([S + '.__init__', S + '.run', S + '._close_socket', S + '.close']),
         'self._sock is written in %s: nulling it elsewhere makes _close_socket() a no-op and leaks the descriptor' % quals,
         func=(w[0][0].func if w else None), node=None, construct='_sock writers %s' % quals)
    q = S + '._close_socket'
    g = R.cfg(q, fault='arbitrary')
    esc = sorted(set(l[4:] for (m, l) in g.raise_exit.pred))
    R.ob('C09.socknull', '_close_socket never raises', not esc, '_close_socket escapes %s' % esc, func=q, node=None,
         construct='_close_socket escapes %s' % esc)
    st = [n for n in g.live_nodes() if n.kind == 'stmt' and isinstance(n.ast, ast.Assign) and U(n.ast.targets[0]) == 'self._sock']
    # every path to the exit either stores None or has found the socket absent already (early return or guard)
    from ..dataflow import ReachingDefs as _RD
    bad = [sorted(l) for l in path_conditions(R, g, _RD(g), g.entry, g.exit, through_exc=True, avoid=set(st))
           if ('self._sock is None', True) not in l]
    ok = not bad
    R.ob('C09.socknull', '_close_socket leaves _sock None on every path', ok and bool(st), '_sock can stay set after _close_socket()',
         func=q, node=None, construct='_close_socket nulls')
    cl = ext_calls(R, g, {'socket.close'})
    ok = len(cl) >= 1 and all(all_paths_pass(g, [g.entry], [n for (n, _) in cl], [s], skip_edge=nx) for s in st)
    # on the normal path the close call precedes the None store
    R.ob('C09.socknull', 'socket closed before it is forgotten', ok, 'close() does not precede `self._sock = None`', func=q,
         node=(cl[0][1] if cl else None), construct='close before null')
    # the blocking shutdown cannot skip close(): close is attempted even if shutdown raised? (documented limitation)
    q2 = S + '.close'
    g2 = R.cfg(q2)
    cs = [n for (n, _) in calls_to(R, g2, q)]
    st2 = [n for n in g2.live_nodes() if n.kind == 'stmt' and isinstance(n.ast, ast.Assign) and U(n.ast.targets[0]) == 'self._sock']
    ok = bool(cs) and all(all_paths_pass(g2, [g2.entry], cs, [s], skip_edge=nx) for s in st2)
    R.ob('C09.socknull', 'session.close() closes before nulling', ok, 'session.close() nulls _sock without _close_socket()', func=q2,
         node=None, construct='session.close')


def proxyread(R, RID='C09.hang'):
    """_connect_proxy: whatever recv() returned (including b'' = end of stream) is handed to the ProxyParser before the
    next recv() or the return: EOF detection lives in Parser.feed (raises on empty data), so skipping the parser for an
    empty read turns a proxy hang-up into an endless loop / a socket returned without a tunnel."""
    q = S + '._connect_proxy'
    g = R.cfg(q)
    f = R.func(q)
    rcv = [n for (n, _) in ext_calls(R, g, {'socket.recv'})]
    need(len(rcv) == 1, '_connect_proxy: expected one recv call')
    feeds = [n for n in g.live_nodes() if n.kind == 'forinit' and any(
        isinstance(t, str) and t.startswith('gen:parser.Parser.feed') for t in R.types.expr(n.ast, g.ctx))]
    need(len(feeds) >= 1, '_connect_proxy: proxy_parser.feed(data) not found')
    rets = [r for r in g.live_nodes() if r.kind == 'stmt' and isinstance(r.ast, ast.Return)]
    ok = all_paths_pass(g, normal_succs(rcv[0]), feeds, rcv + rets + [g.exit], skip_edge=nx)
    R.ob(RID, 'every proxy read reaches the parser', ok,
         'after sock.recv() in _connect_proxy the next recv() / the return can be reached without proxy_parser.feed(data): '
         'an empty read (the proxy closed the connection) is not noticed', func=f, node=rcv[0].ast,
         construct='proxy read skips the parser')
