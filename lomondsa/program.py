"""Loader: parse the package, build module / class / function tables.

Names are package-relative: module ``websocket``; class ``websocket.WebSocket``;
nested class ``websocket.WebSocket.State``; method ``websocket.WebSocket.feed``;
nested function ``session.WebsocketSession.run._regular``.
"""
import ast
import hashlib
import os


class AnalysisError(Exception):
    """The analyser could not do its job (exit 2, never a VIOLATION)."""


def U(node):
    """Whitespace-normalised source text of an AST node."""
    if node is None:
        return 'None'
    if isinstance(node, str):
        return node
    return ' '.join(ast.unparse(node).split())


class ModuleInfo(object):
    def __init__(self, name, path, src, tree):
        self.name = name
        self.path = path
        self.src = src
        self.tree = tree
        self.digest = hashlib.sha256(src.encode('utf-8')).hexdigest()[:16]
        self.imports = {}      # alias -> tuple
        self.globals = {}      # name -> [value expr]
        self.classes = {}      # name -> qual
        self.funcs = {}        # name -> qual
        self.live = []         # live top-level statements
        self.pruned = []       # descriptions of pruned dead code


class ClassInfo(object):
    def __init__(self, qual, module, node, outer=None):
        self.qual = qual
        self.module = module
        self.node = node
        self.outer = outer
        self.base_exprs = list(node.bases)
        self.bases = []        # resolved quals or 'ext:<dotted>'
        self.methods = {}      # name -> FuncInfo
        self.attrs = {}        # name -> [value expr] (class-level assignments)
        self.body_stmts = []   # live class-body statements
        self.slots = None

    @property
    def name(self):
        return self.qual.rsplit('.', 1)[-1]

    def __repr__(self):
        return '<class %s>' % self.qual


class FuncInfo(object):
    def __init__(self, qual, module, node, cls=None, parent=None):
        self.qual = qual
        self.module = module
        self.node = node
        self.cls = cls            # ClassInfo or None (class defining it)
        self.parent = parent      # enclosing FuncInfo for nested defs
        self.nested = {}          # name -> FuncInfo
        decos = [U(d) for d in node.decorator_list]
        self.is_classmethod = 'classmethod' in decos
        self.is_staticmethod = 'staticmethod' in decos
        self.is_property = 'property' in decos
        self.is_generator = _has_own_yield(node)

    @property
    def name(self):
        return self.node.name

    @property
    def params(self):
        a = self.node.args
        return [x.arg for x in a.posonlyargs + a.args]

    def __repr__(self):
        return '<func %s>' % self.qual


def own_nodes(func_node):
    """Walk a function body without descending into nested defs/lambdas/classes."""
    stack = list(func_node.body)
    while stack:
        n = stack.pop()
        yield n
        if isinstance(n, (ast.FunctionDef, ast.AsyncFunctionDef, ast.Lambda, ast.ClassDef)):
            continue
        for c in ast.iter_child_nodes(n):
            stack.append(c)


def walk_no_nested(node):
    """Walk any node without descending into nested defs/lambdas/classes (the node itself included)."""
    stack = [node]
    while stack:
        n = stack.pop()
        yield n
        for c in ast.iter_child_nodes(n):
            if isinstance(c, (ast.FunctionDef, ast.AsyncFunctionDef, ast.Lambda, ast.ClassDef)):
                continue
            stack.append(c)


def _has_own_yield(func_node):
    for n in own_nodes(func_node):
        if isinstance(n, (ast.Yield, ast.YieldFrom)):
            return True
    return False


PY_FLAGS = {'PY2': False, 'PY3': True}


def py_const(test, module):
    """Fold ``six.PY2`` / ``PY3`` style tests to a constant, else None."""
    if isinstance(test, ast.Attribute) and isinstance(test.value, ast.Name):
        if test.value.id == 'six' and test.attr in PY_FLAGS:
            return PY_FLAGS[test.attr]
    if isinstance(test, ast.Name) and test.id in PY_FLAGS:
        imp = module.imports.get(test.id) if module is not None else None
        if imp and imp[0] == 'extsym' and imp[1] == 'six':
            return PY_FLAGS[test.id]
    if isinstance(test, ast.UnaryOp) and isinstance(test.op, ast.Not):
        v = py_const(test.operand, module)
        return None if v is None else (not v)
    return None


def is_main_guard(test):
    return (isinstance(test, ast.Compare) and isinstance(test.left, ast.Name)
            and test.left.id == '__name__')


class Program(object):
    def __init__(self, root):
        self.root = root
        self.pkgdir = os.path.join(root, 'lomond')
        if not os.path.isdir(self.pkgdir):
            raise AnalysisError('package directory not found: %s' % self.pkgdir)
        self.modules = {}
        self.classes = {}
        self.funcs = {}
        self.assumptions = []
        self._load()

    # ------------------------------------------------------------------ load
    def _load(self):
        for dirpath, dirnames, filenames in os.walk(self.pkgdir):
            dirnames[:] = sorted(d for d in dirnames if d != '__pycache__')
            for fn in sorted(filenames):
                if not fn.endswith('.py'):
                    continue
                path = os.path.join(dirpath, fn)
                rel = os.path.relpath(path, self.pkgdir)[:-3].replace(os.sep, '.')
                if rel.endswith('__init__'):
                    rel = rel[:-len('__init__')].rstrip('.')
                with open(path, encoding='utf-8') as f:
                    src = f.read()
                try:
                    tree = ast.parse(src, filename=path)
                except SyntaxError as e:
                    raise AnalysisError('syntax error in %s: %s' % (path, e))
                self.modules[rel] = ModuleInfo(rel, path, src, tree)
        from .inline import Inliner
        from . import normalise
        self.inlined = []
        from . import rename
        rename.undo_renames(self.modules, self.inlined)
        for _round in range(5):
            ch = normalise.simple_passes(self.modules, self.inlined)
            log = Inliner(self.modules).run()
            self.inlined.extend(log)
            if not ch and not log:
                break
        for m in self.modules.values():
            if m.name.startswith('examples'):
                continue
            self._index_imports(m)
        for m in self.modules.values():
            if m.name.startswith('examples'):
                continue
            self._index_module(m)
        for c in self.classes.values():
            c.bases = [self._resolve_base(c, b) for b in c.base_exprs]

    def _index_imports(self, m):
        for node in ast.walk(m.tree):
            if isinstance(node, ast.Import):
                for a in node.names:
                    m.imports[a.asname or a.name.split('.')[0]] = ('extmod', a.name if a.asname else a.name.split('.')[0])
            elif isinstance(node, ast.ImportFrom):
                if node.module == '__future__':
                    continue
                for a in node.names:
                    alias = a.asname or a.name
                    if node.level >= 1:
                        if node.module is None:
                            m.imports[alias] = ('mod', a.name)
                        else:
                            m.imports[alias] = ('sym', node.module, a.name)
                    else:
                        m.imports[alias] = ('extsym', node.module, a.name)

    def live_stmts(self, stmts, m):
        """Flatten module/class level statements, pruning dead interpreter arms."""
        out = []
        for s in stmts:
            if isinstance(s, ast.If):
                if is_main_guard(s.test):
                    m.pruned.append('%s: __main__ block' % m.name)
                    continue
                v = py_const(s.test, m)
                if v is True:
                    if s.orelse:
                        m.pruned.append('%s: PY2 arm at line %d' % (m.name, s.orelse[0].lineno))
                    out.extend(self.live_stmts(s.body, m))
                elif v is False:
                    m.pruned.append('%s: PY2 arm at line %d' % (m.name, s.body[0].lineno))
                    out.extend(self.live_stmts(s.orelse, m))
                else:
                    out.extend(self.live_stmts(s.body, m))
                    out.extend(self.live_stmts(s.orelse, m))
            elif isinstance(s, ast.Try):
                only_imports = all(isinstance(x, (ast.Import, ast.ImportFrom)) for x in s.body)
                imp_handler = [h for h in s.handlers if h.type is not None and U(h.type) == 'ImportError']
                if only_imports and imp_handler:
                    names = ', '.join(U(x) for x in s.body)
                    self.assumptions.append(
                        'optional import not installed, fallback arm analysed: %s (%s)' % (names, m.name))
                    out.extend(self.live_stmts(imp_handler[0].body, m))
                else:
                    out.extend(self.live_stmts(s.body, m))
                    for h in s.handlers:
                        out.extend(self.live_stmts(h.body, m))
                    out.extend(self.live_stmts(s.orelse, m))
                    out.extend(self.live_stmts(s.finalbody, m))
            else:
                out.append(s)
        return out

    def _index_module(self, m):
        m.live = self.live_stmts(m.tree.body, m)
        for s in m.live:
            if isinstance(s, ast.ClassDef):
                self._index_class(m, s, m.name, None)
                m.classes[s.name] = m.name + '.' + s.name
            elif isinstance(s, ast.FunctionDef):
                self._index_func(m, s, m.name, None, None)
                m.funcs[s.name] = m.name + '.' + s.name
            elif isinstance(s, ast.Assign):
                for t in s.targets:
                    if isinstance(t, ast.Name):
                        m.globals.setdefault(t.id, []).append(s.value)

    def _index_class(self, m, node, prefix, outer):
        qual = prefix + '.' + node.name
        c = ClassInfo(qual, m, node, outer)
        self.classes[qual] = c
        c.body_stmts = self.live_stmts(node.body, m)
        for s in c.body_stmts:
            if isinstance(s, ast.FunctionDef):
                c.methods[s.name] = self._index_func(m, s, qual, c, None)
            elif isinstance(s, ast.ClassDef):
                self._index_class(m, s, qual, c)
            elif isinstance(s, ast.Assign):
                for t in s.targets:
                    if isinstance(t, ast.Name):
                        c.attrs.setdefault(t.id, []).append(s.value)
                        if t.id == '__slots__':
                            try:
                                c.slots = list(ast.literal_eval(s.value))
                            except Exception:
                                c.slots = None
        return c

    def _index_func(self, m, node, prefix, cls, parent):
        qual = prefix + '.' + node.name
        f = FuncInfo(qual, m, node, cls, parent)
        self.funcs[qual] = f
        for n in own_nodes(node):
            if isinstance(n, ast.FunctionDef):
                pass
        # nested defs (direct children anywhere in the body, not inside further defs)
        for n in _nested_defs(node):
            f.nested[n.name] = self._index_func(m, n, qual, cls, f)
        return f

    def _resolve_base(self, c, expr):
        r = self.lookup_expr(c.module, expr, c.outer)
        if r and r[0] == 'class':
            return r[1]
        return 'ext:' + U(expr)

    # ---------------------------------------------------------------- lookup
    def lookup(self, m, name, _seen=None):
        """Resolve a module-level name."""
        _seen = _seen or set()
        if (m.name, name) in _seen:
            return None             # import cycle
        _seen.add((m.name, name))
        if name in m.classes:
            return ('class', m.classes[name])
        if name in m.funcs:
            return ('func', m.funcs[name])
        if name in m.imports:
            imp = m.imports[name]
            if imp[0] == 'mod':
                if imp[1] in self.modules:
                    return ('mod', imp[1])
                return ('extmod', imp[1])
            if imp[0] == 'sym':
                tm = self.modules.get(imp[1])
                if tm is None:
                    return ('ext', imp[1] + '.' + imp[2])
                if tm is m and imp[2] == name:
                    return None
                return self.lookup(tm, imp[2], _seen)
            if imp[0] == 'extmod':
                return ('extmod', imp[1])
            if imp[0] == 'extsym':
                return ('ext', imp[1] + '.' + imp[2])
        if name in m.globals:
            return ('global', m.name, name)
        return None

    def lookup_expr(self, m, expr, outer_cls=None):
        """Resolve Name / dotted Attribute at module level to a symbol."""
        if isinstance(expr, ast.Name):
            return self.lookup(m, expr.id)
        if isinstance(expr, ast.Attribute):
            base = self.lookup_expr(m, expr.value, outer_cls)
            if base is None:
                return None
            if base[0] == 'mod':
                return self.lookup(self.modules[base[1]], expr.attr)
            if base[0] == 'extmod':
                return ('ext', base[1] + '.' + expr.attr)
            if base[0] == 'class':
                q = base[1] + '.' + expr.attr
                if q in self.classes:
                    return ('class', q)
                c = self.classes[base[1]]
                fi = self.find_method(c.qual, expr.attr)
                if fi is not None:
                    return ('func', fi.qual)
                if self.class_attr(c.qual, expr.attr) is not None:
                    return ('classattr', base[1], expr.attr)
            if base[0] == 'ext':
                return ('ext', base[1] + '.' + expr.attr)
        return None

    # ------------------------------------------------------------- hierarchy
    def mro(self, qual):
        out = []
        seen = set()

        def rec(q):
            if q in seen or q not in self.classes:
                return
            seen.add(q)
            out.append(q)
            for b in self.classes[q].bases:
                rec(b)
        rec(qual)
        return out

    def ext_bases(self, qual):
        out = []
        for q in self.mro(qual):
            for b in self.classes[q].bases:
                if b.startswith('ext:'):
                    out.append(b[4:])
        return out

    def is_subclass(self, qual, base):
        return base in self.mro(qual)

    def subclasses(self, base):
        return [q for q in self.classes if base in self.mro(q)]

    def find_method(self, cls_qual, name, after=None):
        """Method lookup along the MRO.  ``after``: start after that class (super())."""
        mro = self.mro(cls_qual)
        if after is not None and after in mro:
            mro = mro[mro.index(after) + 1:]
        for q in mro:
            fi = self.classes[q].methods.get(name)
            if fi is not None:
                return fi
        return None

    def class_attr(self, cls_qual, name):
        for q in self.mro(cls_qual):
            v = self.classes[q].attrs.get(name)
            if v:
                return (q, v)
        return None

    def func(self, qual):
        f = self.funcs.get(qual)
        if f is None:
            raise AnalysisError('anchor vanished: function %s not found' % qual)
        return f

    def cls(self, qual):
        c = self.classes.get(qual)
        if c is None:
            raise AnalysisError('anchor vanished: class %s not found' % qual)
        return c

    def files_digest(self):
        return {m.name or '__init__': m.digest for m in self.modules.values()}

    def loc(self, module, node):
        path = module.path if isinstance(module, ModuleInfo) else self.modules[module].path
        return '%s:%d' % (os.path.relpath(path, self.root), getattr(node, 'lineno', 0))


def _nested_defs(func_node):
    out = []
    stack = list(func_node.body)
    while stack:
        n = stack.pop()
        if isinstance(n, ast.FunctionDef):
            out.append(n)
            continue
        if isinstance(n, (ast.Lambda, ast.ClassDef, ast.AsyncFunctionDef)):
            continue
        stack.extend(ast.iter_child_nodes(n))
    return out
