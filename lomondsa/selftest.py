"""Thorough tier: (1) re-decide every must-pass-through query of the quick run by explicit path enumeration,
(2) run the property's mutant bank (catalogue + seeded changes + behaviour-preserving twins) on scratch copies."""
import json
import os
import re
import shutil
import subprocess
import tempfile
from concurrent.futures import ThreadPoolExecutor

from .program import AnalysisError

VERIF = os.path.dirname(os.path.dirname(os.path.abspath(__file__)))
TWINS = {'m03d': {'C03'}, 'm08h': {'C08'}, 'm09h': {'C09'}}


def prepare(run):
    from .rules import common
    common.QUERY_LOG = []
    # the helper-inlining normalisation is exercised on synthetic modules (before/after differential): a wrong
    # transformation would silently change what every rule sees
    r = subprocess.run([os.path.join(VERIF, 'tools', 'test_inline.py')], stdout=subprocess.PIPE, stderr=subprocess.STDOUT, text=True)
    if r.returncode != 0:
        raise AnalysisError('inliner self-test failed: %s' % r.stdout[-400:])


def path_crosscheck(run, mod):
    """Each logged query `every path src ~> dst passes T` is re-decided by enumerating paths explicitly
    (every node may be visited up to twice, i.e. loops unrolled 0/1/2 times)."""
    from .rules import common
    log = common.QUERY_LOG or []
    total_paths = 0
    disagreements = []
    capped = 0
    for (g, srcs, through, dsts, skip_edge, res) in log:
        dset = set(dsts)
        found = [None]
        count = [0]
        LIMIT = 4000

        def rec(n, visits, path):
            if found[0] is not None or count[0] > LIMIT:
                return
            if n in through:
                return
            if n in dset:
                count[0] += 1
                found[0] = list(path)
                return
            for (m, l) in n.succ:
                if skip_edge is not None and skip_edge(n, m, l):
                    continue
                v = visits.get(m, 0)
                if v >= 2:
                    continue
                visits[m] = v + 1
                path.append(m)
                rec(m, visits, path)
                path.pop()
                visits[m] = v
                count[0] += 1
        for s in srcs:
            rec(s, {s: 1}, [s])
        total_paths += count[0]
        if count[0] > LIMIT:
            capped += 1
        enumerated = found[0] is None
        if count[0] <= LIMIT and enumerated != res:
            disagreements.append('%s: reachability says %s, path enumeration says %s' % (g.ctx.func.qual, res, enumerated))
        elif count[0] > LIMIT and found[0] is not None and res:
            disagreements.append('%s: reachability says True but a bypassing path exists' % g.ctx.func.qual)
    if disagreements:
        raise AnalysisError('engine self-check failed (dominance vs. explicit paths): %s' % disagreements[:3])
    return {'path_crosscheck': {'queries_rechecked': len(log), 'path_steps_enumerated': total_paths,
                                'queries_hitting_the_step_cap': capped, 'disagreements': 0,
                                'rule': 'every must-pass-through query of the quick run re-decided by explicit path '
                                        'enumeration with each node visited at most twice'}}


def _load_bank(prop):
    out = []
    cat = os.path.join(VERIF, 'design', 'mutant_catalogue.json')
    for m in json.load(open(cat)):
        if m['property'] == prop:
            out.append({'id': m['id'], 'kind': 'edit', 'file': m['file'], 'old': m['old'], 'new': m['new'],
                        'twin': prop in TWINS.get(m['id'], ())})
    for sub, twin in (('seeded', False), ('twins', True)):
        d = os.path.join(VERIF, sub)
        if not os.path.isdir(d):
            continue
        for name in sorted(os.listdir(d)):
            mp = os.path.join(d, name, 'meta.json')
            if not os.path.exists(mp):
                continue
            meta = json.load(open(mp))
            if twin or meta.get('property') == prop:
                out.append({'id': name, 'kind': 'patch', 'patch': os.path.join(d, name, 'patch.diff'), 'twin': twin,
                            'not_analysable': bool(meta.get('not_analysable')),
                            'known_false_alarm': bool(meta.get('known_false_alarm'))})
    return out


def _run_one(m, prop, root):
    scratch = tempfile.mkdtemp(prefix='lomondsa-bank-')
    try:
        shutil.copytree(os.path.join(root, 'lomond'), os.path.join(scratch, 'lomond'),
                        ignore=shutil.ignore_patterns('__pycache__'))
        if m['kind'] == 'edit':
            p = os.path.join(scratch, m['file'])
            s = open(p).read()
            if s.count(m['old']) != 1:
                return m, 'skipped', 'anchor absent in the current tree'
            open(p, 'w').write(s.replace(m['old'], m['new']))
        else:
            r = subprocess.run(['patch', '-p1', '-s', '--no-backup-if-mismatch', '-i', m['patch']], cwd=scratch,
                               stdout=subprocess.PIPE, stderr=subprocess.STDOUT, text=True)
            if r.returncode != 0:
                return m, 'skipped', 'patch does not apply to the current tree'
        env = dict(os.environ, LOMOND_EVIDENCE_DIR=os.path.join(scratch, 'evidence'), VERIF_TIER='quick')
        r = subprocess.run([os.path.join(VERIF, 'check'), prop, '--tier', 'quick', '--root', scratch], cwd=VERIF, env=env,
                           stdout=subprocess.PIPE, stderr=subprocess.STDOUT, text=True)
        rules = sorted(set(re.findall(r'^\s+(C\d+\.\w+) ', r.stdout, re.M)))
        if r.returncode == 2:
            return m, 'error', (re.findall(r'ANALYSIS-ERROR.*', r.stdout) or ['?'])[0][:200]
        return m, ('fired' if r.returncode == 1 else 'silent'), ','.join(rules)
    finally:
        shutil.rmtree(scratch, ignore_errors=True)


def run_bank(prop, root):
    bank = _load_bank(prop)
    res = {'mutants': 0, 'caught': 0, 'twins': 0, 'twins_silent': 0, 'skipped': [], 'details': []}
    problems = []
    with ThreadPoolExecutor(16) as ex:
        for m, status, info in ex.map(lambda m: _run_one(m, prop, root), bank):
            if status == 'skipped':
                res['skipped'].append('%s: %s' % (m['id'], info))
                continue
            if m['twin']:
                res['twins'] += 1
                if status == 'silent':
                    res['twins_silent'] += 1
                elif status == 'error':
                    # a refactoring shape the recognisers do not understand: reported as "cannot analyse" (exit 2),
                    # never as a violation - listed, not a failure of the bank
                    res.setdefault('twins_unrecognised', []).append('%s: %s' % (m['id'], info))
                elif m.get('known_false_alarm'):
                    # a recorded limit of the front end (meta.json says why): listed, not hidden
                    res.setdefault('twins_known_false_alarm', []).append('%s: %s' % (m['id'], info))
                else:
                    problems.append('behaviour-preserving twin %s: %s %s' % (m['id'], status, info))
            else:
                res['mutants'] += 1
                if status == 'fired':
                    res['caught'] += 1
                elif m.get('not_analysable'):
                    # a recorded limit of the analysis (meta.json says why): the check answers "cannot analyse" (exit 2) or
                    # stays silent - listed as a miss, not hidden and not counted as caught
                    res.setdefault('mutants_not_analysable', []).append('%s: %s' % (m['id'], info))
                else:
                    problems.append('mutant %s not reported: %s %s' % (m['id'], status, info))
            res['details'].append('%s: %s %s' % (m['id'], status, info))
    res['details'].sort()
    if problems:
        raise AnalysisError('self-validation bank failed (a defect of the checker, not a violation of /repo): %s' % problems[:4])
    return res
