"""Exception flow: which exception classes may escape an expression / function.

Tokens are class names: package classes by qualified name (``errors.ProtocolError``),
builtins by name (``ValueError``).  A trailing ``+`` marks an *abstract* token
("this class or any subclass"), used for faults of external operations.
"""
import ast

from .program import AnalysisError, U, own_nodes, walk_no_nested, py_const
from .resolve import _ModCtx, BUILTIN_EXC

BUILTIN_SUPERS = {
    'BaseException': [],
    'Exception': ['BaseException'],
    'GeneratorExit': ['BaseException'],
    'KeyboardInterrupt': ['BaseException'],
    'SystemExit': ['BaseException'],
    'StopIteration': ['Exception'],
    'OSError': ['Exception'],
    'IOError': ['OSError'],
    'socket.timeout': ['OSError'],
    'ssl.SSLError': ['OSError'],
    'ValueError': ['Exception'],
    'UnicodeError': ['ValueError'],
    'UnicodeDecodeError': ['UnicodeError'],
    'UnicodeEncodeError': ['UnicodeError'],
    'TypeError': ['Exception'],
    'LookupError': ['Exception'],
    'KeyError': ['LookupError'],
    'IndexError': ['LookupError'],
    'AttributeError': ['Exception'],
    'ImportError': ['Exception'],
    'AssertionError': ['Exception'],
    'RuntimeError': ['Exception'],
    'NotImplementedError': ['RuntimeError'],
    'ArithmeticError': ['Exception'],
    'ZeroDivisionError': ['ArithmeticError'],
    'OverflowError': ['ArithmeticError'],
    'zlib.error': ['Exception'],
    'struct.error': ['Exception'],
}


def _builtin_hierarchy():
    """The language's own exception hierarchy (ConnectionError < OSError, ...); alias names (IOError, EnvironmentError,
    socket.error) are spelled as the class they are."""
    import builtins
    for n, v in vars(builtins).items():
        if isinstance(v, type) and issubclass(v, BaseException):
            real = v.__name__
            if n != real:
                BUILTIN_SUPERS.setdefault(n, [real])
            elif n not in BUILTIN_SUPERS:
                BUILTIN_SUPERS[n] = [b.__name__ for b in v.__bases__ if issubclass(b, BaseException)]


_builtin_hierarchy()
EXT_ALIASES = {'socket.error': 'OSError', 'socket.timeout': 'socket.timeout', 'select.error': 'OSError',
               'ssl.SSLError': 'ssl.SSLError', 'zlib.error': 'zlib.error'}

# External operations that talk to the transport / kernel.  Under fault model
# 'oserror' they may raise OSError+; under 'arbitrary' additionally Exception+.
SOCKET_OPS = {
    'socket.getaddrinfo', 'socket.socket',
    'socket.connect', 'socket.sendall', 'socket.send', 'socket.recv', 'socket.recv_into',
    'socket.shutdown', 'socket.close', 'socket.settimeout', 'socket.setsockopt', 'socket.pending',
    'socket.unwrap', 'socket.do_handshake', 'socket.accept', 'socket.bind', 'socket.listen', 'socket.recvfrom',
    'socket.sendto', 'socket.getpeername', 'socket.getsockname', 'socket.makefile', 'socket.create_connection',
    'socket.gethostbyname', 'socket.sendfile', 'socket.getpeercert', 'socket.setblocking',
    'sslctx.wrap_socket', 'ssl.wrap_socket', 'ssl.SSLContext',
    'poll.poll', 'select.select', 'kqueue.control',
}
# Not in the table (stated assumption): selector *construction* and teardown
# (select.poll(), poll.register, kqueue(), kevent(), fileno(), kqueue.close()).
# socket.socket(...) the constructor lives in module socket -> name 'socket.socket';
# instance methods are 'socket.<m>' too (kind x:socket) - same namespace on purpose.

OTHER_RAISES = {
    'zcomp.compress': {'zlib.error+'}, 'zcomp.flush': {'zlib.error+'},
    'zdecomp.decompress': {'zlib.error+'},
}
BM_RAISES = {
    'bytes.decode': {'UnicodeDecodeError'}, 'bytearray.decode': {'UnicodeDecodeError'},
}
BUILTIN_RAISES = {'int': {'ValueError'}}


class Exc(object):
    def __init__(self, prog, types, fault='oserror', genexit=False):
        self.prog = prog
        self.types = types
        self.fault = fault
        self._esc = {}
        self._inprogress = set()
        self._cycle = False
        self.assumptions = [
            'calls outside the external may-raise table (logging, str.format, struct packing of '
            'range-checked values, time.time, attribute access) are assumed not to raise',
        ]

    # ------------------------------------------------------------ hierarchy
    def base(self, tok):
        return tok[:-1] if tok.endswith('+') else tok

    def supers(self, tok):
        """All ancestors of a token's class, the class itself first."""
        t = self.base(tok)
        out = []
        seen = set()

        def rec(x):
            if x in seen:
                return
            seen.add(x)
            out.append(x)
            if x in self.prog.classes:
                for b in self.prog.classes[x].bases:
                    if b.startswith('ext:'):
                        name = b[4:]
                        name = EXT_ALIASES.get(name, name)
                        rec(name)
                    else:
                        rec(b)
            else:
                for b in BUILTIN_SUPERS.get(x, ['Exception'] if x not in ('BaseException',) else []):
                    rec(b)
        rec(t)
        return out

    def catches(self, handler_toks, tok):
        """'full' | 'partial' | None - does a handler catching handler_toks catch tok?"""
        sup = self.supers(tok)
        if any(h in sup for h in handler_toks):
            return 'full'
        if tok.endswith('+'):
            t = self.base(tok)
            for h in handler_toks:
                if t in self.supers(h):
                    return 'partial'
        return None

    def handler_tokens(self, handler, ctx):
        if handler.type is None:
            return ['BaseException']
        exprs = handler.type.elts if isinstance(handler.type, ast.Tuple) else [handler.type]
        out = []
        for e in exprs:
            got = False
            for t in self.types.expr(e, ctx):
                if isinstance(t, str) and t.startswith('cls:'):
                    out.append(t[4:])
                    got = True
                elif isinstance(t, str) and t.startswith('ext:'):
                    d = t[4:]
                    if d.startswith('builtins.'):
                        d = d[9:]
                    d = {'IOError': 'OSError', 'EnvironmentError': 'OSError'}.get(d, d)
                    out.append(EXT_ALIASES.get(d, d))
                    got = True
            if not got:
                if isinstance(e, ast.Name) and (e.id in BUILTIN_EXC or e.id in BUILTIN_SUPERS):
                    out.append({'IOError': 'OSError', 'EnvironmentError': 'OSError'}.get(e.id, e.id))
                else:
                    raise AnalysisError('cannot resolve exception class %s in %s' % (U(e), ctx))
        return out

    def exc_tokens_of_value(self, e, ctx, caught=None):
        """Tokens for the operand of ``raise <e>`` / ``gen.throw(<e>)``."""
        out = set()
        if isinstance(e, ast.Name) and caught is not None and e.id in caught:
            return set(caught[e.id])
        # error.__class__(...) / type(error)(...): an exception of the class that was caught
        if isinstance(e, ast.Call) and caught is not None:
            f = e.func
            base = None
            if isinstance(f, ast.Attribute) and f.attr == '__class__' and isinstance(f.value, ast.Name):
                base = f.value.id
            elif isinstance(f, ast.Call) and isinstance(f.func, ast.Name) and f.func.id == 'type' and len(f.args) == 1 \
                    and isinstance(f.args[0], ast.Name):
                base = f.args[0].id
            if base is not None and base in caught:
                return set(caught[base])
        for t in self.types.expr(e, ctx):
            if not isinstance(t, str):
                continue
            if t.startswith('inst:') or t.startswith('cls:'):
                q = t.split(':', 1)[1]
                if 'BaseException' in self.supers(q):
                    out.add(q)
            elif t.startswith('ext:builtins.'):
                out.add(t[13:])
        if not out and isinstance(e, ast.Call):
            f = e.func
            if isinstance(f, ast.Name) and f.id in BUILTIN_EXC:
                out.add(f.id)
        if not out and isinstance(e, ast.Name) and e.id in BUILTIN_EXC:
            out.add(e.id)
        return out

    # ------------------------------------------------------------ functions
    def escapes(self, ctx, injected=frozenset()):
        """Tokens that may escape the function body of ``ctx``.

        ``injected``: tokens thrown into a generator at its yields (gen.throw)."""
        key = (ctx.key, injected)
        if key in self._esc:
            return self._esc[key]
        if key in self._inprogress:
            self._cycle = True
            return set()
        self._inprogress.add(key)
        try:
            r = self.raises_stmts(ctx.func.node.body, ctx, {}, injected)
        finally:
            self._inprogress.discard(key)
        self._esc[key] = r
        return r

    def ctx_of_target(self, t):
        if t.kind in ('func', 'ctor') and t.func is not None:
            return self.types.ctxs.get((t.func.qual, t.recv)) or \
                self.types.ctxs.get((t.func.qual, t.func.cls.qual if t.func.cls else None))
        return None

    def gen_escapes(self, gtype, injected=frozenset()):
        fq, r = gtype[4:].split('|')
        c = self.types.ctxs.get((fq, None if r == '-' else r))
        if c is None:
            return set()
        return set(self.escapes(c, frozenset(injected)))

    # ---------------------------------------------------------- expressions
    def transport_faults(self):
        return {'OSError+', 'Exception+'} if self.fault == 'arbitrary' else {'OSError+'}

    def raises_call(self, call, ctx, caught=None):
        out = set()
        fn = call.func
        types = self.types
        # iteration primitives
        if isinstance(fn, ast.Name) and fn.id == 'next' and call.args and not types.name_types('next', ctx):
            for gt in types.expr(call.args[0], ctx):
                if isinstance(gt, str) and gt.startswith('gen:'):
                    out |= self.gen_escapes(gt)
            if len(call.args) < 2:
                out.add('StopIteration')
            return out
        if isinstance(fn, ast.Attribute) and fn.attr in ('send', 'throw', 'close', '__next__'):
            gts = [t for t in types.expr(fn.value, ctx) if isinstance(t, str) and t.startswith('gen:')]
            if gts:
                for gt in gts:
                    if fn.attr == 'throw':
                        inj = set()
                        if call.args:
                            inj = self.exc_tokens_of_value(call.args[0], ctx, caught)
                        if not inj:
                            raise AnalysisError('cannot type exception thrown into generator: %s' % U(call))
                        out |= self.gen_escapes(gt, inj)
                        out.add('StopIteration')
                    elif fn.attr == 'close':
                        pass
                    else:
                        out |= self.gen_escapes(gt)
                        out.add('StopIteration')
                return out
        if isinstance(fn, ast.Attribute) and fn.attr == 'encode' and (call.args or call.keywords):
            # text.encode(<narrow codec>): any character outside the codec raises (utf-8/16/32 encode every str that has no
            # lone surrogate - not modelled)
            codec = call.args[0] if call.args else next((k.value for k in call.keywords if k.arg == 'encoding'), None)
            errs = [k.value for k in call.keywords if k.arg == 'errors'] + list(call.args[1:2])
            lenient_ = any(isinstance(e_, ast.Constant) and e_.value in ('replace', 'ignore', 'backslashreplace',
                                                                         'xmlcharrefreplace', 'namereplace') for e_ in errs)
            if isinstance(codec, ast.Constant) and isinstance(codec.value, str) and not lenient_ and \
                    codec.value.lower().replace('_', '-') not in ('utf-8', 'utf8', 'utf-16', 'utf-32', 'utf-16-le', 'utf-16-be',
                                                                   'utf-32-le', 'utf-32-be', 'utf-7', 'unicode-escape',
                                                                   'raw-unicode-escape'):
                out.add('UnicodeEncodeError')
        for t in types.call_targets(call, ctx):
            if t.kind == 'func':
                if t.func.is_generator:
                    continue
                c = self.ctx_of_target(t)
                if c is not None:
                    out |= self.escapes(c)
            elif t.kind == 'ctor':
                c = self.ctx_of_target(t)
                if c is not None:
                    out |= self.escapes(c)
            elif t.kind == 'ext':
                if t.name in SOCKET_OPS:
                    out |= self.transport_faults()
                out |= OTHER_RAISES.get(t.name, set())
            elif t.kind == 'bm':
                lenient = False
                errs = [k.value for k in call.keywords if k.arg == 'errors'] + list(call.args[1:2])
                for e in errs:
                    if isinstance(e, ast.Constant) and e.value in ('replace', 'ignore', 'backslashreplace',
                                                                   'surrogateescape'):
                        lenient = True
                # decoding base64 output as ASCII cannot fail
                rcv = fn.value if isinstance(fn, ast.Attribute) else None
                if isinstance(rcv, ast.Call) and any(x.kind == 'ext' and x.name.startswith('base64.')
                                                     for x in types.call_targets(rcv, ctx)):
                    lenient = True
                if not lenient:
                    out |= BM_RAISES.get(t.name, set())
            elif t.kind == 'builtin':
                out |= BUILTIN_RAISES.get(t.name, set())
        return out

    def raises_expr(self, e, ctx, caught=None):
        """Tokens raised by evaluating ``e`` (calls inside it), yields excluded."""
        out = set()
        if e is None:
            return out
        for n in walk_no_nested(e):
            if isinstance(n, ast.Call):
                out |= self.raises_call(n, ctx, caught)
            elif isinstance(n, ast.Subscript) and isinstance(n.ctx, ast.Load) and isinstance(n.value, ast.Call) \
                    and isinstance(n.value.func, ast.Attribute) and not isinstance(n.slice, ast.Slice) and (
                        n.value.func.attr == 'splitlines' or (n.value.func.attr == 'split' and not n.value.args
                                                              and not n.value.keywords)):
                # the list these return is empty for empty (blank) text: indexing it fails
                out.add('IndexError')
        return out

    # ----------------------------------------------------------- statements
    def raises_stmts(self, stmts, ctx, caught, injected=frozenset()):
        out = set()
        for s in stmts:
            out |= self.raises_stmt(s, ctx, caught, injected)
        return out

    def _yields_in(self, s):
        return [n for n in walk_no_nested(s) if isinstance(n, (ast.Yield, ast.YieldFrom))]

    def raises_stmt(self, s, ctx, caught, injected):
        R = self.raises_stmts
        E = self.raises_expr
        module = ctx.func.module
        if isinstance(s, (ast.FunctionDef, ast.ClassDef, ast.Pass, ast.Break, ast.Continue,
                          ast.Import, ast.ImportFrom, ast.Global, ast.Nonlocal)):
            return set()
        if isinstance(s, ast.Raise):
            out = set()
            if s.exc is None:
                for toks in caught.get('<current>', []):
                    out.add(toks)
                if not out:
                    raise AnalysisError('bare raise outside handler in %s' % ctx)
                return out
            out |= E(s.exc, ctx, caught)
            toks = self.exc_tokens_of_value(s.exc, ctx, caught)
            if not toks:
                raise AnalysisError('cannot type raised value %s in %s' % (U(s.exc), ctx))
            return out | toks
        if isinstance(s, ast.If):
            v = py_const(s.test, module)
            if v is True:
                return R(s.body, ctx, caught, injected)
            if v is False:
                return R(s.orelse, ctx, caught, injected)
            return E(s.test, ctx, caught) | R(s.body, ctx, caught, injected) | R(s.orelse, ctx, caught, injected)
        if isinstance(s, ast.While):
            return E(s.test, ctx, caught) | R(s.body, ctx, caught, injected) | R(s.orelse, ctx, caught, injected)
        if isinstance(s, ast.For):
            out = E(s.iter, ctx, caught)
            out |= self.iter_raises(s.iter, ctx)
            return out | R(s.body, ctx, caught, injected) | R(s.orelse, ctx, caught, injected)
        if isinstance(s, ast.With):
            out = set()
            for it in s.items:
                out |= E(it.context_expr, ctx, caught)
            return out | R(s.body, ctx, caught, injected)
        if isinstance(s, ast.Try):
            return self.raises_try(s, ctx, caught, injected)
        # simple statements
        out = E(s, ctx, caught)
        if injected and self._yields_in(s):
            out |= set(injected)
        return out

    def iter_raises(self, it, ctx):
        out = set()
        for gt in self.types.expr(it, ctx):
            if isinstance(gt, str) and gt.startswith('gen:'):
                out |= self.gen_escapes(gt)
        return out

    def raises_try(self, s, ctx, caught, injected):
        body = self.raises_stmts(s.body, ctx, caught, injected)
        htoks = [self.handler_tokens(h, ctx) for h in s.handlers]
        entered = [set() for _ in s.handlers]
        out = set()
        for tok in body:
            done = False
            for i, ht in enumerate(htoks):
                c = self.catches(ht, tok)
                if c == 'full':
                    entered[i].add(tok)
                    done = True
                    break
                if c == 'partial':
                    for h in ht:
                        if self.base(tok) in self.supers(h):
                            entered[i].add(h + '+')
            if not done:
                out.add(tok)
        for h, ent in zip(s.handlers, entered):
            if not ent:
                continue
            c2 = dict(caught)
            c2['<current>'] = sorted(ent)
            if h.name:
                c2[h.name] = sorted(ent)
            out |= self.raises_stmts(h.body, ctx, c2, injected)
        out |= self.raises_stmts(s.orelse, ctx, caught, injected)
        out |= self.raises_stmts(s.finalbody, ctx, caught, injected)
        return out
