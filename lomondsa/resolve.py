"""Whole-package type propagation and call resolution.

Flow-insensitive, receiver-class-sensitive (every method is analysed once per
concrete class that inherits it), computed as a monotone fixpoint over small
tables.  Types are strings:

  inst:<class>   cls:<class>   func:<func>   bound:<func>|<recv>   gen:<func>|<recv or ->
  super:<class>|<recv>   mod:<module>   extmod:<name>   ext:<dotted>   x:<kind>
  xm:<kind>.<method>   b:<builtin type>   bm:<builtin type>.<method>
  ('tuple', (frozenset, ...))
"""
import ast

from .program import AnalysisError, U, own_nodes, walk_no_nested, py_const

BUILTIN_TYPES = {
    'bytes': 'b:bytes', 'bytearray': 'b:bytearray', 'memoryview': 'b:memoryview',
    'str': 'b:str', 'int': 'b:int', 'float': 'b:float', 'bool': 'b:bool', 'len': 'b:int',
    'list': 'b:list', 'dict': 'b:dict', 'set': 'b:set', 'tuple': 'b:tuple', 'repr': 'b:str',
    'isinstance': 'b:bool', 'hasattr': 'b:bool', 'min': 'b:num', 'max': 'b:num', 'ord': 'b:int',
    'chr': 'b:str', 'range': 'b:list', 'sorted': 'b:list', 'abs': 'b:num', 'round': 'b:num',
}
BUILTIN_NAMES = set(BUILTIN_TYPES) | {
    'iter', 'next', 'super', 'getattr', 'setattr', 'print', 'dir', 'enumerate', 'zip', 'any', 'all',
    'reversed', 'sum', 'map', 'filter', 'id', 'type', 'object', 'callable', 'vars', 'format',
}
def _builtin_exception_names():
    import builtins
    return {n for n, v in vars(builtins).items() if isinstance(v, type) and issubclass(v, BaseException)}


BUILTIN_EXC = _builtin_exception_names() | {
    'Exception', 'BaseException', 'TypeError', 'ValueError', 'StopIteration', 'GeneratorExit',
    'UnicodeDecodeError', 'ImportError', 'OSError', 'IOError', 'KeyError', 'AttributeError',
    'RuntimeError', 'AssertionError', 'KeyboardInterrupt', 'NotImplementedError', 'IndexError',
    'UnicodeError', 'UnicodeEncodeError', 'ZeroDivisionError', 'OverflowError', 'SystemExit',
}

EXT_RETURNS = {
    'socket.socket': 'x:socket', 'ssl.SSLContext': 'x:sslctx', 'ssl.wrap_socket': 'x:socket',
    'threading.Lock': 'x:lock', 'threading.RLock': 'x:lock', 'threading.Event': 'x:event',
    'zlib.compressobj': 'x:zcomp', 'zlib.decompressobj': 'x:zdecomp',
    'select.poll': 'x:poll', 'select.kqueue': 'x:kqueue', 'select.kevent': 'x:kevent',
    'struct.Struct': 'x:struct', 'six.moves.urllib.parse.urlparse': 'x:url',
    'base64.b64encode': 'b:bytes', 'base64.standard_b64encode': 'b:bytes', 'hashlib.sha1': 'x:hash',
    'logging.getLogger': 'x:logger', 'time.time': 'b:float', 'random.random': 'b:float',
    'os.urandom': 'b:bytes', 'json.dumps': 'b:str', 'collections.defaultdict': 'b:dict',
    'math.ceil': 'b:int', 'six.text_type': 'b:str', 'os.environ.get': 'b:str',
}
XM_RETURNS = {
    'sslctx.wrap_socket': 'x:socket', 'hash.digest': 'b:bytes', 'struct.pack': 'ext:struct.pack',
    'zcomp.compress': 'b:bytes', 'zcomp.flush': 'b:bytes', 'zdecomp.decompress': 'b:bytes',
    'socket.recv': 'b:bytes', 'socket.recv_into': 'b:int', 'socket.pending': 'b:int',
    'socket.fileno': 'b:int', 'event.wait': 'b:bool', 'poll.poll': 'b:list',
}
# attribute (not call) on external instance
XATTR = {
    ('struct', 'pack'): 'ext:struct.pack', ('struct', 'unpack'): 'ext:struct.unpack',
}
BM_RETURNS = {
    'bytes.decode': 'b:str', 'bytearray.decode': 'b:str', 'str.encode': 'b:bytes', 'str.format': 'b:str',
    'str.lower': 'b:str', 'str.upper': 'b:str', 'str.strip': 'b:str', 'str.lstrip': 'b:str',
    'bytes.join': 'b:bytes', 'str.join': 'b:str', 'bytearray.find': 'b:int', 'bytes.find': 'b:int',
    'bytearray.translate': 'b:bytearray', 'bytes.split': 'b:list', 'str.split': 'b:list',
    'dict.get': None, 'bytes.lower': 'b:bytes',
}


class Ctx(object):
    """(function, concrete receiver class) analysis context."""
    __slots__ = ('func', 'recv', 'parent', 'key')

    def __init__(self, func, recv, parent=None):
        self.func = func
        self.recv = recv
        self.parent = parent
        self.key = (func.qual, recv)

    def __repr__(self):
        return '<ctx %s|%s>' % self.key


class Target(object):
    __slots__ = ('kind', 'func', 'recv', 'cls', 'name')

    def __init__(self, kind, func=None, recv=None, cls=None, name=None):
        self.kind = kind      # 'func' | 'ctor' | 'ext' | 'builtin' | 'bm' | 'unknown'
        self.func = func      # FuncInfo (for func / ctor with __init__)
        self.recv = recv
        self.cls = cls
        self.name = name

    @property
    def qual(self):
        if self.kind == 'func':
            return self.func.qual
        if self.kind == 'ctor':
            return self.cls
        return self.name

    def __repr__(self):
        return '<%s %s%s>' % (self.kind, self.qual, '|' + self.recv if self.recv else '')


def _local_names(fnode):
    names = set()
    a = fnode.args
    for x in a.posonlyargs + a.args + a.kwonlyargs:
        names.add(x.arg)
    if a.vararg:
        names.add(a.vararg.arg)
    if a.kwarg:
        names.add(a.kwarg.arg)

    def targets(t):
        if isinstance(t, ast.Name):
            names.add(t.id)
        elif isinstance(t, (ast.Tuple, ast.List)):
            for e in t.elts:
                targets(e)
        elif isinstance(t, ast.Starred):
            targets(t.value)
    for n in own_nodes(fnode):
        if isinstance(n, ast.Assign):
            for t in n.targets:
                targets(t)
        elif isinstance(n, (ast.AugAssign, ast.AnnAssign)):
            targets(n.target)
        elif isinstance(n, ast.For):
            targets(n.target)
        elif isinstance(n, ast.With):
            for it in n.items:
                if it.optional_vars is not None:
                    targets(it.optional_vars)
        elif isinstance(n, ast.ExceptHandler) and n.name:
            names.add(n.name)
        elif isinstance(n, ast.comprehension):
            targets(n.target)
    for n in ast.iter_child_nodes(fnode):
        pass
    return names


class Types(object):
    def __init__(self, prog, seeds=None):
        self.prog = prog
        self.seeds = seeds or {}
        self.local = {}      # (ctxkey, name) -> set
        self.field = {}      # (class, field) -> set
        self.ret = {}        # ctxkey -> set
        self.yld = {}        # ctxkey -> set
        self.sent = {}       # ctxkey -> set
        self.param = {}      # (ctxkey, name) -> set   (merged into local)
        self.callers = {}    # funcqual -> list of (ctx, call node)
        self.ctxs = {}
        self._locals_cache = {}
        self._parents = {}
        self._changed = False
        self._build_contexts()
        self.solve()

    # ------------------------------------------------------------- contexts
    def _build_contexts(self):
        prog = self.prog
        for q, f in prog.funcs.items():
            if f.parent is not None:
                continue
            if f.cls is None:
                self._add_ctx(f, None, None)
            else:
                for sub in prog.subclasses(f.cls.qual):
                    # only if sub actually resolves this name to f
                    if prog.find_method(sub, f.name) is f or f.name.startswith('__') or True:
                        self._add_ctx(f, sub, None)

    def _add_ctx(self, f, recv, parent):
        c = Ctx(f, recv, parent)
        self.ctxs[c.key] = c
        for nf in f.nested.values():
            self._add_ctx(nf, recv, c)
        return c

    def ctx(self, funcqual, recv=None):
        f = self.prog.func(funcqual)
        if recv is None and f.cls is not None:
            recv = f.cls.qual
        c = self.ctxs.get((funcqual, recv))
        if c is None:
            raise AnalysisError('no analysis context for %s|%s' % (funcqual, recv))
        return c

    def locals_of(self, f):
        s = self._locals_cache.get(f.qual)
        if s is None:
            s = _local_names(f.node) | set(f.nested)
            self._locals_cache[f.qual] = s
        return s

    def parents(self, f):
        p = self._parents.get(f.qual)
        if p is None:
            p = {}
            for n in ast.walk(f.node):
                for c in ast.iter_child_nodes(n):
                    p[id(c)] = n
            self._parents[f.qual] = p
        return p

    # --------------------------------------------------------------- solving
    def _add(self, table, key, types):
        if not types:
            return
        s = table.get(key)
        if s is None:
            s = table[key] = set()
        n = len(s)
        s.update(types)
        if len(s) != n:
            self._changed = True

    def solve(self):
        for i in range(40):
            self._changed = False
            self.callers = {}
            for c in list(self.ctxs.values()):
                self._scan(c)
            if not self._changed:
                self.iterations = i + 1
                return
        raise AnalysisError('type propagation did not converge')

    def _scan(self, ctx):
        f = ctx.func
        a = f.node.args
        # defaults -> param types
        pos = a.posonlyargs + a.args
        for arg, d in zip(pos[len(pos) - len(a.defaults):], a.defaults):
            self._add(self.local, (ctx.key, arg.arg), self.expr(d, ctx.parent or self._modctx(f)))
        for n in own_nodes(f.node):
            if isinstance(n, ast.Assign):
                t = self.expr(n.value, ctx)
                for tg in n.targets:
                    self._bind(tg, t, ctx)
            elif isinstance(n, ast.AugAssign):
                self._bind(n.target, self.expr(n.value, ctx), ctx)
            elif isinstance(n, ast.For):
                self._bind(n.target, self.elem(self.expr(n.iter, ctx)), ctx)
            elif isinstance(n, ast.comprehension):
                self._bind(n.target, self.elem(self.expr(n.iter, ctx)), ctx)
            elif isinstance(n, ast.With):
                for it in n.items:
                    if it.optional_vars is not None:
                        self._bind(it.optional_vars, self.expr(it.context_expr, ctx), ctx)
            elif isinstance(n, ast.ExceptHandler):
                if n.name and n.type is not None:
                    self._add(self.local, (ctx.key, n.name), self.exc_inst_types(n.type, ctx))
            elif isinstance(n, ast.Return):
                if n.value is not None:
                    self._add(self.ret, ctx.key, self.expr(n.value, ctx))
                else:
                    self._add(self.ret, ctx.key, {'b:none'})
            elif isinstance(n, ast.Yield):
                if n.value is not None:
                    self._add(self.yld, ctx.key, self.expr(n.value, ctx))
                else:
                    self._add(self.yld, ctx.key, {'b:none'})
            elif isinstance(n, ast.Call):
                self._scan_call(n, ctx)

    def _modctx(self, f):
        return _ModCtx(f.module, f.cls)

    def _scan_call(self, call, ctx):
        for t in self.call_targets(call, ctx):
            if t.kind in ('func', 'ctor') and t.func is not None:
                self.callers.setdefault(t.func.qual, []).append((ctx, call, t))
                tkey = (t.func.qual, t.recv)
                if tkey not in self.ctxs:
                    continue
                params = t.func.params
                skip = 0
                if t.kind == 'ctor' or (t.recv is not None and not t.func.is_staticmethod and t.func.cls is not None):
                    skip = 1
                # unbound method called through the class with explicit self
                if t.kind == 'func' and t.recv is None and t.func.cls is not None:
                    skip = 0
                for i, arg in enumerate(call.args):
                    if isinstance(arg, ast.Starred):
                        break
                    if i + skip < len(params):
                        self._add(self.local, (tkey, params[i + skip]), self.expr(arg, ctx))
                for kw in call.keywords:
                    if kw.arg and kw.arg in params:
                        self._add(self.local, (tkey, kw.arg), self.expr(kw.value, ctx))
        # generator send -> sent types
        fn = call.func
        if isinstance(fn, ast.Attribute) and fn.attr == 'send' and call.args:
            for gt in self.expr(fn.value, ctx):
                if isinstance(gt, str) and gt.startswith('gen:'):
                    fq, r = gt[4:].split('|')
                    self._add(self.sent, (fq, None if r == '-' else r), self.expr(call.args[0], ctx))

    def _bind(self, target, types, ctx):
        if isinstance(target, ast.Name):
            c = ctx
            # closures: a nested function assigning a name binds its own local
            self._add(self.local, (c.key, target.id), types)
        elif isinstance(target, ast.Attribute):
            for bt in self.expr(target.value, ctx):
                if isinstance(bt, str) and bt.startswith('inst:'):
                    self._add(self.field, (bt[5:], target.attr), types)
                elif isinstance(bt, str) and bt.startswith('cls:'):
                    self._add(self.field, ('cls:' + bt[4:], target.attr), types)
        elif isinstance(target, (ast.Tuple, ast.List)):
            tuples = [t for t in types if isinstance(t, tuple) and t[0] == 'tuple']
            for i, e in enumerate(target.elts):
                got = set()
                for t in tuples:
                    if i < len(t[1]):
                        got |= set(t[1][i])
                self._bind(e, got, ctx)
        elif isinstance(target, ast.Starred):
            pass

    # ----------------------------------------------------------------- types
    def elem(self, types):
        out = set()
        for t in types:
            if isinstance(t, str) and t.startswith('gen:'):
                fq, r = t[4:].split('|')
                out |= self.yld.get((fq, None if r == '-' else r), set())
            elif isinstance(t, tuple) and t[0] == 'tuple':
                for e in t[1]:
                    out |= set(e)
        return out

    def exc_inst_types(self, texpr, ctx):
        out = set()
        exprs = texpr.elts if isinstance(texpr, ast.Tuple) else [texpr]
        for e in exprs:
            for t in self.expr(e, ctx):
                if isinstance(t, str) and t.startswith('cls:'):
                    out.add('inst:' + t[4:])
                elif isinstance(t, str) and t.startswith('ext:'):
                    out.add('x:exc')
            if isinstance(e, ast.Name) and e.id in BUILTIN_EXC:
                out.add('x:exc')
        return out

    def field_types(self, cls, attr):
        s = self.seeds.get((cls, attr))
        if s:
            return set(s)
        out = set()
        for q in self.prog.mro(cls):
            s = self.seeds.get((q, attr))
            if s:
                return set(s)
        out |= self.field.get((cls, attr), set())
        return out

    def name_types(self, name, ctx):
        c = ctx
        while c is not None and not isinstance(c, _ModCtx):
            f = c.func
            if name in self.locals_of(f):
                if name in f.nested:
                    return {'func:' + f.nested[name].qual + '@' + (c.recv or '-')}
                if name == 'self' and f.cls is not None and not f.is_classmethod and not f.is_staticmethod \
                        and f.params and f.params[0] == 'self':
                    return {'inst:' + c.recv}
                if name == 'cls' and f.is_classmethod:
                    return {'cls:' + c.recv}
                return set(self.local.get((c.key, name), set()))
            c = c.parent
        if isinstance(ctx, _ModCtx):
            module, cls = ctx.module, ctx.cls
        else:
            module, cls = ctx.func.module, ctx.func.cls
        return self.global_types(module, name)

    def global_types(self, module, name):
        r = self.prog.lookup(module, name)
        if r is None:
            if name == 'True' or name == 'False':
                return {'b:bool'}
            if name in BUILTIN_EXC:
                return {'ext:builtins.' + name}
            return set()
        k = r[0]
        if k == 'class':
            return {'cls:' + r[1]}
        if k == 'func':
            return {'func:' + r[1]}
        if k == 'mod':
            return {'mod:' + r[1]}
        if k == 'extmod':
            return {'extmod:' + r[1]}
        if k == 'ext':
            return {'ext:' + r[1]}
        if k == 'global':
            out = set()
            m = self.prog.modules[r[1]]
            for v in m.globals.get(r[2], []):
                out |= self.expr(v, _ModCtx(m, None))
            return out
        if k == 'classattr':
            return self.attr_types({'cls:' + r[1]}, r[2], None)
        return set()

    def attr_types(self, base_types, attr, ctx):
        prog = self.prog
        out = set()
        for t in base_types:
            if not isinstance(t, str):
                continue
            if t.startswith('inst:'):
                C = t[5:]
                if C not in prog.classes:
                    continue
                fi = prog.find_method(C, attr)
                if fi is not None:
                    if fi.is_property:
                        out |= self.ret.get((fi.qual, C), set())
                    elif fi.is_staticmethod:
                        out.add('func:' + fi.qual)
                    else:
                        out.add('bound:%s|%s' % (fi.qual, C))
                    continue
                ft = self.field_types(C, attr)
                if ft:
                    out |= ft
                ca = prog.class_attr(C, attr)
                if ca is not None:
                    q, vals = ca
                    mc = _ModCtx(prog.classes[q].module, prog.classes[q])
                    for v in vals:
                        out |= self.expr(v, mc)
                    out |= self.field.get(('cls:' + q, attr), set())
                # nested class through instance (self.State)
                if C + '.' + attr in prog.classes:
                    out.add('cls:' + C + '.' + attr)
                for q in prog.mro(C):
                    if q + '.' + attr in prog.classes:
                        out.add('cls:' + q + '.' + attr)
            elif t.startswith('cls:'):
                C = t[4:]
                if C not in prog.classes:
                    continue
                hit = False
                for q in prog.mro(C):
                    if q + '.' + attr in prog.classes:
                        out.add('cls:' + q + '.' + attr)
                        hit = True
                        break
                if hit:
                    continue
                fi = prog.find_method(C, attr)
                if fi is not None:
                    if fi.is_classmethod:
                        out.add('bound:%s|%s' % (fi.qual, C))
                    else:
                        out.add('func:' + fi.qual)
                    continue
                ca = prog.class_attr(C, attr)
                if ca is not None:
                    q, vals = ca
                    mc = _ModCtx(prog.classes[q].module, prog.classes[q])
                    for v in vals:
                        out |= self.expr(v, mc)
                out |= self.field.get(('cls:' + C, attr), set())
            elif t.startswith('super:'):
                C, R = t[6:].split('|')
                fi = prog.find_method(R, attr, after=C)
                if fi is not None:
                    out.add('bound:%s|%s' % (fi.qual, R))
            elif t.startswith('mod:'):
                out |= self.global_types(prog.modules[t[4:]], attr)
            elif t.startswith('extmod:'):
                out.add('ext:%s.%s' % (t[7:], attr))
            elif t.startswith('ext:'):
                out.add('ext:%s.%s' % (t[4:], attr))
            elif t.startswith('x:'):
                k = t[2:]
                if (k, attr) in XATTR:
                    out.add(XATTR[(k, attr)])
                else:
                    out.add('xm:%s.%s' % (k, attr))
            elif t.startswith('b:'):
                out.add('bm:%s.%s' % (t[2:], attr))
            elif t.startswith('gen:'):
                out.add('genm:%s.%s' % (t[4:], attr))
        return out

    def expr(self, e, ctx):
        if e is None:
            return set()
        if isinstance(e, ast.Constant):
            v = e.value
            if v is None:
                return {'b:none'}
            if isinstance(v, bool):
                return {'b:bool'}
            if isinstance(v, bytes):
                return {'b:bytes'}
            if isinstance(v, str):
                return {'b:str'}
            if isinstance(v, int):
                return {'b:int'}
            if isinstance(v, float):
                return {'b:float'}
            return set()
        if isinstance(e, ast.Name):
            return self.name_types(e.id, ctx)
        if isinstance(e, ast.Attribute):
            return self.attr_types(self.expr(e.value, ctx), e.attr, ctx)
        if isinstance(e, ast.Call):
            return self.call_types(e, ctx)
        if isinstance(e, ast.IfExp):
            if not isinstance(ctx, _ModCtx):
                v = py_const(e.test, ctx.func.module)
                if v is True:
                    return self.expr(e.body, ctx)
                if v is False:
                    return self.expr(e.orelse, ctx)
            return self.expr(e.body, ctx) | self.expr(e.orelse, ctx)
        if isinstance(e, ast.BoolOp):
            out = set()
            for v in e.values:
                out |= self.expr(v, ctx)
            return out
        if isinstance(e, ast.BinOp):
            l = self.expr(e.left, ctx)
            r = self.expr(e.right, ctx)
            return {t for t in (l | r) if isinstance(t, str) and t.startswith('b:')}
        if isinstance(e, ast.UnaryOp):
            if isinstance(e.op, ast.Not):
                return {'b:bool'}
            return self.expr(e.operand, ctx)
        if isinstance(e, ast.Compare):
            return {'b:bool'}
        if isinstance(e, ast.Tuple):
            return {('tuple', tuple(frozenset(x for x in self.expr(x, ctx)) for x in e.elts))}
        if isinstance(e, (ast.List, ast.ListComp)):
            return {'b:list'}
        if isinstance(e, (ast.Dict, ast.DictComp)):
            return {'b:dict'}
        if isinstance(e, (ast.Set, ast.SetComp)):
            return {'b:set'}
        if isinstance(e, ast.GeneratorExp):
            return {'b:genexp'}
        if isinstance(e, ast.JoinedStr):
            return {'b:str'}
        if isinstance(e, ast.Subscript):
            base = self.expr(e.value, ctx)
            out = set()
            for t in base:
                if isinstance(e.slice, ast.Slice):
                    if t in ('b:bytes', 'b:bytearray', 'b:memoryview', 'b:str', 'b:list'):
                        out.add(t)
                else:
                    if isinstance(t, tuple) and t[0] == 'tuple':
                        if isinstance(e.slice, ast.Constant) and isinstance(e.slice.value, int) \
                                and -len(t[1]) <= e.slice.value < len(t[1]):
                            out |= set(t[1][e.slice.value])
                        else:
                            for el in t[1]:
                                out |= set(el)
                    elif t in ('b:bytes', 'b:bytearray', 'b:memoryview'):
                        out.add('b:int')
            return out
        if isinstance(e, ast.Yield):
            if isinstance(ctx, _ModCtx):
                return set()
            return set(self.sent.get(ctx.key, set()))
        if isinstance(e, ast.Lambda):
            return {'b:lambda'}
        if isinstance(e, ast.Starred):
            return set()
        return set()

    def call_types(self, call, ctx):
        out = set()
        fn = call.func
        # builtins by name
        if isinstance(fn, ast.Name) and not self.name_types(fn.id, ctx):
            n = fn.id
            if n in BUILTIN_TYPES:
                return {BUILTIN_TYPES[n]}
            if n == 'iter' and call.args:
                return self.expr(call.args[0], ctx)
            if n == 'next' and call.args:
                out = self.elem(self.expr(call.args[0], ctx))
                if len(call.args) > 1:
                    out |= self.expr(call.args[1], ctx)
                return out
            if n == 'super':
                if len(call.args) == 2:
                    for t in self.expr(call.args[0], ctx):
                        if isinstance(t, str) and t.startswith('cls:') and not isinstance(ctx, _ModCtx):
                            out.add('super:%s|%s' % (t[4:], ctx.recv))
                elif not isinstance(ctx, _ModCtx) and ctx.func.cls is not None:
                    out.add('super:%s|%s' % (ctx.func.cls.qual, ctx.recv))
                return out
            if n == 'getattr' and len(call.args) >= 2 and isinstance(call.args[1], ast.Constant):
                out = self.attr_types(self.expr(call.args[0], ctx), call.args[1].value, ctx)
                if len(call.args) > 2:
                    out |= self.expr(call.args[2], ctx)
                return out
            return set()
        for ct in self.expr(fn, ctx):
            if not isinstance(ct, str):
                continue
            if ct.startswith('cls:'):
                out.add('inst:' + ct[4:])
            elif ct.startswith('func:'):
                q = ct[5:]
                recv = None
                if '@' in q:
                    q, recv = q.split('@')
                    recv = None if recv == '-' else recv
                f = self.prog.funcs.get(q)
                if f is None:
                    continue
                if f.is_generator:
                    out.add('gen:%s|%s' % (q, recv or '-'))
                else:
                    out |= self.ret.get((q, recv), set())
                    if f.cls is not None and recv is None:
                        out |= self.ret.get((q, f.cls.qual), set())
            elif ct.startswith('bound:'):
                q, r = ct[6:].split('|')
                f = self.prog.funcs.get(q)
                if f is None:
                    continue
                if f.is_generator:
                    out.add('gen:%s|%s' % (q, r))
                else:
                    out |= self.ret.get((q, r), set())
            elif ct.startswith('ext:'):
                d = ct[4:]
                if d == 'functools.partial' and call.args:
                    out |= self.expr(call.args[0], ctx)
                elif d in EXT_RETURNS:
                    out.add(EXT_RETURNS[d])
                elif d.startswith('builtins.'):
                    out.add('x:exc')
            elif ct.startswith('xm:'):
                r = XM_RETURNS.get(ct[3:])
                if r:
                    out.add(r)
            elif ct.startswith('bm:'):
                r = BM_RETURNS.get(ct[3:])
                if r:
                    out.add(r)
            elif ct.startswith('genm:'):
                g, meth = ct[5:].rsplit('.', 1)
                if meth in ('send', 'throw', '__next__', 'next'):
                    out |= self.elem({'gen:' + g})
        return out

    # ------------------------------------------------------ call resolution
    def narrowed_recv_types(self, call, ctx):
        """Types of the receiver of a method call, narrowed by enclosing isinstance tests."""
        fn = call.func
        types = self.expr(fn.value, ctx)
        if isinstance(ctx, _ModCtx):
            return types
        recv_text = U(fn.value)
        parents = self.parents(ctx.func)
        node = call
        while True:
            p = parents.get(id(node))
            if p is None or p is ctx.func.node:
                break
            if isinstance(p, ast.If):
                pos, neg = _isinstance_facts(p.test)
                in_body = any(node is s for s in p.body)
                in_else = any(node is s for s in p.orelse)
                facts = pos if in_body else (neg if in_else else [])
                polarity = True
                if in_else:
                    # orelse: negated simple isinstance
                    for (txt, cls_expr) in _isinstance_facts(p.test)[0]:
                        if txt == recv_text and _is_simple_isinstance(p.test):
                            types = self._filter_inst(types, cls_expr, ctx, keep=False)
                    facts = []
                for (txt, cls_expr) in facts:
                    if txt == recv_text:
                        types = self._filter_inst(types, cls_expr, ctx, keep=True)
            node = p
        return types

    def _filter_inst(self, types, cls_expr, ctx, keep):
        wanted = set()
        exprs = cls_expr.elts if isinstance(cls_expr, ast.Tuple) else [cls_expr]
        for e in exprs:
            for t in self.expr(e, ctx):
                if isinstance(t, str) and t.startswith('cls:'):
                    wanted.add(t[4:])
        if not wanted:
            return types
        out = set()
        for t in types:
            if isinstance(t, str) and t.startswith('inst:'):
                is_sub = any(self.prog.is_subclass(t[5:], w) for w in wanted)
                if is_sub == keep:
                    out.add(t)
            elif not keep:
                out.add(t)
        return out

    def call_targets(self, call, ctx):
        fn = call.func
        out = []
        if isinstance(fn, ast.Name) and not self.name_types(fn.id, ctx):
            if fn.id in BUILTIN_NAMES or fn.id in BUILTIN_EXC:
                return [Target('builtin', name=fn.id)]
            return [Target('unknown', name=U(fn))]
        if isinstance(fn, ast.Attribute):
            base = self.narrowed_recv_types(call, ctx)
            # drop instance types that do not have the attribute at all
            ctypes = self.attr_types(base, fn.attr, ctx)
        else:
            ctypes = self.expr(fn, ctx)
        seen = set()
        for ct in sorted(t for t in ctypes if isinstance(t, str)):
            t = None
            if ct.startswith('cls:'):
                C = ct[4:]
                t = Target('ctor', func=self.prog.find_method(C, '__init__'), recv=C, cls=C)
            elif ct.startswith('func:'):
                q = ct[5:]
                recv = None
                if '@' in q:
                    q, recv = q.split('@')
                    recv = None if recv == '-' else recv
                f = self.prog.funcs.get(q)
                if f is not None:
                    t = Target('func', func=f, recv=recv)
            elif ct.startswith('bound:'):
                q, r = ct[6:].split('|')
                f = self.prog.funcs.get(q)
                if f is not None:
                    t = Target('func', func=f, recv=r)
            elif ct.startswith('ext:'):
                t = Target('ext', name=ct[4:])
            elif ct.startswith('xm:'):
                t = Target('ext', name=ct[3:])
            elif ct.startswith('bm:'):
                t = Target('bm', name=ct[3:])
            elif ct.startswith('genm:'):
                t = Target('gen', name=ct[5:])
            if t is not None:
                k = (t.kind, t.qual, t.recv)
                if k not in seen:
                    seen.add(k)
                    out.append(t)
        if not out:
            out.append(Target('unknown', name=U(fn)))
        return out

    def resolves_to(self, call, ctx, funcqual):
        return any(t.kind in ('func', 'ctor') and t.func is not None and t.func.qual == funcqual
                   for t in self.call_targets(call, ctx))


class _ModCtx(object):
    """Pseudo-context for module / class level expressions."""
    def __init__(self, module, cls):
        self.module = module
        self.cls = cls
        self.parent = None
        self.recv = cls.qual if cls is not None else None
        self.key = ('<module %s>' % module.name, None)

    @property
    def func(self):
        return _FakeFunc(self.module, self.cls)


class _FakeFunc(object):
    def __init__(self, module, cls):
        self.module = module
        self.cls = cls
        self.nested = {}
        self.qual = '<module>'
        self.params = []
        self.is_classmethod = False
        self.is_staticmethod = False


def _is_simple_isinstance(test):
    return (isinstance(test, ast.Call) and isinstance(test.func, ast.Name)
            and test.func.id == 'isinstance' and len(test.args) == 2)


def _isinstance_facts(test):
    """(positive facts, negative facts) implied by the test being true."""
    pos = []
    if _is_simple_isinstance(test):
        pos.append((U(test.args[0]), test.args[1]))
    elif isinstance(test, ast.BoolOp) and isinstance(test.op, ast.And):
        for v in test.values:
            pos.extend(_isinstance_facts(v)[0])
    return pos, []
