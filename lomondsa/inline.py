"""Normalisation pass: look through helpers the rules do not know.

Every rule names its anchors (``WebSocket.on_response``, ``WebsocketSession._close_socket`` ...).  The functions of the
pinned tree are listed in ``known_funcs.KNOWN``; a function that is *not* in that table is, by definition, not an anchor
of any rule: it is a helper somebody extracted (or a change introduced).  So that the rules see the same program whether
or not a piece of an anchor was moved into such a helper, calls to unknown helpers are inlined at the AST level before
the program is indexed, when that can be done exactly:

  * ``self._h(args)`` as a statement            (helper returns nothing; bare returns only in tail position)
  * ``return self._h(args)``                    (helper returns become the caller's returns)
  * ``x = self._h(args)`` / first-evaluated call inside a statement (``yield self._h(n)``, ``if self._h(x):``)
                                                (helper returns only in tail position; each becomes ``x = value``)

for helpers that are methods of the same class (called on the method's own receiver), nested functions of the caller, or
module-level functions of the same module.  Helpers that yield, recurse, take *args, contain nested functions, or return
from inside loops / before trailing statements are left alone - the rules then see a call to an unknown function, as
before.  A helper whose every use was inlined is dropped from its class, so who-may-call rules do not count its body
twice.  What was inlined is recorded in ``Program.inlined`` and printed in the evidence.
"""
import ast
import copy

from .known_funcs import KNOWN

_DEF = (ast.FunctionDef, ast.AsyncFunctionDef, ast.Lambda, ast.ClassDef)


def _simple(e):
    if isinstance(e, (ast.Name, ast.Constant)):
        return True
    if isinstance(e, ast.Attribute):
        return _simple(e.value)
    return False


def _walk_own(stmts):
    stack = list(stmts)
    while stack:
        n = stack.pop()
        yield n
        if isinstance(n, _DEF):
            continue
        stack.extend(ast.iter_child_nodes(n))


class _Helper(object):
    def __init__(self, node, kind, qual, owner, is_gen=False):
        self.is_gen = is_gen
        self.node = node
        self.kind = kind          # 'method' | 'classmethod' | 'staticmethod' | 'nested' | 'module'
        self.qual = qual
        self.owner = owner        # ClassDef / FunctionDef / Module containing the def
        self.uses = 0
        self.home = None          # ModuleInfo of a helper that lives in another module than its caller

    @property
    def name(self):
        return self.node.name


def _body_wo_doc(fn):
    body = list(fn.body)
    if body and isinstance(body[0], ast.Expr) and isinstance(body[0].value, ast.Constant) and isinstance(body[0].value.value, str):
        body = body[1:]
    return body


def _tail_returns(stmts, out):
    """Collect the Return nodes that are in tail position of the statement list."""
    if not stmts:
        return
    last = stmts[-1]
    if isinstance(last, ast.Return):
        out.add(id(last))
    elif isinstance(last, ast.If):
        _tail_returns(last.body, out)
        _tail_returns(last.orelse, out)
    elif isinstance(last, ast.Try):
        if last.orelse:
            _tail_returns(last.orelse, out)
        else:
            _tail_returns(last.body, out)
        for h in last.handlers:
            _tail_returns(h.body, out)
    elif isinstance(last, ast.With):
        _tail_returns(last.body, out)
    elif isinstance(last, (ast.For, ast.While)) and getattr(last, '_else_tail', False):
        _tail_returns(last.orelse, out)


def _conv_tail(stmts, mk):
    """Rewrite tail returns through mk(value) -> [stmts]; fall-through ends get mk(None)."""
    if not stmts:
        return mk(None)
    last = stmts[-1]
    if isinstance(last, ast.Return):
        return stmts[:-1] + mk(last.value, last)
    if isinstance(last, ast.Raise):
        return stmts
    if isinstance(last, ast.If):
        last.body = _conv_tail(last.body, mk) or [ast.copy_location(ast.Pass(), last)]
        last.orelse = _conv_tail(last.orelse, mk)
        return stmts
    if isinstance(last, ast.Try):
        if last.orelse:
            last.orelse = _conv_tail(last.orelse, mk)
        else:
            last.body = _conv_tail(last.body, mk) or [ast.copy_location(ast.Pass(), last)]
        for h in last.handlers:
            h.body = _conv_tail(h.body, mk) or [ast.copy_location(ast.Pass(), h)]
        return stmts
    if isinstance(last, ast.With):
        last.body = _conv_tail(last.body, mk) or [ast.copy_location(ast.Pass(), last)]
        return stmts
    if isinstance(last, (ast.For, ast.While)) and getattr(last, '_conv', False):
        if getattr(last, '_else_tail', False):
            last.orelse = _conv_tail(last.orelse, mk)
        return stmts
    return stmts + mk(None)


class _Unsupported(Exception):
    pass


_RET = '__loop_return__'


def _own_loop_exits(stmts, kinds):
    """break / continue / return statements of this statement list that belong to the enclosing loop (not to a nested
    loop, for break / continue) - nested functions are not entered."""
    out = []
    for s in stmts:
        if isinstance(s, kinds):
            out.append(s)
        if isinstance(s, (ast.FunctionDef, ast.AsyncFunctionDef, ast.ClassDef)):
            continue
        if isinstance(s, (ast.For, ast.While)):
            out.extend(x for x in _own_loop_exits(s.body + s.orelse, kinds) if isinstance(x, ast.Return))
            continue
        for f in ('body', 'orelse', 'finalbody'):
            sub = getattr(s, f, None)
            if isinstance(sub, list) and sub and isinstance(sub[0], ast.stmt):
                out.extend(_own_loop_exits(sub, kinds))
        for h in getattr(s, 'handlers', []) or []:
            out.extend(_own_loop_exits(h.body, kinds))
    return out


def _const_true(e):
    return isinstance(e, ast.Constant) and bool(e.value)


def _loop_returns(loop):
    """`return X` inside a loop  ->  `__loop_return__ = X; break`.  A nested loop that returns must be a statement of the
    loop body itself: the statements after it become its else-clause (ending in `continue`) and a `break` follows it."""
    if loop.orelse or [x for x in _own_loop_exits(loop.body, (ast.Break,)) if isinstance(x, ast.Break)]:
        raise _Unsupported()

    def ret(r):
        val = r.value if r.value is not None else ast.Constant(value=None)
        a = ast.copy_location(ast.Assign(targets=[ast.Name(id=_RET, ctx=ast.Store())], value=val), r)
        return [a, ast.copy_location(ast.Break(), r)]

    def block(stmts, top):
        out = []
        for j, s in enumerate(stmts):
            if isinstance(s, ast.Return):
                return out + ret(s)
            if isinstance(s, (ast.For, ast.While)):
                if any(isinstance(x, ast.Return) for x in _own_loop_exits([s], (ast.Return,))):
                    if not top:
                        raise _Unsupported()
                    _loop_returns(s)
                    rest = block(stmts[j + 1:], top)
                    if not (isinstance(s, ast.While) and _const_true(s.test)):
                        s.orelse = rest + [ast.copy_location(ast.Continue(), s)]
                    return out + [s, ast.copy_location(ast.Break(), s)]
                out.append(s)
                continue
            if isinstance(s, ast.If):
                s.body = block(s.body, False) or [ast.copy_location(ast.Pass(), s)]
                s.orelse = block(s.orelse, False)
            elif isinstance(s, ast.Try):
                if any(isinstance(x, ast.Return) for x in _own_loop_exits(s.finalbody, (ast.Return,))):
                    raise _Unsupported()
                s.body = block(s.body, False) or [ast.copy_location(ast.Pass(), s)]
                s.orelse = block(s.orelse, False)
                for h in s.handlers:
                    h.body = block(h.body, False) or [ast.copy_location(ast.Pass(), h)]
            elif isinstance(s, ast.With):
                s.body = block(s.body, False) or [ast.copy_location(ast.Pass(), s)]
            out.append(s)
        return out
    loop.body = block(loop.body, True)
    loop._conv = True


def _loopify(body):
    """Helper body whose returns sit inside one statement-level loop: single-exit form with a for/while-else."""
    for i, s in enumerate(body):
        if isinstance(s, (ast.For, ast.While)) and any(isinstance(x, ast.Return) for x in _own_loop_exits([s], (ast.Return,))):
            _loop_returns(s)
            post = body[i + 1:]
            if isinstance(s, ast.While) and _const_true(s.test):
                return body[:i + 1]           # left only by the converted returns
            if any(isinstance(x, (ast.For, ast.While)) and any(
                    isinstance(y, ast.Return) for y in _own_loop_exits([x], (ast.Return,))) for x in post):
                raise _Unsupported()
            s.orelse = post if post else []
            s._else_tail = True
            return body[:i + 1]
        if any(isinstance(x, ast.Return) for x in _own_loop_exits([s], (ast.Return,))) and any(
                isinstance(x, (ast.For, ast.While)) and any(isinstance(y, ast.Return) for y in _own_loop_exits([x], (ast.Return,)))
                for x in _walk_own([s])):
            raise _Unsupported()              # a returning loop below an if / try: not handled
    return body


def _nest_else(stmts):
    """`if c: ...return` followed by more statements  ==  `if c: ...return  else: <the rest>` (so that early returns
    guarding the rest of a helper count as tail returns)."""
    for i, s in enumerate(stmts):
        if isinstance(s, ast.If) and i + 1 < len(stmts) and any(isinstance(n, ast.Return) for n in _walk_own([s])):
            if not _falls_through(s.body):
                # the branch leaves: what follows the statement runs only after the else-part (an elif chain included)
                s.orelse = _nest_else(list(s.orelse) + stmts[i + 1:])
                s.body = _nest_else(s.body)
                return stmts[:i + 1]
            if s.orelse and not _falls_through(s.orelse) and _falls_through(s.body):
                s.body = _nest_else(s.body + stmts[i + 1:])
                return stmts[:i + 1]
        if isinstance(s, ast.Try) and i + 1 < len(stmts) and not s.finalbody and s.handlers \
                and any(isinstance(n, ast.Return) for h in s.handlers for n in _walk_own(h.body)) \
                and all(not _falls_through(h.body) for h in s.handlers):
            # the statements after a try whose handlers all leave are its else-clause (exceptions of an else-clause
            # are not caught by the handlers, exactly as for statements after the try)
            s.orelse = _nest_else(list(s.orelse) + stmts[i + 1:])
            return stmts[:i + 1]
    if stmts and isinstance(stmts[-1], ast.If):
        stmts[-1].body = _nest_else(stmts[-1].body)
        stmts[-1].orelse = _nest_else(stmts[-1].orelse)
    return stmts


def _falls_through(stmts):
    if not stmts:
        return True
    last = stmts[-1]
    if isinstance(last, (ast.Return, ast.Raise)):
        return False
    if isinstance(last, ast.If):
        return _falls_through(last.body) or _falls_through(last.orelse)
    if isinstance(last, ast.Try):
        if last.finalbody and not _falls_through(last.finalbody):
            return False
        main = _falls_through(last.orelse) if last.orelse else _falls_through(last.body)
        return main or any(_falls_through(h.body) for h in last.handlers)
    if isinstance(last, ast.With):
        return _falls_through(last.body)
    if isinstance(last, ast.While) and isinstance(last.test, ast.Constant) and last.test.value:
        return any(isinstance(n, ast.Break) for n in _walk_own(last.body))
    return True


class _Rename(ast.NodeTransformer):
    def __init__(self, names, subst, kwname, kwextra):
        self.names = names        # local name -> new name
        self.subst = subst        # param name -> expression (copied at each use)
        self.kwname = kwname
        self.kwextra = kwextra

    def visit_Name(self, n):
        if n.id in self.subst:
            return ast.copy_location(copy.deepcopy(self.subst[n.id]), n)
        if n.id in self.names:
            return ast.copy_location(ast.Name(id=self.names[n.id], ctx=n.ctx), n)
        return n

    def visit_ExceptHandler(self, h):
        if h.name and h.name in self.names:
            h.name = self.names[h.name]
        self.generic_visit(h)
        return h

    def visit_Call(self, c):
        self.generic_visit(c)
        if self.kwname is not None:
            kws = []
            for k in c.keywords:
                if k.arg is None and isinstance(k.value, ast.Name) and k.value.id == self.kwname:
                    kws.extend(copy.deepcopy(self.kwextra))
                else:
                    kws.append(k)
            c.keywords = kws
        return c


class _Replace(ast.NodeTransformer):
    def __init__(self, old, new):
        self.old = old
        self.new = new

    def visit(self, n):
        if n is self.old:
            return self.new
        return self.generic_visit(n)


class Inliner(object):
    def __init__(self, modules):
        self.modules = modules     # name -> ModuleInfo (tree is rewritten in place)
        self.counter = 0
        self.log = []
        self.method_names = {}
        for m in modules.values():
            for n in ast.walk(m.tree):
                if isinstance(n, ast.ClassDef):
                    for s in n.body:
                        if isinstance(s, ast.FunctionDef):
                            self.method_names[s.name] = self.method_names.get(s.name, 0) + 1

    # ------------------------------------------------------------ candidates
    def _ok_def(self, fn):
        """'plain' | 'gen' | None"""
        r = self._ok_def0(fn, False)
        if r:
            return 'plain'
        if self._ok_def0(fn, True):
            return 'gen'
        return None

    def _ok_def0(self, fn, gen):
        decos = [ast.unparse(d) for d in fn.decorator_list]
        if any(d not in ('classmethod', 'staticmethod') for d in decos):
            return False
        a = fn.args
        if a.vararg is not None:
            return False
        body = _body_wo_doc(fn)
        if not body:
            return False
        nyield = 0
        par = {}
        for n in _walk_own(body):
            for c in ast.iter_child_nodes(n):
                par[id(c)] = n
        for n in _walk_own(body):
            if isinstance(n, ast.Yield):
                if not gen:
                    return False
                # only statement-level `yield e`
                if not isinstance(par.get(id(n)), ast.Expr):
                    return False
                nyield += 1
                continue
            if gen and isinstance(n, ast.Return) and n.value is not None and not (
                    isinstance(n.value, ast.Constant) and n.value.value is None):
                return False
            if isinstance(n, (ast.YieldFrom, ast.Await, ast.Global, ast.Nonlocal) + _DEF):
                return False
            if isinstance(n, ast.Call):
                f = n.func
                if (isinstance(f, ast.Name) and f.id == fn.name) or (isinstance(f, ast.Attribute) and f.attr == fn.name):
                    return False
        if a.kwarg is not None and not self._all_starstar(body, a.kwarg.arg):
            return False
        if gen and not nyield:
            return False
        return True

    def _is_starstar_use(self, body, name_node):
        for n in _walk_own(body):
            if isinstance(n, ast.Call):
                for k in n.keywords:
                    if k.arg is None and k.value is name_node:
                        return True
        return False

    def _all_starstar(self, body, kw):
        uses = [n for n in _walk_own(body) if isinstance(n, ast.Name) and n.id == kw]
        return all(self._is_starstar_use(body, u) for u in uses)

    # ----------------------------------------------------------------- driver
    def _collect_foreign(self):
        """Instance methods that are not anchors and whose name is defined exactly once in the package (no override, no
        namesake): `obj._h(args)` on any object can only mean that method."""
        known_names = set(q.rsplit('.', 1)[-1] for q in KNOWN)
        stop = set(dir(list) + dir(dict) + dir(str) + dir(bytes) + dir(bytearray) + dir(set) + dir(object)) | {
            'format', 'debug', 'info', 'warning', 'error', 'exception', 'send', 'close', 'recv', 'feed', 'read', 'write'}
        out = {}
        for m in self.modules.values():
            if m.name.startswith('examples'):
                continue
            for cn in ast.walk(m.tree):
                if not isinstance(cn, ast.ClassDef):
                    continue
                for s_ in cn.body:
                    if isinstance(s_, ast.FunctionDef) and self.method_names.get(s_.name, 0) == 1 and s_.name not in known_names \
                            and s_.name not in stop and not s_.decorator_list and self._ok_def(s_) == 'plain':
                        out[s_.name] = _Helper(s_, 'method', '%s.%s.%s' % (m.name, cn.name, s_.name), cn, False)
        # the name must not also be an attribute that is assigned somewhere (a callable stored in a field)
        for m in self.modules.values():
            for n in ast.walk(m.tree):
                if isinstance(n, ast.Attribute) and isinstance(n.ctx, ast.Store) and n.attr in out:
                    out.pop(n.attr)
        return out

    def run(self):
        self.foreign = self._collect_foreign()
        for rnd in range(4):
            changed = False
            for m in self.modules.values():
                if m.name.startswith('examples'):
                    continue
                if self._module(m):
                    changed = True
            if not changed:
                break
        self._drop_unused()
        return self.log

    def _module(self, m):
        changed = False
        modhelpers = {}
        for s in m.tree.body:
            if isinstance(s, ast.FunctionDef) and (m.name + '.' + s.name) not in KNOWN and self._ok_def(s):
                modhelpers[s.name] = _Helper(s, 'module', m.name + '.' + s.name, m.tree, self._ok_def(s) == 'gen')

        # module-level helpers of sibling modules reachable through this module's imports
        xhelpers, modalias = {}, {}

        def sibling(modname, level):
            base = (modname or '').split('.')[-1] if modname else ''
            return self.modules.get(base) if base in self.modules else None
        for s in m.tree.body:
            if isinstance(s, ast.ImportFrom):
                if not s.module and s.level >= 1:
                    for a_ in s.names:                      # from . import proxy [as p]
                        if a_.name in self.modules:
                            modalias[a_.asname or a_.name] = self.modules[a_.name]
                else:
                    sm = sibling(s.module, s.level) if (s.level >= 1 or (s.module or '').startswith('lomond')) else None
                    if sm is not None and sm is not m:
                        for a_ in s.names:                  # from .proxy import _helper [as h]
                            for d_ in sm.tree.body:
                                if isinstance(d_, ast.FunctionDef) and d_.name == a_.name and (sm.name + '.' + d_.name) not in KNOWN \
                                        and self._ok_def(d_):
                                    hx = _Helper(d_, 'module', sm.name + '.' + d_.name, sm.tree, self._ok_def(d_) == 'gen')
                                    hx.home = sm
                                    xhelpers[a_.asname or a_.name] = hx
        # classes imported from sibling modules: their non-anchor class / static methods can be looked through
        xclasses = {}
        for s in m.tree.body:
            if isinstance(s, ast.ImportFrom) and s.module and (s.level >= 1 or s.module.startswith('lomond')):
                sm = sibling(s.module, s.level)
                if sm is not None and sm is not m:
                    for a_ in s.names:
                        for d_ in sm.tree.body:
                            if isinstance(d_, ast.ClassDef) and d_.name == a_.name:
                                xclasses[a_.asname or a_.name] = (sm, d_)
        self._modalias = modalias

        def do_func(fn, qual, clsnode, clshelpers, recv, enclosing_nested, recv_kind='method'):
            nonlocal changed
            # nested helpers defined directly in this function
            nested = dict(enclosing_nested)
            for n in _walk_own(fn.body):
                if isinstance(n, ast.FunctionDef) and (qual + '.' + n.name) not in KNOWN and self._ok_def(n):
                    nested[n.name] = _Helper(n, 'nested', qual + '.' + n.name, fn, self._ok_def(n) == 'gen')
            ctx = dict(fn=fn, qual=qual, recv=recv, clshelpers=clshelpers, nested=nested, modhelpers=modhelpers, module=m,
                       xhelpers=xhelpers, modalias=modalias, xclasses=xclasses,
                       clsname=(clsnode.name if clsnode is not None else None), recv_kind=recv_kind)
            nb = self._stmts(fn.body, ctx)
            if nb is not None:
                fn.body = nb
                changed = True
            for n in _walk_own(fn.body):
                if isinstance(n, ast.FunctionDef):
                    do_func(n, qual + '.' + n.name, clsnode, clshelpers, recv, nested, recv_kind)

        def do_class(cn, prefix):
            qual = prefix + '.' + cn.name
            helpers = {}
            for s in cn.body:
                if isinstance(s, ast.FunctionDef) and (qual + '.' + s.name) not in KNOWN and not (
                        s.name.startswith('__') and s.name.endswith('__')) and self.method_names.get(s.name, 0) == 1 \
                        and self._ok_def(s):
                    decos = [ast.unparse(d) for d in s.decorator_list]
                    kind = 'classmethod' if 'classmethod' in decos else 'staticmethod' if 'staticmethod' in decos else 'method'
                    helpers[s.name] = _Helper(s, kind, qual + '.' + s.name, cn, self._ok_def(s) == 'gen')
            for s in cn.body:
                if isinstance(s, ast.FunctionDef):
                    decos = [ast.unparse(d) for d in s.decorator_list]
                    recv = None
                    rk = 'method'
                    if 'staticmethod' not in decos and s.args.args:
                        recv = s.args.args[0].arg
                        rk = 'classmethod' if 'classmethod' in decos else 'method'
                    do_func(s, qual + '.' + s.name, cn, helpers, recv, {}, rk)
                elif isinstance(s, ast.ClassDef):
                    do_class(s, qual)

        for s in m.tree.body:
            if isinstance(s, ast.FunctionDef):
                do_func(s, m.name + '.' + s.name, None, {}, None, {})
            elif isinstance(s, ast.ClassDef):
                do_class(s, m.name)
        return changed

    # ------------------------------------------------------------ statements
    def _stmts(self, stmts, ctx):
        """Return the rewritten list, or None when nothing changed."""
        out = []
        changed = False
        for s in stmts:
            if isinstance(s, _DEF):
                out.append(s)
                continue
            for field in ('body', 'orelse', 'finalbody'):
                sub = getattr(s, field, None)
                if isinstance(sub, list) and sub and isinstance(sub[0], ast.stmt):
                    nb = self._stmts(sub, ctx)
                    if nb is not None:
                        setattr(s, field, nb)
                        changed = True
            for h in getattr(s, 'handlers', []) or []:
                nb = self._stmts(h.body, ctx)
                if nb is not None:
                    h.body = nb
                    changed = True
            cur = [s]
            for _ in range(6):
                last = cur[-1]
                rep = self._stmt(last, ctx)
                if rep is None:
                    break
                cur = cur[:-1] + rep
                changed = True
                if not rep or rep[-1] is not last:
                    break
            out.extend(cur)
        return out if changed else None

    def _match(self, call, ctx):
        f = call.func
        if isinstance(f, ast.Attribute) and isinstance(f.value, ast.Name):
            h = ctx['clshelpers'].get(f.attr)
            if h is not None and h.node is not ctx['fn']:
                if ctx['recv'] is not None and f.value.id == ctx['recv']:
                    # an instance method needs an instance receiver; class/static methods work on both
                    if h.kind != 'method' or ctx.get('recv_kind') == 'method':
                        return h
                elif ctx.get('clsname') and f.value.id == ctx['clsname'] and h.kind in ('classmethod', 'staticmethod'):
                    return h
            if h is None:
                # a uniquely named method of another (base) class, called on self or on any other object
                h = getattr(self, 'foreign', {}).get(f.attr)
                if h is not None and h.node is not ctx['fn']:
                    return h
        if isinstance(f, ast.Name):
            h = ctx['nested'].get(f.id)
            if h is not None and h.node is not ctx['fn']:
                return h
            h = ctx['modhelpers'].get(f.id)
            if h is not None and h.node is not ctx['fn']:
                return h
            if f.id not in self._local_names(ctx['fn']):
                h = ctx.get('xhelpers', {}).get(f.id)
                if h is not None:
                    return h
        if isinstance(f, ast.Attribute) and isinstance(f.value, ast.Name) and f.value.id in ctx.get('xclasses', {}) \
                and f.value.id not in self._local_names(ctx['fn']):
            sm, cd = ctx['xclasses'][f.value.id]
            key = (sm.name, cd.name, f.attr)
            cache = self.__dict__.setdefault('_xcache', {})
            if key not in cache:
                cache[key] = None
                for d_ in cd.body:
                    if isinstance(d_, ast.FunctionDef) and d_.name == f.attr and ('%s.%s.%s' % (sm.name, cd.name, d_.name)) not in KNOWN \
                            and self._ok_def(d_) == 'plain':
                        decos = [ast.unparse(x) for x in d_.decorator_list]
                        kind = 'classmethod' if 'classmethod' in decos else 'staticmethod' if 'staticmethod' in decos else None
                        if kind:
                            hx = _Helper(d_, kind, '%s.%s.%s' % (sm.name, cd.name, d_.name), cd, False)
                            hx.home = sm
                            hx.xclass = True
                            cache[key] = hx
            if cache[key] is not None:
                return cache[key]
        if isinstance(f, ast.Attribute) and isinstance(f.value, ast.Name) and f.value.id in ctx.get('modalias', {}) \
                and f.value.id not in self._local_names(ctx['fn']):
            sm = ctx['modalias'][f.value.id]
            key = (sm.name, f.attr)
            cache = self.__dict__.setdefault('_xcache', {})
            if key not in cache:
                cache[key] = None
                for d_ in sm.tree.body:
                    if isinstance(d_, ast.FunctionDef) and d_.name == f.attr and (sm.name + '.' + d_.name) not in KNOWN \
                            and self._ok_def(d_):
                        hx = _Helper(d_, 'module', sm.name + '.' + d_.name, sm.tree, self._ok_def(d_) == 'gen')
                        hx.home = sm
                        cache[key] = hx
            return cache[key]
        return None

    def _local_names(self, fn):
        names = set(a.arg for a in ast.walk(fn.args) if isinstance(a, ast.arg))
        for n in _walk_own(fn.body):
            if isinstance(n, ast.Name) and isinstance(n.ctx, (ast.Store, ast.Del)):
                names.add(n.id)
        return names

    def _first_call(self, e, ctx):
        """The helper call that is evaluated before any other effect of expression e (or None)."""
        if e is None or _simple(e):
            return None
        if isinstance(e, ast.Call):
            subs = [e.func] + list(e.args) + [k.value for k in e.keywords]
            if isinstance(e.func, ast.Attribute):
                subs[0] = e.func.value
            if self._match(e, ctx) is not None and _simple(subs[0]) and not self._match(e, ctx).is_gen:
                # a helper call: its own arguments are evaluated (in order) into the parameters by _expand, so they
                # may be anything - unless one of them contains a helper call, which then has to be inlined first
                inner = None
                for sub in subs[1:]:
                    for x in ast.walk(sub):
                        if isinstance(x, ast.Call) and self._match(x, ctx) is not None:
                            inner = x
                if inner is None:
                    return e
            for sub in subs:
                if isinstance(sub, ast.Starred):
                    sub = sub.value
                if _simple(sub):
                    continue
                return self._first_call(sub, ctx)
            return e if self._match(e, ctx) is not None else None
        if isinstance(e, (ast.Yield, ast.Await, ast.Starred)):
            return self._first_call(e.value, ctx)
        if isinstance(e, ast.UnaryOp):
            return self._first_call(e.operand, ctx)
        if isinstance(e, ast.Attribute):
            return self._first_call(e.value, ctx)
        if isinstance(e, ast.Subscript):
            return self._first_call(e.value, ctx) if not _simple(e.value) else self._first_call(e.slice, ctx)
        if isinstance(e, ast.BinOp):
            return self._first_call(e.left, ctx) if not _simple(e.left) else self._first_call(e.right, ctx)
        if isinstance(e, ast.Compare):
            for sub in [e.left] + list(e.comparators):
                if not _simple(sub):
                    return self._first_call(sub, ctx)
            return None
        if isinstance(e, ast.BoolOp):
            return self._first_call(e.values[0], ctx)
        if isinstance(e, ast.IfExp):
            return self._first_call(e.test, ctx)
        if isinstance(e, (ast.Tuple, ast.List, ast.Set)):
            for sub in e.elts:
                if not _simple(sub):
                    return self._first_call(sub, ctx)
            return None
        return None

    def _collector(self, e, ctx):
        """(collector call, generator helper call) when e is, or starts by evaluating, SEP.join(G(..)) / list(G(..)) /
        tuple(G(..)) with G a generator helper and nothing with effects evaluated before it."""
        def is_col(c):
            if not (isinstance(c, ast.Call) and len(c.args) == 1 and not c.keywords and isinstance(c.args[0], ast.Call)):
                return False
            f = c.func
            if isinstance(f, ast.Attribute) and f.attr == 'join' and isinstance(f.value, ast.Constant):
                pass
            elif isinstance(f, ast.Name) and f.id in ('list', 'tuple'):
                pass
            else:
                return False
            h = self._match(c.args[0], ctx)
            return h is not None and h.is_gen and all(_simple(a) for a in c.args[0].args) \
                and all(_simple(k.value) for k in c.args[0].keywords)
        if is_col(e):
            return e, e.args[0]
        if isinstance(e, ast.Call) and not e.keywords and e.args and is_col(e.args[0]) and _simple(e.func) \
                and all(_simple(a) for a in e.args[1:]):
            return e.args[0], e.args[0].args[0]
        return None

    def _stmt(self, s, ctx):
        """Try to inline one helper call of statement s: the replacement statement list (ending in s itself when s
        was kept with the call hoisted), or None."""
        if isinstance(s, ast.For) and isinstance(s.iter, ast.Call):
            h = self._match(s.iter, ctx)
            if h is not None and h.is_gen:
                return self._expand(h, s.iter, 'gen', s, ctx, s)
        if isinstance(s, ast.Expr) and isinstance(s.value, ast.Call):
            h = self._match(s.value, ctx)
            if h is not None:
                return self._expand(h, s.value, 'expr', None, ctx, s)
        if isinstance(s, ast.Return) and isinstance(s.value, ast.Call):
            h = self._match(s.value, ctx)
            if h is not None:
                return self._expand(h, s.value, 'ret', None, ctx, s)
        if isinstance(s, ast.Assign) and len(s.targets) == 1 and isinstance(s.value, ast.Call) and (
                isinstance(s.targets[0], ast.Name) or (isinstance(s.targets[0], ast.Tuple) and all(
                    isinstance(e, ast.Name) for e in s.targets[0].elts))):
            h = self._match(s.value, ctx)
            if h is not None:
                return self._expand(h, s.value, 'assign', s.targets[0], ctx, s)
        # a generator helper drained at once by join() / list() / tuple(): collect its values in a list with a loop
        if isinstance(s, (ast.Expr, ast.Return, ast.Assign)) and s.value is not None:
            col = self._collector(s.value, ctx)
            if col is not None:
                outer, gcall = col
                self.counter += 1
                acc = '_inl%d_items' % self.counter
                item = '_inl%d_item' % self.counter
                init = ast.Assign(targets=[ast.Name(id=acc, ctx=ast.Store())], value=ast.List(elts=[], ctx=ast.Load()))
                app = ast.Expr(value=ast.Call(func=ast.Attribute(value=ast.Name(id=acc, ctx=ast.Load()), attr='append',
                                                                 ctx=ast.Load()),
                                              args=[ast.Name(id=item, ctx=ast.Load())], keywords=[]))
                loop = ast.For(target=ast.Name(id=item, ctx=ast.Store()), iter=gcall, body=[app], orelse=[])
                for n_ in (init, loop):
                    ast.copy_location(n_, s)
                    for x in ast.walk(n_):
                        if not hasattr(x, 'lineno'):
                            ast.copy_location(x, s)
                    ast.fix_missing_locations(n_)
                outer.args[0] = ast.copy_location(ast.Name(id=acc, ctx=ast.Load()), gcall)
                self.log.append('%s: generator drained by %s() collected with a loop' % (
                    ctx['qual'], outer.func.attr if isinstance(outer.func, ast.Attribute) else outer.func.id))
                return [init, loop, s]
        # hoist the first-evaluated helper call
        if isinstance(s, (ast.Expr, ast.Return)):
            roots = [s.value]
        elif isinstance(s, ast.Assign):
            roots = [s.value]
        elif isinstance(s, ast.AugAssign) and _simple(s.target):
            roots = [s.value]
        elif isinstance(s, ast.If):
            roots = [s.test]
        elif isinstance(s, ast.Raise):
            roots = [s.exc]
        elif isinstance(s, ast.For):
            roots = [s.iter]
        else:
            return None
        c = self._first_call(roots[0], ctx)
        if c is None:
            return None
        h = self._match(c, ctx)
        if h.is_gen:
            return None
        self.counter += 1
        tmp = ast.Name(id='_inl%d_%s' % (self.counter, h.name.strip('_')), ctx=ast.Store())
        ast.copy_location(tmp, c)
        pre = self._expand(h, c, 'assign', tmp, ctx, s)
        if pre is None:
            return None
        load = ast.copy_location(ast.Name(id=tmp.id, ctx=ast.Load()), c)
        _Replace(c, load).visit(s)
        return pre + [s]

    def _expand(self, h, call, mode, target, ctx, at):
        fn = h.node
        if h.is_gen != (mode == 'gen'):
            return None
        body = copy.deepcopy(_body_wo_doc(fn))
        allret = [n for n in _walk_own(body) if isinstance(n, ast.Return)]
        if mode == 'gen':
            loop = target
            # the loop body is repeated at every yield of the helper: it must not leave / restart the loop itself
            for n in _walk_own(loop.body):
                if isinstance(n, (ast.Break, ast.Continue)):
                    inner = False
                    # allowed only inside a loop nested in the body
                    for outer in _walk_own(loop.body):
                        if isinstance(outer, (ast.For, ast.While)) and any(x is n for x in _walk_own(outer.body + outer.orelse)):
                            inner = True
                    if not inner:
                        return None
            if any(isinstance(n, (ast.Try, ast.With)) and any(isinstance(y, ast.Yield) for y in _walk_own([n]))
                   for n in _walk_own(body)):
                return None
        if mode in ('assign', 'expr'):
            try:
                body = _loopify(body)
            except _Unsupported:
                return None
            allret = [n for n in _walk_own(body) if isinstance(n, ast.Return)]
        if mode != 'ret':
            body = _nest_else(body)
            tails = set()
            _tail_returns(body, tails)
            if any(id(r) not in tails for r in allret):
                return None
            if mode == 'expr' and any(r.value is not None and not (isinstance(r.value, ast.Constant) and r.value.value is None)
                                      for r in allret):
                # a value is returned and discarded: keep calls for their effects
                pass
        # ---- bind parameters
        a = fn.args
        params = [x.arg for x in a.posonlyargs + a.args]
        defaults = dict(zip(params[len(params) - len(a.defaults):], a.defaults))
        for k, d in zip(a.kwonlyargs, a.kw_defaults):
            if d is not None:
                defaults[k.arg] = d
        kwonly = [k.arg for k in a.kwonlyargs]
        subst = {}
        if h.kind in ('method', 'classmethod'):
            if not params:
                return None
            first = params.pop(0)
            recv = call.func.value
            if h.kind == 'method':
                subst[first] = recv
            elif isinstance(recv, ast.Name) and ((recv.id == ctx.get('recv') and ctx.get('recv_kind') == 'classmethod')
                                                 or recv.id == ctx.get('clsname') or getattr(h, 'xclass', False)):
                subst[first] = recv          # already a class object
            else:
                subst[first] = ast.Attribute(value=copy.deepcopy(recv), attr='__class__', ctx=ast.Load())
        if any(isinstance(x, ast.Starred) for x in call.args) or any(k.arg is None for k in call.keywords):
            return None
        if len(call.args) > len(params):
            return None
        bound = {}
        for p, v in zip(params, call.args):
            bound[p] = v
        extra = []
        for k in call.keywords:
            if k.arg in params or k.arg in kwonly:
                if k.arg in bound:
                    return None
                bound[k.arg] = k.value
            elif a.kwarg is not None:
                extra.append(k)
            else:
                return None
        for p in params + kwonly:
            if p not in bound:
                if p not in defaults:
                    return None
                bound[p] = defaults[p]
        stored = set()
        attr_stores = set()
        for n in _walk_own(body):
            if isinstance(n, ast.Name) and isinstance(n.ctx, (ast.Store, ast.Del)):
                stored.add(n.id)
            elif isinstance(n, ast.ExceptHandler) and n.name:
                stored.add(n.name)
            elif isinstance(n, ast.Attribute) and isinstance(n.ctx, ast.Store):
                attr_stores.add(ast.unparse(n))
        caller_names = set()
        caller_locals = set()
        stack = [ctx['fn']]
        while stack:
            n = stack.pop()
            if n is fn:
                continue
            if isinstance(n, ast.Name):
                caller_names.add(n.id)
                if isinstance(n.ctx, ast.Store):
                    caller_locals.add(n.id)
            elif isinstance(n, ast.arg):
                caller_names.add(n.arg)
                caller_locals.add(n.arg)
            elif isinstance(n, ast.ExceptHandler) and n.name:
                caller_names.add(n.name)
                caller_locals.add(n.name)
            stack.extend(ast.iter_child_nodes(n))
        self.counter += 1
        tag = self.counter
        pre = []
        names = {}
        for p in params + kwonly:
            v = bound[p]
            direct = _simple(v) and p not in stored and not (isinstance(v, ast.Attribute) and ast.unparse(v) in attr_stores) \
                and not (isinstance(v, ast.Name) and v.id in stored and v.id != p)
            if direct:
                subst[p] = v
            elif isinstance(v, ast.Name) and p in stored and self._dead_after(ctx['fn'], fn, v.id, call, at, p):
                # the helper re-binds its parameter; the caller's variable passed for it is not read again, so the
                # helper can work on the caller's variable itself
                names[p] = v.id
            else:
                new = p if p not in caller_names else '%s_i%d' % (p, tag)
                names[p] = new
                if isinstance(v, ast.Name) and v.id == new:
                    continue
                asg = ast.Assign(targets=[ast.Name(id=new, ctx=ast.Store())], value=copy.deepcopy(v))
                pre.append(ast.copy_location(asg, call))
        for nm in stored:
            if nm in names or nm in subst:
                continue
            if nm in caller_names:
                names[nm] = '%s_i%d' % (nm, tag)
        # free variables of a method/module helper must not be captured by caller locals: a helper's free names are
        # globals/builtins; if the caller has a local of that name the text would change meaning
        free = set()
        if h.kind != 'nested':
            free = set(n.id for n in _walk_own(body) if isinstance(n, ast.Name)) - stored - set(params) - set(kwonly) \
                - set(subst)
            if free & caller_locals:
                return None
        if h.home is not None and h.home is not ctx['module']:
            # names the helper reads from its own module must mean the same thing at the call site: reached through an
            # alias of that module, imported under the same name, or bound by an identical top-level statement
            import builtins as _b
            home, here = h.home, ctx['module']

            def top(mod, nm):
                for d_ in mod.tree.body:
                    if isinstance(d_, (ast.FunctionDef, ast.ClassDef)) and d_.name == nm:
                        return d_
                    if isinstance(d_, ast.Assign) and any(isinstance(t, ast.Name) and t.id == nm for t in d_.targets):
                        return d_
                    if isinstance(d_, (ast.Import, ast.ImportFrom)) and any((x.asname or x.name.split('.')[0]) == nm
                                                                            for x in d_.names):
                        return d_
                return None
            alias = [k for k, v in ctx.get('modalias', {}).items() if v is home]
            for nm in sorted(free):
                dh = top(home, nm)
                if dh is None:
                    if hasattr(_b, nm) and top(here, nm) is None:
                        continue
                    return None
                dc = top(here, nm)
                if dc is not None and ast.dump(dc) == ast.dump(dh):
                    continue
                if isinstance(dc, ast.ImportFrom) and (dc.module or '').split('.')[-1] == home.name and any(
                        x.name == nm and (x.asname or x.name) == nm for x in dc.names):
                    continue
                if dc is None and alias and not isinstance(dh, (ast.Import, ast.ImportFrom)):
                    subst[nm] = ast.Attribute(value=ast.Name(id=alias[0], ctx=ast.Load()), attr=nm, ctx=ast.Load())
                    continue
                return None
        kwname = a.kwarg.arg if a.kwarg is not None else None
        rn = _Rename(names, subst, kwname, extra)
        body = [rn.visit(s) for s in body]
        # plain assignments to the helper's own locals may be forwarded into an immediate single use
        pnames = set(names.get(p, p) for p in params + kwonly)
        for s_ in body:
            for n_ in _walk_own([s_]):
                if isinstance(n_, ast.Assign) and len(n_.targets) == 1 and isinstance(n_.targets[0], ast.Name) \
                        and n_.targets[0].id not in pnames and n_.targets[0].id not in caller_names:
                    n_._norm = True
        # ---- returns
        if mode == 'ret':
            if _falls_through(body):
                body = body + [ast.copy_location(ast.Return(value=ast.Constant(value=None)), at)]
        elif mode == 'expr':
            def mk(v, r=None):
                if v is not None and not _simple(v):
                    return [ast.copy_location(ast.Expr(value=v), r or at)]
                return []
            body = _conv_tail(body, mk)
        elif mode == 'gen':
            body = _conv_tail(body, lambda v, r=None: [])
            loop = target

            # `for x in helper(): yield x` with x used nowhere else: the helper's yields are the caller's yields
            passthrough = False
            if isinstance(loop.target, ast.Name) and len(loop.body) == 1 and isinstance(loop.body[0], ast.Expr) \
                    and isinstance(loop.body[0].value, ast.Yield) and isinstance(loop.body[0].value.value, ast.Name) \
                    and loop.body[0].value.value.id == loop.target.id and not loop.orelse:
                nloads = sum(1 for x in ast.walk(ctx['fn']) if isinstance(x, ast.Name) and isinstance(x.ctx, ast.Load)
                             and x.id == loop.target.id)
                same = sum(1 for x in ast.walk(ctx['fn']) if isinstance(x, ast.For) and isinstance(x.target, ast.Name)
                           and x.target.id == loop.target.id and len(x.body) == 1 and isinstance(x.body[0], ast.Expr)
                           and isinstance(x.body[0].value, ast.Yield) and isinstance(x.body[0].value.value, ast.Name)
                           and x.body[0].value.value.id == loop.target.id)
                passthrough = nloads == same

            class Y(ast.NodeTransformer):
                def visit_Expr(self_, e):
                    if isinstance(e.value, ast.Yield) and passthrough:
                        return e
                    if isinstance(e.value, ast.Yield):
                        val = e.value.value if e.value.value is not None else ast.Constant(value=None)
                        asg = ast.copy_location(ast.Assign(targets=[copy.deepcopy(loop.target)], value=val), e)
                        return [asg] + copy.deepcopy(loop.body)
                    return e

                def visit_FunctionDef(self_, n):
                    return n

                def visit_Lambda(self_, n):
                    return n
            nb = []
            for st in body:
                r = Y().visit(st)
                nb.extend(r if isinstance(r, list) else [r])
            body = nb + copy.deepcopy(loop.orelse)
        else:
            def mk(v, r=None):
                val = v if v is not None else ast.Constant(value=None)
                tgt = copy.deepcopy(target)
                for x in ast.walk(tgt):
                    if isinstance(x, (ast.Name, ast.Tuple)):
                        x.ctx = ast.Store()
                asg = ast.copy_location(ast.Assign(targets=[tgt], value=val), r or at)
                asg._norm = True
                return [asg]
            body = _conv_tail(body, mk)
        if mode in ('assign', 'expr'):
            def _ph(stmts, f_):
                if any(isinstance(x, ast.Assign) and isinstance(x.targets[0], ast.Name) and x.targets[0].id == _RET
                       for x in stmts):
                    o_ = []
                    for x in stmts:
                        if isinstance(x, ast.Assign) and isinstance(x.targets[0], ast.Name) and x.targets[0].id == _RET:
                            o_.extend(mk(x.value, x))
                        else:
                            o_.append(x)
                    return o_
                return None
            holder = ast.Module(body=body, type_ignores=[])
            from .normalise import _Blocks
            _Blocks(_ph).run(holder)
            body = holder.body
        out = pre + body
        if not out:
            out = [ast.copy_location(ast.Pass(), at)]
        for s in out:
            ast.fix_missing_locations(s)
        h.uses += 1
        self.log.append('%s inlined into %s (line %d, as %s)' % (h.qual, ctx['qual'], getattr(at, 'lineno', 0), mode))
        return out

    def _dead_after(self, caller, helper, name, call, at, param):
        """The caller's local ``name`` is read only by this call (as a plain argument), the call is not inside a loop,
        and the helper does not use that name itself."""
        loads = 0
        stack = [caller]
        while stack:
            n = stack.pop()
            if n is helper:
                continue
            if isinstance(n, ast.Name) and n.id == name and isinstance(n.ctx, ast.Load):
                loads += 1
            if isinstance(n, (ast.For, ast.While)) and any(x is at for x in ast.walk(n)):
                return False
            stack.extend(ast.iter_child_nodes(n))
        in_call = sum(1 for a in list(call.args) + [k.value for k in call.keywords] if isinstance(a, ast.Name) and a.id == name)
        if loads != in_call or in_call != 1:
            return False
        if name != param and any(isinstance(x, ast.Name) and x.id == name for x in ast.walk(helper)):
            return False
        return True

    # ------------------------------------------------------------------ drop
    def _drop_unused(self):
        """Remove helper definitions that are no longer referenced anywhere in the package."""
        inlined = set(l.split(' ', 1)[0] for l in self.log)
        if not inlined:
            return
        refs = {}
        for m in self.modules.values():
            for n in ast.walk(m.tree):
                if isinstance(n, ast.Attribute):
                    refs[n.attr] = refs.get(n.attr, 0) + 1
                elif isinstance(n, ast.Name):
                    refs[n.id] = refs.get(n.id, 0) + 1
                elif isinstance(n, ast.Constant) and isinstance(n.value, str) and n.value.isidentifier():
                    refs[n.value] = refs.get(n.value, 0) + 1

        def prune(owner_body, prefix):
            keep = []
            for s in owner_body:
                if isinstance(s, ast.FunctionDef) and (prefix + '.' + s.name) in inlined and refs.get(s.name, 0) == 0:
                    self.log.append('%s removed (every use inlined)' % (prefix + '.' + s.name))
                    continue
                keep.append(s)
            if not keep:
                keep = [ast.Pass()]
            return keep

        for m in self.modules.values():
            if m.name.startswith('examples'):
                continue
            m.tree.body = prune(m.tree.body, m.name)
            stack = [(s, m.name) for s in m.tree.body]
            while stack:
                n, prefix = stack.pop()
                if isinstance(n, (ast.ClassDef, ast.FunctionDef)):
                    q = prefix + '.' + n.name
                    n.body = prune_nested(n, q, inlined, refs, self.log) if isinstance(n, ast.FunctionDef) else prune(n.body, q)
                    for s in n.body:
                        stack.append((s, q))


def prune_nested(fn, qual, inlined, refs, log):
    """Drop inlined nested defs anywhere in the function body (one level)."""
    class T(ast.NodeTransformer):
        def visit_FunctionDef(self, n):
            if n is fn:
                self.generic_visit(n)
                return n
            if (qual + '.' + n.name) in inlined and refs.get(n.name, 0) == 0:
                log.append('%s removed (every use inlined)' % (qual + '.' + n.name))
                return None
            return n

        def visit_ClassDef(self, n):
            return n

        def visit_Lambda(self, n):
            return n
    T().visit(fn)
    _fill_empty(fn)
    return fn.body


def _fill_empty(node):
    for n in ast.walk(node):
        for field in ('body', 'orelse', 'finalbody'):
            v = getattr(n, field, None)
            if field == 'body' and isinstance(v, list) and not v and isinstance(n, (ast.FunctionDef, ast.If, ast.For, ast.While, ast.With, ast.Try, ast.ExceptHandler, ast.ClassDef)):
                n.body = [ast.Pass()]
